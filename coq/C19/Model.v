(* C19 — executable Gallina model (definitions only; everything computes under vm_compute).

   Part 0  result monad, Python list indexing / slicing with negative constants
   Part 1  SPEC: what torch accepts on dense tensors (shape rules): broadcast_shapes (binary, n-ary),
           matmul (all rank combinations incl. 1-D operands), elementwise ops, expand, cat, integer indexing
   Part 2  transcriptions of the library's shape / index GUARDS
             utils/broadcasting.py  _matmul_broadcast_shape          (hand copy of what the translator emits)
             utils/getitem.py       _compute_getitem_size            (range check of python ints under settings.debug)
             _linear_operator.py    is_square, rmatmul's transposition, expand's argument check,
                                    add_diagonal's expand, __init__/_check_args (Dense, Mul, Cat)
   Part 3  the guard table vocabulary (rows are REGENERATED from the AST of /repo into gen/Guards.v),
           its verdict function and its path semantics
   Part 4  transcriptions of the pinned class-level overrides that skip the base check
           (DiagLinearOperator.matmul, IdentityLinearOperator.matmul/_maybe_reshape_rhs, ZeroLinearOperator.matmul,
            ZeroLinearOperator.__add__, base _expand_batch)
   Part 5  OPERATOR second operands: the class-level __add__ / _mul_matrix / add_diagonal / mul overrides that decide by
           themselves whether two operator shapes fit (hand copies of what the translator emits from
           diag_linear_operator.py, dense_linear_operator.py, zero_linear_operator.py; every tensor / operator expression is
           denoted by its shape), the vocabulary of the regenerated FAST-PATH table (paths returning self / the operand
           unchanged), and the pinned fast paths `A + Zero -> A`, `A * Zero -> Zero`

   Modelled by their mathematical meaning (not verified): torch.broadcast_shapes, torch.matmul's shape rule,
   Tensor.expand, torch.cat, Tensor.__getitem__ range rule, elementwise `*` (all through the Part 1 specs, which are
   compared with the running torch on every generated case), Python's list indexing/slicing and range(n)[i]. *)
From Coq Require Import String.
From Coq Require Import List ZArith Bool Arith Lia.
Import ListNotations.
Open Scope nat_scope.

(* ===================================================================================== *)
(** * Part 0 — results, Python sequences *)

Inductive res (A : Type) := Ok (a : A) | Raise.
Arguments Ok {A} a.
Arguments Raise {A}.

Definition bind {A B} (x : res A) (f : A -> res B) : res B :=
  match x with Ok a => f a | Raise => Raise end.
Definition lift {A} (o : option A) : res A := match o with Some a => Ok a | None => Raise end.
Definition is_ok {A} (x : res A) : bool := match x with Ok _ => true | Raise => false end.
Definition is_some {A} (x : option A) : bool := match x with Some _ => true | None => false end.
(* try: x  except <the modelled exception>: h *)
Definition try_catch {A} (x : res A) (h : res A) : res A := match x with Ok a => Ok a | Raise => h end.

Definition shape := list nat.

(* l[i] for a Python int i (negative counts from the end); IndexError = Raise *)
Definition py_idx (l : shape) (i : Z) : res nat :=
  let n := Z.of_nat (length l) in
  let j := (if i <? 0 then i + n else i)%Z in
  if ((j <? 0) || (n <=? j))%Z then Raise
  else match nth_error l (Z.to_nat j) with Some x => Ok x | None => Raise end.

(* clamp of a slice bound k on a sequence of length n (PySlice_AdjustIndices, step 1) *)
Definition py_clamp (n k : Z) : Z := (if k <? 0 then Z.max 0 (k + n) else Z.min k n)%Z.
(* l[:k]  and  l[k:]  — slices never raise *)
Definition py_slice_to (l : shape) (k : Z) : shape := firstn (Z.to_nat (py_clamp (Z.of_nat (length l)) k)) l.
Definition py_slice_from (l : shape) (k : Z) : shape := skipn (Z.to_nat (py_clamp (Z.of_nat (length l)) k)) l.

(* range(size)[i] *)
Definition py_range_idx (size : nat) (i : Z) : res Z :=
  let n := Z.of_nat size in
  let j := (if i <? 0 then i + n else i)%Z in
  if ((j <? 0) || (n <=? j))%Z then Raise else Ok j.

Fixpoint shape_eqb (a b : shape) : bool :=
  match a, b with
  | [], [] => true
  | x :: a', y :: b' => (x =? y) && shape_eqb a' b'
  | _, _ => false
  end.

(* ===================================================================================== *)
(** * Part 1 — SPEC (torch on dense tensors) *)

(* one dimension: equal, or one of them is 1 *)
Definition bdim (x y : nat) : option nat :=
  if x =? y then Some x else if x =? 1 then Some y else if y =? 1 then Some x else None.

(* right-aligned broadcasting, on REVERSED shapes (head = last dimension) *)
Fixpoint bc_rev (a b : shape) : option shape :=
  match a, b with
  | [], _ => Some b
  | _, [] => Some a
  | x :: a', y :: b' =>
      match bdim x y, bc_rev a' b' with
      | Some d, Some r => Some (d :: r)
      | _, _ => None
      end
  end.
(* torch.broadcast_shapes(a, b) *)
Definition torch_broadcast (a b : shape) : option shape := option_map (@rev nat) (bc_rev (rev a) (rev b)).
(* torch.broadcast_shapes( *l) *)
Fixpoint torch_broadcast_n (acc : shape) (l : list shape) : option shape :=
  match l with
  | [] => Some acc
  | s :: r => match torch_broadcast acc s with Some a => torch_broadcast_n a r | None => None end
  end.

(* declarative reading of the rule: i-th dimension from the right, missing dimensions count as 1 *)
Definition rdim (l : shape) (i : nat) : nat := nth i (rev l) 1.
Definition Bcast (a b r : shape) : Prop :=
  length r = Nat.max (length a) (length b) /\ forall i, bdim (rdim a i) (rdim b i) = Some (rdim r i).

(* torch.matmul(A, B).shape for tensors of shapes a, b — the documented rule for every rank combination:
   0-d operands are refused; 1-D @ 1-D is a dot product; a 1-D first operand gets a leading 1 that is removed
   afterwards, a 1-D second operand a trailing 1; the inner dimensions must be EQUAL (no broadcasting);
   the remaining leading (batch) dimensions broadcast. *)
Definition torch_matmul_shape (a b : shape) : option shape :=
  match rev a, rev b with
  | [], _ | _, [] => None
  | [n], [p] => if n =? p then Some [] else None
  | [n], p :: k :: bb => if n =? k then Some (rev bb ++ [p]) else None
  | n :: m :: aa, [p] => if n =? p then Some (rev aa ++ [m]) else None
  | n :: m :: aa, p :: k :: bb =>
      if n =? k then option_map (fun bt => bt ++ [m; p]) (torch_broadcast (rev aa) (rev bb)) else None
  end.

(* A + B, A - B, A * B on dense tensors *)
Definition torch_elementwise_shape (a b : shape) : option shape := torch_broadcast a b.

(* Tensor.expand( *sizes): sizes right-aligned with the shape; -1 keeps a dimension (not allowed for new
   leading dimensions); an existing dimension must be equal or 1 *)
Fixpoint expand_rev (a : shape) (s : list Z) : option shape :=
  match a, s with
  | [], [] => Some []
  | [], z :: s' => if (z <? 0)%Z then None
                   else match expand_rev [] s' with Some r => Some (Z.to_nat z :: r) | None => None end
  | _ :: _, [] => None
  | x :: a', z :: s' =>
      match expand_rev a' s' with
      | None => None
      | Some r => if (z =? -1)%Z then Some (x :: r)
                  else if (z <? 0)%Z then None
                  else if (Z.of_nat x =? z)%Z then Some (x :: r)
                  else if x =? 1 then Some (Z.to_nat z :: r) else None
      end
  end.
Definition torch_expand (a : shape) (sizes : list Z) : option shape :=
  option_map (@rev nat) (expand_rev (rev a) (rev sizes)).

(* torch.cat(tensors, dim): same rank, dim in range, all other dimensions equal; the cat dimension adds up.
   (torch's legacy exception for 1-D empty tensors is outside the modelled domain: no zero-size operands.) *)
Definition wrap_dim (rank : nat) (d : Z) : option nat :=
  let n := Z.of_nat rank in
  if ((d <? - n) || (n <=? d))%Z then None else Some (Z.to_nat (if d <? 0 then d + n else d)%Z).
Fixpoint set_nth (l : shape) (k v : nat) : shape :=
  match l, k with
  | [], _ => []
  | _ :: r, 0 => v :: r
  | x :: r, S k' => x :: set_nth r k' v
  end.
Definition cat2 (k : nat) (a b : shape) : option shape :=
  if (length a =? length b) && shape_eqb (set_nth a k 0) (set_nth b k 0)
  then Some (set_nth a k (nth k a 0 + nth k b 0)) else None.
Fixpoint cat_fold (k : nat) (acc : shape) (l : list shape) : option shape :=
  match l with
  | [] => Some acc
  | s :: r => match cat2 k acc s with Some a => cat_fold k a r | None => None end
  end.
Definition torch_cat (l : list shape) (d : Z) : option shape :=
  match l with
  | [] => None
  | a :: r => match wrap_dim (length a) d with
              | None => None
              | Some k => cat_fold k a r
              end
  end.

(* x[i] on a dimension of size n is accepted iff -n <= i < n *)
Definition torch_index_ok (size : nat) (i : Z) : bool :=
  ((- Z.of_nat size <=? i) && (i <? Z.of_nat size))%Z.

(* ===================================================================================== *)
(** * Part 2 — the library's guards *)

(* utils/broadcasting.py::_matmul_broadcast_shape(shape_a, shape_b)
   Hand copy of the term the translator (harness/c19_tr.py) emits for the pinned source; gen/Guards.v holds the
   term regenerated from /repo and Proofs.v proves the two equal (gen_matmul_broadcast_shape_eq). *)
Definition lib_matmul_broadcast_shape (shape_a shape_b : shape) : res shape :=
  bind (py_idx shape_a (-2)) (fun m =>
  bind (py_idx shape_a (-1)) (fun n =>
  bind (py_idx shape_b (-1)) (fun p =>
  if (length shape_b =? 1) then
    (if negb (n =? p) then Raise
     else Ok (py_slice_to shape_a (-1)))
  else
    bind (py_idx shape_b (-2)) (fun t0 =>
    if negb (n =? t0) then Raise
    else
      let tail_shape := [m; p] in
      bind (lift (torch_broadcast (py_slice_to shape_a (-2)) (py_slice_to shape_b (-2)))) (fun bc_shape =>
      Ok (bc_shape ++ tail_shape)))))).

(* LinearOperator.is_square:  matrix_shape = shape[-2:] ;  matrix_shape[0] == matrix_shape[1] *)
Definition lib_is_square (a : shape) : res bool :=
  let ms := py_slice_from a (-2) in
  bind (py_idx ms 0) (fun r => bind (py_idx ms 1) (fun c => Ok (r =? c))).

(* x.mT on a shape (torch refuses 1-D tensors; a 0-d tensor is returned unchanged) *)
Definition shape_mT (a : shape) : res shape :=
  match rev a with
  | n :: m :: r => Ok (rev r ++ [n; m])
  | [] => Ok []
  | [_] => Raise
  end.

(* utils/getitem.py::_compute_getitem_size, the `isinstance(idx, int)` branch (hand copy of the generated term) *)
Definition lib_getitem_int_check (debug : bool) (size : nat) (idx : Z) : res unit :=
  if debug then
    try_catch (bind (py_range_idx size idx) (fun _ => Ok tt)) Raise
  else Ok tt.

(* dtypes of index tensors (torch.bool masks select by position; the others carry VALUES) *)
Inductive idtype := DBool | DUInt8 | DInt8 | DInt16 | DInt32 | DInt64.
Definition idtype_eqb (x y : idtype) : bool :=
  match x, y with
  | DBool, DBool | DUInt8, DUInt8 | DInt8, DInt8 | DInt16, DInt16 | DInt32, DInt32 | DInt64, DInt64 => true
  | _, _ => false
  end.
Definition all_idtypes : list idtype := [DBool; DUInt8; DInt8; DInt16; DInt32; DInt64].

(* idx.max().item() / idx.min().item() of a non-empty tensor, on its flattened values *)
Definition zmax (l : list Z) : Z := match l with [] => 0%Z | v :: r => fold_right Z.max v r end.
Definition zmin (l : list Z) : Z := match l with [] => 0%Z | v :: r => fold_right Z.min v r end.

(* utils/getitem.py::_compute_getitem_size, the range check at the top of the `torch.is_tensor(idx)` branch
   (hand copy of the generated term):
     if settings.debug.on() and idx.numel() and idx.dtype != torch.bool:
         if idx.max().item() >= size or idx.min().item() < -size: raise IndexError *)
Definition lib_getitem_tensor_check (debug : bool) (dt : idtype) (size : nat) (vals : list Z) : res unit :=
  if debug then
    if negb (length vals =? 0) then
      if negb (idtype_eqb dt DBool) then
        if (Z.of_nat size <=? zmax vals)%Z then Raise
        else if (zmin vals <? - Z.of_nat size)%Z then Raise
        else Ok tt
      else Ok tt
    else Ok tt
  else Ok tt.

(* index items after __getitem__'s normalisation: python int, slice (only its length on this dimension
   matters here; computed by the harness with Python's own slice.indices), tensor index (dtype, shape, flattened values) *)
Inductive item := IInt (i : Z) | ISlice (len : nat) | ITensor (dt : idtype) (sh : shape) (vals : list Z).

(* loop state of _compute_getitem_size *)
Record gstate := GS { g_final : shape; g_tidx : option nat; g_tshape : option shape; g_slice_after : bool }.

Definition getitem_step (debug : bool) (st : gstate) (size : nat) (it : item) : res gstate :=
  match it with
  | ISlice len =>
      Ok (GS (g_final st ++ [len]) (g_tidx st) (g_tshape st)
             (match g_tidx st with Some _ => true | None => g_slice_after st end))
  | IInt i => bind (lib_getitem_int_check debug size i) (fun _ => Ok st)
  | ITensor dt sh vals =>
      bind (lib_getitem_tensor_check debug dt size vals) (fun _ =>
      match g_tshape st with
      | None => Ok (GS (g_final st) (Some (length (g_final st))) (Some sh) (g_slice_after st))
      | Some ts =>
          bind (lift (torch_broadcast ts sh)) (fun ts' =>
          Ok (GS (g_final st) (if g_slice_after st then Some 0 else g_tidx st) (Some ts') (g_slice_after st)))
      end)
  end.

Fixpoint getitem_loop (debug : bool) (st : gstate) (sizes : shape) (idx : list item) : res gstate :=
  match sizes, idx with
  | n :: sizes', it :: idx' => bind (getitem_step debug st n it) (fun st' => getitem_loop debug st' sizes' idx')
  | _, _ => Ok st      (* zip stops at the shorter sequence; equal lengths are checked before the loop *)
  end.

Definition lib_compute_getitem_size (debug : bool) (obj_shape : shape) (idx : list item) : res shape :=
  if negb (length obj_shape =? length idx) then Raise
  else
    bind (getitem_loop debug (GS [] None None false) obj_shape idx) (fun st =>
    match g_tidx st, g_tshape st with
    | Some t, Some ts => Ok (firstn t (g_final st) ++ ts ++ skipn t (g_final st))
    | _, _ => Ok (g_final st)
    end).

(* LinearOperator.expand( *sizes): the argument check in front of _expand_batch *)
Definition zs_of (l : shape) : list Z := map Z.of_nat l.
Fixpoint zlist_eqb (a b : list Z) : bool :=
  match a, b with
  | [], [] => true
  | x :: a', y :: b' => (x =? y)%Z && zlist_eqb a' b'
  | _, _ => false
  end.
Definition lastn {A} (k : nat) (l : list A) : list A := skipn (length l - k) l.
Definition lib_expand_check (a : shape) (sizes : list Z) : res (list Z) :=
  if (length sizes <? 2) || negb (zlist_eqb (lastn 2 sizes) (zs_of (lastn 2 a)) || zlist_eqb (lastn 2 sizes) [(-1)%Z; (-1)%Z])
  then Raise else Ok (firstn (length sizes - 2) sizes).

(* base LinearOperator._expand_batch(batch_shape) followed by repeat( *batch_repeat, 1, 1):
     current_shape = [1]*(len(batch_shape) - self.dim() + 2) + batch_shape(self)
     batch_repeat  = [e // c for e, c in zip(batch_shape, current_shape)]       (zip truncates!)
     result batch  = repeat of the operator's batch by batch_repeat (torch.repeat semantics: right-aligned product)
   NOTE: no divisibility / size-1 check — the pinned code floor-divides. *)
Definition lib_expand_batch_base (batch : shape) (target : list Z) : res shape :=
  let cur := repeat 1 (length target - length batch) ++ batch in
  let reps := map (fun '(e, c) => (e / Z.of_nat c)%Z) (combine target cur) in
  (* repeat( *reps, 1, 1) needs at least as many repeat dims as the operator has dims, and no negative repeat *)
  if (length reps <? length batch) || existsb (fun z => (z <? 0)%Z) reps then Raise
  else Ok (map (fun '(r, c) => Z.to_nat r * c) (combine reps cur)).

(* LinearOperator.add_diagonal(diag): is_square, then diag.expand(self.shape[:-1]) or diag.expand( *batch, 1) *)
Definition lib_add_diagonal_check (a d : shape) : res shape :=
  bind (lib_is_square a) (fun sq =>
  if negb sq then Raise
  else
    let standard := match rev d with x :: _ => negb (x =? 1) | [] => false end in
    if standard then bind (lift (torch_expand d (zs_of (py_slice_to a (-1))))) (fun _ => Ok a)
    else bind (lift (torch_expand d (zs_of (py_slice_to a (-2)) ++ [1%Z]))) (fun _ => Ok a)).

(* constructor checks under settings.debug: the string returned by _check_args becomes a ValueError *)
Definition lib_dense_check_args (t : shape) : res unit := if length t <? 2 then Raise else Ok tt.
Definition lib_mul_check_args (l r : shape) : res unit := if shape_eqb l r then Ok tt else Raise.
(* CatLinearOperator._check_args( *linear_ops, dim): all ranks equal, shapes equal after `del shape[dim]` *)
Fixpoint del_nth (l : shape) (k : nat) : shape :=
  match l, k with [], _ => [] | _ :: r, 0 => r | x :: r, S k' => x :: del_nth r k' end.
Definition py_del (l : shape) (d : Z) : res shape :=
  match wrap_dim (length l) d with Some k => Ok (del_nth l k) | None => Raise end.
Definition lib_cat_check_args (ops : list shape) (d : Z) : res unit :=
  match ops with
  | [] => Raise
  | [_] => Raise
  | rep :: _ =>
      bind (py_del rep d) (fun rep_noncat =>
      fold_left (fun acc t => bind acc (fun _ =>
        if negb (length t =? length rep) then Raise
        else bind (py_del t d) (fun tn => if shape_eqb tn rep_noncat then Ok tt else Raise))) ops (Ok tt))
  end.

(* CatLinearOperator.__init__( *linear_ops, dim): `if dim >= 0: dim = dim - ndims` BEFORE the checked constructor runs;
   a dim >= ndims therefore becomes a valid non-negative dim (pinned behaviour: no range check) *)
Definition lib_cat_init (ops : list shape) (d : Z) : res unit :=
  match ops with
  | [] => Raise
  | rep :: _ =>
      let ndims := Z.of_nat (length rep) in
      let d' := (if 0 <=? d then d - ndims else d)%Z in
      lib_cat_check_args ops d'
  end.

(* ===================================================================================== *)
(** * Part 3 — guard table vocabulary *)

Inductive entry :=
| E_matmul | E_rmatmul | E_solve | E_inv_quad | E_inv_quad_logdet | E_add | E_sub | E_mul
| E_add_diagonal | E_expand | E_getitem | E_logdet | E_diagonalization | E_root_decomposition
| E_root_inv_decomposition | E_cholesky.

Definition entry_eqb (x y : entry) : bool :=
  match x, y with
  | E_matmul, E_matmul | E_rmatmul, E_rmatmul | E_solve, E_solve | E_inv_quad, E_inv_quad
  | E_inv_quad_logdet, E_inv_quad_logdet | E_add, E_add | E_sub, E_sub | E_mul, E_mul
  | E_add_diagonal, E_add_diagonal | E_expand, E_expand | E_getitem, E_getitem | E_logdet, E_logdet
  | E_diagonalization, E_diagonalization | E_root_decomposition, E_root_decomposition
  | E_root_inv_decomposition, E_root_inv_decomposition | E_cholesky, E_cholesky => true
  | _, _ => false
  end.

(* guards the scanner recognises (statement patterns, see harness/c19_tr.py) *)
Inductive guard :=
| G_mm          (* _matmul_broadcast_shape(self.shape, <operand>.shape), not inside a swallowing try *)
| G_sq          (* if not self.is_square: raise *)
| G_bc          (* torch.broadcast_shapes(self.shape, <operand>.shape), failure re-raised *)
| G_partial (what : string).   (* any other recognised, weaker check: carries no guarantee *)

Definition guard_eqb (x y : guard) : bool :=
  match x, y with
  | G_mm, G_mm | G_sq, G_sq | G_bc, G_bc => true
  | G_partial a, G_partial b => String.eqb a b
  | _, _ => false
  end.

(* how a path through an entry point ends (paths ending in `raise` are not listed) *)
Inductive xkind :=
| XCompute                 (* reaches a torch primitive / a private method / a constructor *)
| XSelf (e : entry).       (* returns self.<e>(operand) (for rmatmul: self.mT.<e>(operand.mT)) *)

(* operand kinds for which a path is feasible (from isinstance(<operand>, T) / torch.is_tensor tests on the path) *)
Inductive ocond := OAny | OTensor | ONonTensor.

Record exit := X { x_guards : list guard; x_kind : xkind; x_cond : ocond }.
Record row := R { r_cls : string; r_entry : entry; r_def : string; r_exits : list exit }.

(* the paths a torch.Tensor operand can take *)
Definition feasible_tensor (x : exit) : bool := match x_cond x with ONonTensor => false | _ => true end.
Definition restrict_tensor (tbl : list row) : list row :=
  map (fun r => R (r_cls r) (r_entry r) (r_def r) (filter feasible_tensor (r_exits r))) tbl.

Definition find_row (tbl : list row) (c : string) (e : entry) : option row :=
  find (fun r => String.eqb (r_cls r) c && entry_eqb (r_entry r) e) tbl.

Definition has_guard (g : guard) (gs : list guard) : bool := existsb (guard_eqb g) gs.
Definition has_all (need gs : list guard) : bool := forallb (fun g => has_guard g gs) need.

(* what an entry point must have checked so that NO shape torch refuses gets through *)
Definition req_exact (e : entry) : option (list guard) :=
  match e with
  | E_matmul => Some [G_mm]
  | E_inv_quad => Some [G_sq; G_mm]
  | E_mul | E_add => Some [G_bc]
  | _ => None          (* rmatmul / __sub__: only through their delegations (matmul on the transposed operands / __add__) *)
  end.
Definition req_square (e : entry) : bool :=
  match e with
  | E_solve | E_inv_quad | E_inv_quad_logdet | E_add_diagonal | E_logdet | E_diagonalization
  | E_root_decomposition | E_root_inv_decomposition | E_cholesky => true
  | _ => false
  end.

(* a delegation self.<e2>(...) discharges the requirement of e when e2's own requirement implies it *)
Definition delegates_exact (e e2 : entry) : bool :=
  match e, e2 with
  | E_rmatmul, E_matmul | E_sub, E_add => true
  | _, _ => false
  end.
Definition delegates_square (e e2 : entry) : bool :=
  match e, e2 with
  | E_logdet, E_inv_quad_logdet | E_inv_quad_logdet, E_inv_quad => true
  | _, _ => false
  end.

(* every non-raising path of (c, e) has passed the exact guards (or delegates to an entry that has) *)
Fixpoint row_exact (fuel : nat) (tbl : list row) (c : string) (e : entry) : bool :=
  match fuel with
  | 0 => false
  | S f =>
      match find_row tbl c e with
      | Some r =>
          forallb (fun x =>
            match req_exact e with Some need => has_all need (x_guards x) | None => false end ||
            match x_kind x with
            | XSelf e2 => delegates_exact e e2 && row_exact f tbl c e2
            | XCompute => false
            end) (r_exits r)
      | None => false
      end
  end.

Fixpoint row_square (fuel : nat) (tbl : list row) (c : string) (e : entry) : bool :=
  match fuel with
  | 0 => false
  | S f =>
      match find_row tbl c e with
      | Some r =>
          req_square e &&
          forallb (fun x =>
            has_guard G_sq (x_guards x) ||
            match x_kind x with
            | XSelf e2 => delegates_square e e2 && row_square f tbl c e2
            | XCompute => false
            end) (r_exits r)
      | None => false
      end
  end.

Definition FUEL := 6.

(* meaning of a guard on (operator shape a, operand shape b) *)
Definition guard_holds (g : guard) (a b : shape) : bool :=
  match g with
  | G_mm => is_ok (lib_matmul_broadcast_shape a b)
  | G_sq => match lib_is_square a with Ok true => true | _ => false end
  | G_bc => is_some (torch_broadcast a b)
  | G_partial _ => true
  end.

(* operands seen by the callee of a delegation; None = the delegation itself raises (x.mT on < 2 dims) *)
Definition transform (e e2 : entry) (a b : shape) : option (shape * shape) :=
  match e, e2 with
  | E_rmatmul, E_matmul =>
      match shape_mT a with
      | Raise => None
      | Ok aT => if length b =? 1 then Some (aT, b)
                 else match shape_mT b with Ok bT => Some (aT, bT) | Raise => None end
      end
  | _, _ => Some (a, b)
  end.

(* PATH SEMANTICS.  can_return fuel tbl c e a b: some path through the code of c.<e> on shapes (a, b) passes all
   the guards on it and ends in a return (whatever the computation there yields — the torch primitives reached
   are left completely unconstrained). *)
Fixpoint can_return (fuel : nat) (tbl : list row) (c : string) (e : entry) (a b : shape) : Prop :=
  match fuel with
  | 0 => True      (* unknown depth: assume the worst *)
  | S f =>
      match find_row tbl c e with
      | None => True
      | Some r =>
          exists x, In x (r_exits r) /\ forallb (fun g => guard_holds g a b) (x_guards x) = true /\
                    match x_kind x with
                    | XCompute => True
                    | XSelf e2 => match transform e e2 a b with
                                  | None => False
                                  | Some (a', b') => can_return f tbl c e2 a' b'
                                  end
                    end
      end
  end.

(* torch's verdict for the dense counterpart of an entry point *)
Definition spec_shape (e : entry) (a b : shape) : option shape :=
  match e with
  | E_matmul => torch_matmul_shape a b
  | E_rmatmul => torch_matmul_shape b a
  | E_inv_quad => match lib_is_square a with
                  | Ok true => torch_matmul_shape a b
                  | _ => None
                  end
  | E_mul | E_add | E_sub => torch_elementwise_shape a b
  | _ => None
  end.

(* ===================================================================================== *)
(** * Part 4 — pinned class-level code that skips the base check (shape level) *)

(* DiagLinearOperator.matmul, Tensor branch:
     diag = self._diag if other.ndim == 1 else self._diag.unsqueeze(-1) ; return diag * other
   dshape = shape of self._diag = operator shape without its last dimension *)
Definition pinned_diag_matmul (a b : shape) : res shape :=
  let dshape := py_slice_to a (-1) in
  let d := if length b =? 1 then dshape else dshape ++ [1] in
  lift (torch_broadcast d b).

(* IdentityLinearOperator._maybe_reshape_rhs / matmul:
     is_vec: other.unsqueeze(-1) ... squeeze(-1)
     if self._batch_shape != rhs.shape[:-2]: rhs.expand( *broadcast_shapes(rhs.shape[:-2], batch), *rhs.shape[-2:])
     else rhs *)
Definition pinned_identity_reshape (a r : shape) : res shape :=
  let batch := py_slice_to a (-2) in
  let rb := py_slice_to r (-2) in
  if shape_eqb batch rb then Ok r
  else bind (lift (torch_broadcast rb batch)) (fun bs =>
       bind (lift (torch_expand r (zs_of (bs ++ py_slice_from r (-2))))) (fun s => Ok s)).
Definition pinned_identity_matmul (a b : shape) : res shape :=
  if length b =? 1 then
    bind (pinned_identity_reshape a (b ++ [1])) (fun s => Ok (py_slice_to s (-1)))   (* squeeze(-1) of a trailing 1 *)
  else pinned_identity_reshape a b.

(* ZeroLinearOperator.matmul:
     tensor_size_ind = -2 if other.ndimension() > 1 else -1
     if self.size(-1) != other.size(tensor_size_ind): raise
     output_shape = ( *other.shape[:-1], new_m)  resp. ( *other.shape[:-2], new_m, n)     (the operator's batch is ignored) *)
Definition pinned_zero_matmul (a b : shape) : res shape :=
  let ind := if 1 <? length b then (-2)%Z else (-1)%Z in
  bind (py_idx a (-1)) (fun n =>
  bind (py_idx b ind) (fun k =>
  if negb (n =? k) then Raise
  else bind (py_idx a (-2)) (fun new_m =>
       if (ind =? -1)%Z then Ok (py_slice_to b (-1) ++ [new_m])
       else bind (py_idx b (-1)) (fun p => Ok (py_slice_to b (-2) ++ [new_m; p]))))).

(* ZeroLinearOperator.__add__(other) = other *)
Definition pinned_zero_add (a b : shape) : res shape := Ok b.

(* ===================================================================================== *)
(** * Part 5 — operator second operands *)

(* Class invariants used as denotations (the `_size` of the classes; template-checked by the translator):
     DiagLinearOperator of shape S:          _diag        has shape S[:-1]
     ConstantDiagLinearOperator of shape S:  diag_values  has shape S[:-2] ++ [1],  diag_shape = S[-1]
     DenseLinearOperator of shape S:         tensor       has shape S
   Constructors:  DiagLinearOperator(t) : t.shape ++ [t.shape[-1]];
                  ConstantDiagLinearOperator(t, n) : t.shape[:-1] ++ [n; n], ValueError under settings.debug unless t.shape[-1] = 1;
                  DenseLinearOperator(t) : t.shape;  ZeroLinearOperator( *sizes) : sizes. *)

(* DiagLinearOperator.add_diagonal(diag):
     shape = torch.broadcast_shapes(self._diag.shape, diag.shape)
     return DiagLinearOperator(self._diag.expand(shape) + diag.expand(shape)) *)
Definition lib_diag_add_diagonal (a b : shape) : res shape :=
  bind (lift (torch_broadcast (py_slice_to a (-1)%Z) b)) (fun t0 =>
  bind (lift (torch_expand (py_slice_to a (-1)%Z) (zs_of t0))) (fun t1 =>
  bind (lift (torch_expand b (zs_of t0))) (fun t2 =>
  bind (lift (torch_broadcast t1 t2)) (fun t3 =>
  bind (py_idx t3 (-1)%Z) (fun t4 =>
  Ok (t3 ++ [t4])))))).

(* DiagLinearOperator.__add__(other: DiagLinearOperator) = self.add_diagonal(other._diag) *)
Definition lib_diag_add (a b : shape) : res shape :=
  bind (lib_diag_add_diagonal a (py_slice_to b (-1)%Z)) (fun t0 => Ok t0).

(* ConstantDiagLinearOperator.__add__(other: ConstantDiagLinearOperator):
     if other.shape[-1] == self.shape[-1]:
         return ConstantDiagLinearOperator(self.diag_values + other.diag_values, self.diag_shape)
     raise RuntimeError *)
Definition lib_constdiag_add (a b : shape) : res shape :=
  bind (py_idx b (-1)%Z) (fun t0 =>
  bind (py_idx a (-1)%Z) (fun t1 =>
  if (t0 =? t1) then
    bind (lift (torch_broadcast (py_slice_to a (-2)%Z ++ [1]) (py_slice_to b (-2)%Z ++ [1]))) (fun t2 =>
    bind (py_idx a (-1)%Z) (fun t3 =>
    bind (py_idx t2 (-1)%Z) (fun t4 =>
    bind (if t4 =? 1 then Ok (py_slice_to t2 (-1)%Z ++ [t3; t3]) else Raise) (fun t5 =>
    Ok t5))))
  else Raise)).

(* ConstantDiagLinearOperator._mul_matrix(other: ConstantDiagLinearOperator):
     if not self.diag_shape == other.diag_shape: raise ValueError
     return self.__class__(self.diag_values * other.diag_values, diag_shape=self.diag_shape) *)
Definition lib_constdiag_mul_matrix (a b : shape) : res shape :=
  bind (py_idx a (-1)%Z) (fun t4 =>
  bind (py_idx b (-1)%Z) (fun t5 =>
  if negb ((t4 =? t5)) then Raise
  else
    bind (lift (torch_broadcast (py_slice_to a (-2)%Z ++ [1]) (py_slice_to b (-2)%Z ++ [1]))) (fun t0 =>
    bind (py_idx a (-1)%Z) (fun t1 =>
    bind (py_idx t0 (-1)%Z) (fun t2 =>
    bind (if t2 =? 1 then Ok (py_slice_to t0 (-1)%Z ++ [t1; t1]) else Raise) (fun t3 =>
    Ok t3)))))).

(* DenseLinearOperator.__add__(other: DenseLinearOperator) = DenseLinearOperator(self.tensor + other.tensor) *)
Definition lib_dense_add (a b : shape) : res shape := bind (lift (torch_broadcast a b)) (fun t0 => Ok t0).
(* ZeroLinearOperator.__add__(other) = other: Part 4, pinned_zero_add (a pinned defect: not translated) *)
(* ZeroLinearOperator.mul(other) = ZeroLinearOperator( *torch.broadcast_shapes(self.shape, other.shape)) *)
Definition lib_zero_mul (a b : shape) : res shape := bind (lift (torch_broadcast a b)) (fun t0 => Ok t0).

(* pinned fast paths of the base class (and SumLinearOperator.__add__) for a ZeroLinearOperator OPERAND:
     __add__: if isinstance(other, ZeroLinearOperator): return self
     mul:     if isinstance(other, ZeroLinearOperator): return other      (before the broadcast check) *)
Definition pinned_add_zero_operand (a b : shape) : res shape := Ok a.
Definition pinned_mul_zero_operand (a b : shape) : res shape := Ok b.

(* FAST-PATH table vocabulary: a path of a binary entry point that returns self / the operand unchanged *)
Inductive fpkind := RetSelf | RetOperand.
Record fastpath := FP { fp_def : string; fp_entry : entry; fp_kind : fpkind; fp_operand : list string;
                        fp_guards : list guard }.
Definition fpkind_eqb (x y : fpkind) : bool :=
  match x, y with RetSelf, RetSelf | RetOperand, RetOperand => true | _, _ => false end.
Fixpoint strs_eqb (a b : list string) : bool :=
  match a, b with
  | [], [] => true
  | x :: a', y :: b' => String.eqb x y && strs_eqb a' b'
  | _, _ => false
  end.
(* same defining class, entry, returned object and tested operand classes (the guards are not part of the identity) *)
Definition fastpath_same (x y : fastpath) : bool :=
  String.eqb (fp_def x) (fp_def y) && entry_eqb (fp_entry x) (fp_entry y) && fpkind_eqb (fp_kind x) (fp_kind y) &&
  strs_eqb (fp_operand x) (fp_operand y).
(* what must have been checked before returning an operand / the receiver unchanged so that no shape torch refuses
   gets through: the exact guard of the entry point (matmul: G_mm; __add__ / mul: G_bc).  Returning self from
   add_diagonal / rmatmul / __sub__ is never justified by a guard of this vocabulary. *)
Definition fastpath_guarded (f : fastpath) : bool :=
  match req_exact (fp_entry f) with Some need => has_all need (fp_guards f) | None => false end.

(* class membership through the regenerated MRO table *)
Definition mro_lookup (tbl : list (string * list string)) (c : string) : list string :=
  match find (fun x => String.eqb (fst x) c) tbl with Some x => snd x | None => [] end.
Definition isinst_in (tbl : list (string * list string)) (c k : string) : bool :=
  existsb (String.eqb k) (mro_lookup tbl c).
