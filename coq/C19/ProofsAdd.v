(* C19 — OPERATOR second operands: the class-level overrides that decide by themselves whether two operator shapes fit
   (Model.v Part 5) never return what torch refuses for the dense operands — for batches of any rank and all sizes. *)
From Coq Require Import String.
From Coq Require Import List ZArith Bool Arith Lia.
Import ListNotations.
Require Import C19.Model C19.ProofsShape C19.ProofsDiag.
Open Scope nat_scope.

(* ------------------------------------------------------------------------------------ *)
(** ** torch's rule on two (batches of) square matrices *)

Lemma torch_broadcast_sq : forall x y n m,
  torch_broadcast (x ++ [n; n]) (y ++ [m; m]) =
  match bdim n m, torch_broadcast x y with Some d, Some r => Some (r ++ [d; d]) | _, _ => None end.
Proof.
  intros x y n m.
  change (x ++ [n; n]) with (x ++ [n] ++ [n]). change (y ++ [m; m]) with (y ++ [m] ++ [m]).
  rewrite !app_assoc, torch_broadcast_app1, torch_broadcast_app1.
  destruct (bdim n m); [|reflexivity]. destruct (torch_broadcast x y); [|reflexivity].
  rewrite <- app_assoc. reflexivity.
Qed.

(* square matrices of different sizes (neither of them 1 x 1) are never added / subtracted / multiplied elementwise,
   whatever the batch shapes *)
Theorem square_sizes_must_match : forall x y n m, n <> m -> n <> 1 -> m <> 1 ->
  torch_elementwise_shape (x ++ [n; n]) (y ++ [m; m]) = None.
Proof.
  intros x y n m H H1 H2. unfold torch_elementwise_shape. rewrite torch_broadcast_sq.
  assert (E : bdim n m = None) by (apply bdim_none; auto). rewrite E. reflexivity.
Qed.

(* ... and of equal size exactly when the batch shapes broadcast *)
Theorem square_same_size_rule : forall x y n,
  torch_elementwise_shape (x ++ [n; n]) (y ++ [n; n]) = option_map (fun r => r ++ [n; n]) (torch_broadcast x y).
Proof.
  intros. unfold torch_elementwise_shape. rewrite torch_broadcast_sq, bdim_refl.
  destruct (torch_broadcast x y); reflexivity.
Qed.

(* ------------------------------------------------------------------------------------ *)
(** ** ConstantDiagLinearOperator.__add__ / _mul_matrix with a ConstantDiagLinearOperator operand *)

Lemma constdiag_values_broadcast : forall x y,
  torch_broadcast (x ++ [1]) (y ++ [1]) = option_map (fun r => r ++ [1]) (torch_broadcast x y).
Proof. intros. rewrite torch_broadcast_app1. simpl. destruct (torch_broadcast x y); reflexivity. Qed.

Theorem constdiag_add_exact : forall x y n m,
  lib_constdiag_add (x ++ [n; n]) (y ++ [m; m]) =
  if m =? n then lift (option_map (fun r => r ++ [n; n]) (torch_broadcast x y)) else Raise.
Proof.
  intros. unfold lib_constdiag_add. rewrite !py_idx_m1'. simpl bind.
  destruct (m =? n); [|reflexivity].
  rewrite !py_slice_to_m2, constdiag_values_broadcast.
  destruct (torch_broadcast x y) as [r|]; [|reflexivity]. simpl.
  rewrite py_idx_m1. simpl. rewrite py_slice_to_m1. reflexivity.
Qed.

Theorem constdiag_mul_matrix_exact : forall x y n m,
  lib_constdiag_mul_matrix (x ++ [n; n]) (y ++ [m; m]) =
  if n =? m then lift (option_map (fun r => r ++ [n; n]) (torch_broadcast x y)) else Raise.
Proof.
  intros. unfold lib_constdiag_mul_matrix. rewrite !py_idx_m1'. simpl bind.
  destruct (n =? m); [|reflexivity]. simpl negb. cbv iota.
  rewrite !py_slice_to_m2, constdiag_values_broadcast.
  destruct (torch_broadcast x y) as [r|]; [|reflexivity]. simpl.
  rewrite py_idx_m1. simpl. rewrite py_slice_to_m1. reflexivity.
Qed.

(* whatever the override returns, torch accepts the dense operands and produces the same shape ... *)
Corollary constdiag_add_sound : forall x y n m s,
  lib_constdiag_add (x ++ [n; n]) (y ++ [m; m]) = Ok s -> torch_elementwise_shape (x ++ [n; n]) (y ++ [m; m]) = Some s.
Proof.
  intros x y n m s. rewrite constdiag_add_exact. destruct (Nat.eqb_spec m n) as [->|]; [|discriminate].
  rewrite square_same_size_rule. destruct (torch_broadcast x y); simpl; intro E; [injection E as <-; reflexivity | discriminate].
Qed.
(* ... operands of different sizes are always refused ... *)
Corollary constdiag_add_rejects_sizes : forall x y n m, n <> m -> lib_constdiag_add (x ++ [n; n]) (y ++ [m; m]) = Raise.
Proof.
  intros. rewrite constdiag_add_exact. destruct (Nat.eqb_spec m n); [congruence | reflexivity].
Qed.
(* ... and on operands of the same size the override is exact *)
Corollary constdiag_add_same_size : forall x y n,
  lib_constdiag_add (x ++ [n; n]) (y ++ [n; n]) = lift (torch_elementwise_shape (x ++ [n; n]) (y ++ [n; n])).
Proof. intros. rewrite constdiag_add_exact, Nat.eqb_refl, square_same_size_rule. reflexivity. Qed.

Corollary constdiag_mul_matrix_sound : forall x y n m s,
  lib_constdiag_mul_matrix (x ++ [n; n]) (y ++ [m; m]) = Ok s ->
  torch_elementwise_shape (x ++ [n; n]) (y ++ [m; m]) = Some s.
Proof.
  intros x y n m s. rewrite constdiag_mul_matrix_exact. destruct (Nat.eqb_spec n m) as [<-|]; [|discriminate].
  rewrite square_same_size_rule. destruct (torch_broadcast x y); simpl; intro E; [injection E as <-; reflexivity | discriminate].
Qed.
Corollary constdiag_mul_matrix_rejects_sizes : forall x y n m, n <> m ->
  lib_constdiag_mul_matrix (x ++ [n; n]) (y ++ [m; m]) = Raise.
Proof.
  intros. rewrite constdiag_mul_matrix_exact. destruct (Nat.eqb_spec n m); [congruence | reflexivity].
Qed.

(* ------------------------------------------------------------------------------------ *)
(** ** DiagLinearOperator.add_diagonal and DiagLinearOperator + DiagLinearOperator *)

(* expanding an operand of a successful broadcast to the broadcast shape succeeds and yields that shape *)
Lemma expand_rev_of_bc : forall u v r, bc_rev u v = Some r -> expand_rev u (map Z.of_nat r) = Some r.
Proof.
  induction u as [|x u IH]; intros v r H.
  - simpl in H. injection H as <-. induction v as [|y v IHv]; [reflexivity|].
    simpl. destruct (Z.ltb_spec (Z.of_nat y) 0); [lia|]. rewrite IHv, Nat2Z.id. reflexivity.
  - destruct v as [|y v].
    + simpl in H. injection H as <-. simpl. rewrite (IH [] u) by (destruct u; reflexivity).
      destruct (Z.eqb_spec (Z.of_nat x) (-1)); [lia|]. destruct (Z.ltb_spec (Z.of_nat x) 0); [lia|].
      rewrite Z.eqb_refl. reflexivity.
    + simpl in H. destruct (bdim x y) as [d|] eqn:D; [|discriminate].
      destruct (bc_rev u v) as [q|] eqn:E; [|discriminate]. injection H as <-.
      simpl. rewrite (IH v q E).
      destruct (Z.eqb_spec (Z.of_nat d) (-1)); [lia|]. destruct (Z.ltb_spec (Z.of_nat d) 0); [lia|].
      apply bdim_some in D. destruct (Z.eqb_spec (Z.of_nat x) (Z.of_nat d)) as [e|ne].
      * apply Nat2Z.inj in e. subst. reflexivity.
      * destruct D as [[-> ->]|[[-> ->]|[-> ->]]]; try (exfalso; apply ne; reflexivity).
        simpl. rewrite Nat2Z.id. reflexivity.
Qed.

Lemma torch_expand_of_broadcast_l : forall u v r, torch_broadcast u v = Some r -> torch_expand u (zs_of r) = Some r.
Proof.
  intros u v r H. unfold torch_broadcast in H. destruct (bc_rev (rev u) (rev v)) as [q|] eqn:E; [|discriminate].
  simpl in H. injection H as <-. unfold torch_expand, zs_of. rewrite <- map_rev, rev_involutive.
  rewrite (expand_rev_of_bc _ _ _ E). reflexivity.
Qed.
Lemma torch_expand_of_broadcast_r : forall u v r, torch_broadcast u v = Some r -> torch_expand v (zs_of r) = Some r.
Proof. intros u v r H. rewrite torch_broadcast_comm in H. exact (torch_expand_of_broadcast_l _ _ _ H). Qed.

Lemma bc_rev_refl : forall r, bc_rev r r = Some r.
Proof. induction r as [|x r IH]; [reflexivity|]. simpl. rewrite bdim_refl, IH. reflexivity. Qed.
Lemma torch_broadcast_refl : forall r, torch_broadcast r r = Some r.
Proof. intro r. unfold torch_broadcast. rewrite bc_rev_refl. simpl. rewrite rev_involutive. reflexivity. Qed.

(* the two expands and the sum never fail once the broadcast of the shapes has succeeded: the whole method is
   `broadcast_shapes(self._diag.shape, diag.shape)` followed by the constructor *)
Theorem diag_add_diagonal_rule : forall a d,
  lib_diag_add_diagonal a d =
  bind (lift (torch_broadcast (py_slice_to a (-1)) d)) (fun r => bind (py_idx r (-1)) (fun k => Ok (r ++ [k]))).
Proof.
  intros a d. unfold lib_diag_add_diagonal.
  destruct (torch_broadcast (py_slice_to a (-1)) d) as [r|] eqn:E; [|reflexivity]. simpl.
  rewrite (torch_expand_of_broadcast_l _ _ _ E), (torch_expand_of_broadcast_r _ _ _ E). simpl.
  rewrite torch_broadcast_refl. reflexivity.
Qed.

(* what add_diagonal lets through is a diagonal that broadcasts against shape[:-1] (torch's rule for D + diag_embed(d)) *)
Corollary diag_add_diagonal_sound : forall a d s,
  lib_diag_add_diagonal a d = Ok s -> torch_broadcast (py_slice_to a (-1)) d <> None.
Proof.
  intros a d s. rewrite diag_add_diagonal_rule. destruct (torch_broadcast (py_slice_to a (-1)) d); [discriminate|].
  simpl. discriminate.
Qed.

(* Diag + Diag is EXACT: it raises precisely when torch refuses the two dense matrices and otherwise returns torch's shape,
   for all batch shapes and all sizes (including a 1 x 1 operand, which torch broadcasts) *)
Theorem diag_add_exact : forall x y n m,
  lib_diag_add (x ++ [n; n]) (y ++ [m; m]) = lift (torch_elementwise_shape (x ++ [n; n]) (y ++ [m; m])).
Proof.
  intros. unfold lib_diag_add, torch_elementwise_shape. rewrite diag_add_diagonal_rule.
  rewrite !py_slice_to_m1', torch_broadcast_app1, torch_broadcast_sq.
  destruct (bdim n m) as [k|]; [|reflexivity]. destruct (torch_broadcast x y) as [r|]; [|reflexivity].
  simpl. rewrite py_idx_m1. simpl. rewrite <- app_assoc. reflexivity.
Qed.

(* ------------------------------------------------------------------------------------ *)
(** ** Dense + Dense, Zero * x: torch's own rule *)

Lemma dense_add_exact : forall a b, lib_dense_add a b = lift (torch_elementwise_shape a b).
Proof. intros. unfold lib_dense_add, torch_elementwise_shape. destruct (torch_broadcast a b); reflexivity. Qed.
Lemma zero_mul_exact : forall a b, lib_zero_mul a b = lift (torch_elementwise_shape a b).
Proof. intros. unfold lib_zero_mul, torch_elementwise_shape. destruct (torch_broadcast a b); reflexivity. Qed.

(* ------------------------------------------------------------------------------------ *)
(** ** composed: on (batches of) square operands that torch refuses, every transcribed override raises *)

Theorem operator_operand_overrides_raise : forall x y n m,
  torch_elementwise_shape (x ++ [n; n]) (y ++ [m; m]) = None ->
  lib_constdiag_add (x ++ [n; n]) (y ++ [m; m]) = Raise /\
  lib_constdiag_mul_matrix (x ++ [n; n]) (y ++ [m; m]) = Raise /\
  lib_diag_add (x ++ [n; n]) (y ++ [m; m]) = Raise /\
  lib_dense_add (x ++ [n; n]) (y ++ [m; m]) = Raise /\
  lib_zero_mul (x ++ [n; n]) (y ++ [m; m]) = Raise.
Proof.
  intros x y n m H. repeat split.
  - destruct (lib_constdiag_add (x ++ [n; n]) (y ++ [m; m])) eqn:E; [|reflexivity].
    apply constdiag_add_sound in E. congruence.
  - destruct (lib_constdiag_mul_matrix (x ++ [n; n]) (y ++ [m; m])) eqn:E; [|reflexivity].
    apply constdiag_mul_matrix_sound in E. congruence.
  - rewrite diag_add_exact, H. reflexivity.
  - rewrite dense_add_exact, H. reflexivity.
  - rewrite zero_mul_exact, H. reflexivity.
Qed.

(* the pinned fast paths for a ZeroLinearOperator operand, and ZeroLinearOperator.__add__, return on operands torch refuses *)
Theorem add_zero_operand_refuted : forall x y n m, n <> m -> n <> 1 -> m <> 1 ->
  torch_elementwise_shape (x ++ [n; n]) (y ++ [m; m]) = None /\
  pinned_add_zero_operand (x ++ [n; n]) (y ++ [m; m]) = Ok (x ++ [n; n]) /\
  pinned_mul_zero_operand (x ++ [n; n]) (y ++ [m; m]) = Ok (y ++ [m; m]) /\
  pinned_zero_add (x ++ [n; n]) (y ++ [m; m]) = Ok (y ++ [m; m]).
Proof. intros. split; [apply square_sizes_must_match; assumption | repeat split]. Qed.
