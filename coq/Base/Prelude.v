(* Base.Prelude — shared small definitions (kept minimal; property developments are self-contained) *)
From Coq Require Import List ZArith Bool.
Import ListNotations.

Fixpoint list_Z_eqb (a b : list Z) : bool :=
  match a, b with [], [] => true | x :: r, y :: s => Z.eqb x y && list_Z_eqb r s | _, _ => false end.
Fixpoint list_nat_eqb (a b : list nat) : bool :=
  match a, b with [], [] => true | x :: r, y :: s => Nat.eqb x y && list_nat_eqb r s | _, _ => false end.

Lemma list_Z_eqb_eq a b : list_Z_eqb a b = true -> a = b.
Proof. revert b; induction a as [|x r IH]; destruct b as [|y s]; simpl; intros H; try discriminate; auto.
  apply andb_prop in H as [H1 H2]. apply Z.eqb_eq in H1. subst. f_equal. auto. Qed.
