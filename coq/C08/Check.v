(* C08 — the binary64 instance of the model and the Gallina comparators used by the generated
   correspondence shards (gen/cases_*.v): model output vs what linear_cg returned / raised / warned
   and what its closures were called with. *)
From Coq Require Import PrimFloat.
From mathcomp Require Import ssreflect ssrfun ssrbool eqtype ssrnat seq div.
Require Import C08.Model.
Set Implicit Arguments.
Unset Strict Implicit.
Unset Printing Implicit Defensive.

Definition ArFloat : Arith float :=
  MkArith zero one PrimFloat.add PrimFloat.sub PrimFloat.mul PrimFloat.div
          PrimFloat.opp PrimFloat.sqrt PrimFloat.abs PrimFloat.ltb PrimFloat.leb PrimFloat.eqb.

Notation fcols := (cols float).
Notation fmat := (mat float).

Definition fmax (x y : float) : float := if PrimFloat.ltb x y then y else x.
Definition vmaxabs (v : seq float) : float := foldl (fun a x => fmax a (PrimFloat.abs x)) zero v.

(* entries agree relative to the larger max-norm of the two vectors, plus an absolute floor;
   NaN only matches NaN; sizes must agree *)
Definition is_nanb (x : float) : bool := ~~ PrimFloat.eqb x x.
Definition close1 (bound : float) (a b : float) : bool :=
  if is_nanb a || is_nanb b then is_nanb a && is_nanb b
  else PrimFloat.leb (PrimFloat.abs (PrimFloat.sub a b)) bound || PrimFloat.eqb a b.
Fixpoint all2 (T : Type) (f : T -> T -> bool) (a b : seq T) : bool :=
  match a, b with
  | [::], [::] => true
  | x :: r, y :: s => f x y && all2 f r s
  | _, _ => false
  end.
Definition vclose (tol floor : float) (a b : seq float) : bool :=
  let sc := fmax (vmaxabs a) (vmaxabs b) in
  all2 (close1 (PrimFloat.add (PrimFloat.mul tol sc) floor)) a b.
Definition cclose (tol floor : float) (X Y : fcols) : bool := all2 (vclose tol floor) X Y.
(* result columns: the absolute floor of column j is tol * max|initial_guess_j| (an iterate can cancel
   the guess down to rounding noise; without a guess the floor is 0, so zero columns must be exact) *)
Fixpoint rclose (tol : float) (G X Y : fcols) : bool :=
  match X, Y with
  | [::], [::] => true
  | x :: X', y :: Y' => vclose tol (PrimFloat.mul tol (vmaxabs (head [::] G))) x y && rclose tol (behead G) X' Y'
  | _, _ => false
  end.
Definition mclose (tol floor : float) (M N : fmat) : bool :=
  let sc := fmax (vmaxabs (flatten M)) (vmaxabs (flatten N)) in
  all2 (all2 (close1 (PrimFloat.add (PrimFloat.mul tol sc) floor))) M N.

(* closure call sequences: entries agree relative to the column, with an absolute floor relative to the
   largest entry of the whole recorded trajectory (after convergence the vectors are rounding noise
   relative to the scale of the problem) *)
Definition lmaxabs (L : seq fcols) : float := foldl (fun a X => fmax a (vmaxabs (flatten X))) zero L.
Definition lclose (tol : float) (L1 L2 : seq fcols) : bool :=
  let floor := PrimFloat.mul tol (fmax (lmaxabs L1) (lmaxabs L2)) in
  all2 (cclose tol floor) L1 L2.

(* what the harness observed on the implementation *)
Inductive observed :=
  | ObsErr (e : cg_err)
  | ObsOk (res : fcols)                      (* result, flat columns *)
          (squeezed : bool)                  (* result.ndim == residual.ndim - 1 *)
          (tmat : option (seq fmat))         (* per tridiagonalised flat column, batch-major *)
          (warn : bool)                      (* a NumericalWarning was issued *)
          (winfo : option (nat * float))     (* iteration count and mean residual parsed from the warning *)
          (mm_calls : option (seq fcols))    (* arguments of matmul_closure, in call order *)
          (pre_calls : option (seq fcols)).  (* arguments of the preconditioner, in call order *)

Record case := MkCase {
  c_settings : cg_settings float;
  c_args : cg_args float;
  c_level : nat;          (* 0: raise-or-not, squeeze, presence/number of t_mat only;
                             1: + warning flag, iteration count, closure call counts, all values *)
  c_tol : float;          (* relative tolerance for values *)
  c_obs : observed
}.

Definition oclose (T : Type) (f : T -> T -> bool) (a b : option T) : bool :=
  match a, b with Some x, Some y => f x y | None, None => true | _, _ => false end.

Definition err_eqb (a b : cg_err) : bool :=
  match a, b with
  | ErrTridiagLimit, ErrTridiagLimit | ErrNotCallable, ErrNotCallable | ErrNaN, ErrNaN => true
  | _, _ => false
  end.

(* reason codes: 0 agree; 1 raise/return differs; 2 error kind; 3 squeeze; 4 t_mat presence/count;
   5 warning flag; 6 warning text (iterations / mean); 7 matmul call sequence; 8 preconditioner call
   sequence; 9 result values; 10 t_mat values or size *)
Definition check_case (c : case) : nat :=
  let S := c_settings c in
  let g := c_args c in
  match cg_prepare ArFloat S g, c_obs c with
  | Err e, ObsErr e' => if err_eqb e e' then 0 else 2
  | Err _, ObsOk _ _ _ _ _ _ _ => 1
  | Ok _, ObsErr _ => 1
  | Ok u, ObsOk res sq tm warn winfo mmc prc =>
      let tr := cg_states ArFloat S g u in
      let sf := last (u_s0 u) tr in   (* = cg_final ArFloat S g u, computed once *)
      let o := cg_finish ArFloat g u sf in
      let tol := c_tol c in
      if o_squeeze o && (g_nc g == 1) != sq then 3
      else if ~~ oclose (fun a b : seq fmat => size a == size b) (o_tmat o) tm then 4
      else if c_level c == 0 then 0
      else if o_warn o != warn then 5
      else if ~~ (if winfo is Some (k, m) then (k == o_iters o) && close1 (PrimFloat.mul tol (fmax (fmax (PrimFloat.abs m) (PrimFloat.abs (o_mean o))) (fmax one (vmaxabs (rnorm_ (num_ (u_s0 u))))))) m (o_mean o) else true) then 6
      else if ~~ (if mmc is Some L then
                    lclose tol (u_x0 u :: [seq p_ (num_ s) | s <- take (size tr) (u_s0 u :: tr)]) L
                  else true) then 7
      else if ~~ (if prc is Some L then
                    lclose tol
                         (if u_precond u && ~~ u_skip u then r_ (num_ (u_s0 u)) :: [seq r_ (num_ s) | s <- tr] else [::]) L
                  else true) then 8
      else if ~~ rclose tol (if g_x0 g is Some (_, X0) then X0 else [::]) (o_res o) res then 9
      else if ~~ oclose (all2 (mclose tol zero)) (o_tmat o) tm then 10
      else 0
  end.

(* indices (and reason codes, as index * 16 + code) of the cases where model and implementation differ *)
Fixpoint bad_cases (cs : seq case) (i : nat) : seq nat :=
  match cs with
  | [::] => [::]
  | c :: r => let k := check_case c in
              if k == 0 then bad_cases r i.+1 else (i * 16 + k) :: bad_cases r i.+1
  end.

(* builders used by the generated files *)
Definition dense_closure (nc : nat) (Ms : seq fmat) : closure float := ClCallable (tensor_mm ArFloat nc Ms).
Definition dense_pre (nc : nat) (Ms : seq fmat) : option (fcols -> fcols) := Some (tensor_mm ArFloat nc Ms).
