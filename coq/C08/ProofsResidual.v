(* C08 — the residual the loop carries is the true residual of the iterate it carries (any commutative ring,
   any preconditioner function, any values of alpha/beta, any masks), and its consequences. *)
From mathcomp Require Import all_ssreflect all_algebra.
Require Import C08.Model C08.ProofsBase.
Set Implicit Arguments.
Unset Strict Implicit.
Unset Printing Implicit Defensive.
Import GRing.Theory.
Local Open Scope ring_scope.

Section TrueResidual.
Variable R : comRingType.
Variables (dv : R -> R -> R) (sq ab : R -> R) (lt le eq : R -> R -> bool).
Local Notation A := (RA dv sq ab lt le eq).
Variables (n C : nat) (mm pre : cols R -> cols R) (precond : bool).
Variables (eps stop_after : R) (rhs_is_zero : seq bool).
Variable Am : nat -> 'M[R]_n.
Variable bh : cols R.
Hypothesis mm_lin : col_linear C Am mm.

Definition true_res (s : cg_num R) : Prop :=
  forall j, (j < C)%N -> cv n (cget (r_ s) j) = cv n (cget bh j) - Am j *m cv n (cget (x_ s) j).

Lemma col_axpy (v w : seq R) (c : R) :
  \col_(i < n) (vget A v i + c * vget A w i) = cv n v + c *: cv n w.
Proof. by apply/colP => i; rewrite !mxE. Qed.

Lemma step_true_res s :
  true_res s -> true_res (num_step A n C mm pre precond eps stop_after rhs_is_zero s).
Proof.
move=> H j hj; rewrite /num_step.
case: precond; rewrite /step_precond /step_no_precond /jit_linear_cg_updates /= !cv_ctab //;
  set al := sget _ _ j.
- have -> : \col_(i < n) (vget A (cget (r_ s) j) i + -1 * (al * vget A (cget (mm (p_ s)) j) i))
          = cv n (cget (r_ s) j) + (- al) *: cv n (cget (mm (p_ s)) j).
    by apply/colP => i; rewrite !mxE mulN1r mulNr.
  rewrite (col_axpy (cget (x_ s) j) (cget (p_ s) j) al) mm_lin // H // mulmxDr -scalemxAr.
  by rewrite scaleNr opprD addrA.
- have -> : \col_(i < n) (vget A (cget (r_ s) j) i + - al * vget A (cget (mm (p_ s)) j) i)
          = cv n (cget (r_ s) j) + (- al) *: cv n (cget (mm (p_ s)) j).
    by apply/colP => i; rewrite !mxE.
  rewrite (col_axpy (cget (x_ s) j) (cget (p_ s) j) al) mm_lin // H // mulmxDr -scalemxAr.
  by rewrite scaleNr opprD addrA.
Qed.

End TrueResidual.

Section Closed.
Variable R : comRingType.
Variables (dv : R -> R -> R) (sq ab : R -> R) (lt le eq : R -> R -> bool).
Local Notation A := (RA dv sq ab lt le eq).
Variables (S : cg_settings R) (g : cg_args R) (u : cg_setup R).
Local Notation n := (g_n g).
Local Notation C := (size (g_rhs g)).
Variable Am : nat -> 'M[R]_n.
Hypothesis Hprep : cg_prepare A S g = Ok u.
Hypothesis mm_lin : col_linear C Am (u_mm u).

Lemma s0_true_res : true_res C Am (u_rhs u) (num_ (u_s0 u)).
Proof.
have [_ _ [_ _ -> Hx0] _ [-> _ _ _ _]] := prepare_inv Hprep.
move=> j hj /=; rewrite /residual0 cv_ctab // -Hx0.
rewrite -mm_lin //; apply/colP => i; by rewrite !mxE.
Qed.

Lemma all_true_res s : List.In s (u_s0 u :: cg_states A S g u) -> true_res C Am (u_rhs u) (num_ s).
Proof.
case=> [<-|]; first exact: s0_true_res.
apply: trace_inv; last exact: s0_true_res.
by move=> t; apply: step_true_res.
Qed.

(* finishing without a warning *)
Lemma no_warning_stop :
  let sf := cg_final A S g u in
  o_warn (cg_finish A g u sf) = false -> (0 < u_n_iter u)%N ->
  [/\ lt (mean A C (norms_masked A n C (u_rhs_is_zero u) (r_ (num_ sf)))) (u_tolerance u),
      List.In sf (cg_states A S g u) & true_res C Am (u_rhs u) (num_ sf)].
Proof.
move=> sf; rewrite /cg_finish /= => /negbT; rewrite negb_and negbK => /orP [Ht|]; last first.
  by rewrite -leqNgt leqn0 => /eqP ->.
move=> _.
have [_ _ _ _ [_ [Ht0 _] _ _ _]] := prepare_inv Hprep.
case: (trace_tolr Ht) => [|[k' [Hstop Hin]]]; first by rewrite Ht0.
have Hin' : List.In sf (u_s0 u :: cg_states A S g u) by right.
split => //; last exact: all_true_res.
case: (trace_is_step Hin) => t Et.
move: Hstop; rewrite /stop_rule => /and3P [_ Hm _].
by move: Hm; rewrite -/sf /mean Et rnorm_step.
Qed.

End Closed.
