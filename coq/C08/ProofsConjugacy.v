(* C08 — conjugacy of the CG recurrences, finite termination and the CG -> Lanczos conversion, as pure linear
   algebra over a real closed field: sequences R (residuals), Z (preconditioned residuals), P (directions) and
   coefficients a (alpha), b (beta) satisfying the recurrences of the loop body with exact quotients (no threshold
   fired) for K steps.  ProofsExact.v instantiates them with the states of a run of the model. *)
From mathcomp Require Import all_ssreflect all_algebra zify.
From mathcomp Require Import ring.
Require Import C08.ProofsEnergy.
Set Implicit Arguments.
Unset Strict Implicit.
Unset Printing Implicit Defensive.
Import Order.Theory GRing.Theory Num.Theory.
Local Open Scope ring_scope.

Section Algebra2.
Variable F : rcfType.
Variable n : nat.

Lemma sdotBl (u v w : 'cV[F]_n) : sdot (u - v) w = sdot u w - sdot v w.
Proof. by rewrite sdotDl sdotNl. Qed.

Lemma sdotBr (u v w : 'cV[F]_n) : sdot u (v - w) = sdot u v - sdot u w.
Proof. by rewrite sdotDr sdotNr. Qed.

Lemma sdot0r (u : 'cV[F]_n) : sdot u 0 = 0.
Proof. by rewrite /sdot mulmx0 mxE. Qed.

Lemma sdot0l (u : 'cV[F]_n) : sdot 0 u = 0.
Proof. by rewrite sdotC sdot0r. Qed.

Lemma sdot_sum (u v : 'cV[F]_n) : sdot u v = \sum_l u l 0 * v l 0.
Proof. by rewrite /sdot mxE; apply: eq_bigr => l _; rewrite !mxE. Qed.

Lemma sdot_suml (I : finType) (U : I -> 'cV[F]_n) (x : 'cV[F]_n) :
  sdot (\sum_i U i) x = \sum_i sdot (U i) x.
Proof.
elim/big_ind2: _ => [|u1 u2 y1 y2 <- <-|i _] //; first exact: sdot0l.
by rewrite sdotDl.
Qed.

Lemma sdot_sumr (I : finType) (U : I -> 'cV[F]_n) (x : 'cV[F]_n) :
  sdot x (\sum_i U i) = \sum_i sdot x (U i).
Proof. by rewrite sdotC sdot_suml; apply: eq_bigr => i _; rewrite sdotC. Qed.

Lemma sdot_sq_ge0 (u : 'cV[F]_n) : 0 <= sdot u u.
Proof. by rewrite sdot_sum; apply: sumr_ge0 => l _; rewrite -expr2 sqr_ge0. Qed.

Lemma sdot_sq_gt0 (u : 'cV[F]_n) : u != 0 -> 0 < sdot u u.
Proof.
move=> u0; rewrite lt_def sdot_sq_ge0 andbT; apply: contra u0 => /eqP H0.
apply/eqP/colP => l; rewrite [RHS]mxE.
have := H0; rewrite sdot_sum => /eqP; rewrite psumr_eq0; last by move=> i _; rewrite -expr2 sqr_ge0.
by move/allP => /(_ l (mem_index_enum _)) /=; rewrite -expr2 sqrf_eq0 => /eqP.
Qed.

End Algebra2.

(* the recurrences of K exact CG steps (lines 64-74 / 250-281 and 31-46 of linear_cg.py when no safe division
   fires and the column is not frozen):  z = M r,  p0 = z0,  r' = r - a A p,  p' = b p + z',
   a = (r.z)/(p.Ap),  b = (r'.z')/(r.z),  with a != 0 *)
Definition cg_rec (F : rcfType) (n : nat) (A M : 'M[F]_n) (R Z P : nat -> 'cV[F]_n) (a b : nat -> F) (K : nat)
  : Prop :=
  [/\ A^T = A, M^T = M, (forall k, (k <= K)%N -> Z k = M *m R k) & P 0%N = Z 0%N] /\
  [/\ (forall k, (k < K)%N -> R k.+1 = R k - a k *: (A *m P k)),
      (forall k, (k < K)%N -> P k.+1 = b k *: P k + Z k.+1),
      (forall k, (k < K)%N -> a k * sdot (P k) (A *m P k) = sdot (R k) (Z k)),
      (forall k, (k < K)%N -> b k * sdot (R k) (Z k) = sdot (R k.+1) (Z k.+1)) &
      (forall k, (k < K)%N -> a k != 0)].

Section Conjugacy.
Variable F : rcfType.
Variable n : nat.
Variables (A M : 'M[F]_n).
Variables (R Z P : nat -> 'cV[F]_n) (a b : nat -> F) (K : nat).
Hypothesis Hrec : cg_rec A M R Z P a b K.

Definition c_rz (k : nat) : F := sdot (R k) (Z k).
Definition c_pAp (k : nat) : F := sdot (P k) (A *m P k).

Let Asym : A^T = A. Proof. by case: Hrec => [[]]. Qed.
Let Msym : M^T = M. Proof. by case: Hrec => [[]]. Qed.
Let HZ : forall k, (k <= K)%N -> Z k = M *m R k. Proof. by case: Hrec => [[]]. Qed.
Let HP0 : P 0%N = Z 0%N. Proof. by case: Hrec => [[]]. Qed.
Let HR : forall k, (k < K)%N -> R k.+1 = R k - a k *: (A *m P k). Proof. by case: Hrec => [_ []]. Qed.
Let HP : forall k, (k < K)%N -> P k.+1 = b k *: P k + Z k.+1. Proof. by case: Hrec => [_ []]. Qed.
Let Ha : forall k, (k < K)%N -> a k * c_pAp k = c_rz k. Proof. by case: Hrec => [_ []]. Qed.
Let Hb : forall k, (k < K)%N -> b k * c_rz k = c_rz k.+1. Proof. by case: Hrec => [_ []]. Qed.
Let Ha0 : forall k, (k < K)%N -> a k != 0. Proof. by case: Hrec => [_ []]. Qed.

Definition cj_inv (k : nat) : Prop :=
  [/\ forall i, (i < k)%N -> sdot (R k) (P i) = 0,
      forall i, (i < k)%N -> sdot (R k) (Z i) = 0,
      forall i, (i < k)%N -> sdot (P k) (A *m P i) = 0 &
      sdot (R k) (P k) = c_rz k].

Lemma cj0 : cj_inv 0.
Proof. by split => //; rewrite HP0 /c_rz. Qed.

Lemma Z_succ k : (k < K)%N -> Z k.+1 = P k.+1 - b k *: P k.
Proof. by move=> hk; rewrite HP // addrAC subrr add0r. Qed.

Lemma cj_step k : (k < K)%N -> cj_inv k -> cj_inv k.+1.
Proof.
move=> hk [Hc Ha_ Hb_ Hd].
have HZk i : (0 < i <= k.+1)%N -> Z i = P i - b i.-1 *: P i.-1.
  case: i => [|i] //=; rewrite ltnS => hi.
  by rewrite Z_succ // (leq_ltn_trans hi hk).
(* (c) r_{k+1} . p_i = 0 for i <= k *)
have Hc' i : (i < k.+1)%N -> sdot (R k.+1) (P i) = 0.
  rewrite ltnS leq_eqVlt => /orP [/eqP ->|hi]; rewrite HR // sdotBl sdotZl.
    by rewrite Hd -(sdot_sym _ _ Asym) -/(c_pAp k) Ha // subrr.
  by rewrite Hc // -(sdot_sym _ _ Asym) Hb_ // mulr0 subrr.
(* (a) r_{k+1} . z_i = 0 for i <= k *)
have Ha' i : (i < k.+1)%N -> sdot (R k.+1) (Z i) = 0.
  case: i => [|i] hi; first by rewrite -HP0 Hc'.
  have hi' : (i < k.+1)%N by apply: ltnW.
  by rewrite HZk ?(ltnW hi) // sdotBr sdotZr /= (Hc' _ hi) (Hc' _ hi') mulr0 subrr.
(* (d) *)
have Hd' : sdot (R k.+1) (P k.+1) = c_rz k.+1.
  by rewrite HP // sdotDr sdotZr Hc' // mulr0 add0r.
(* z_{k+1} . r_i = r_{k+1} . z_i *)
have Hzr i : (i <= K)%N -> sdot (Z k.+1) (R i) = sdot (R k.+1) (Z i).
  by move=> hi; rewrite (HZ hk) (HZ hi) -(sdot_sym _ _ Msym) sdotC.
split => // i; rewrite ltnS => hi.
have hiK : (i < K)%N by apply: leq_ltn_trans hi hk.
rewrite HP // sdotDl sdotZl.
(* a_i * (z_{k+1} . A p_i) = z_{k+1} . r_i - z_{k+1} . r_{i+1} *)
have Hai : a i * sdot (Z k.+1) (A *m P i) = sdot (Z k.+1) (R i) - sdot (Z k.+1) (R i.+1).
  by rewrite -sdotZr -sdotBr HR // opprB addrC subrK.
apply: (mulfI (Ha0 hiK)); rewrite mulr0 mulrDr Hai !Hzr //; last exact: ltnW.
move: hi; rewrite leq_eqVlt => /orP [/eqP Ei|hi].
  by rewrite Ei Ha' // sub0r mulrCA -/(c_pAp k) Ha // Hb // -/(c_rz k.+1) subrr.
have hi1 : (i.+1 < k.+1)%N by [].
by rewrite Hb_ // !mulr0 add0r (Ha' _ hi1) Ha' ?subrr // ltnW.
Qed.

Lemma cj_all k : (k <= K)%N -> cj_inv k.
Proof. by elim: k => [|k IH] hk; [exact: cj0 | apply: cj_step => //; apply: IH; apply: ltnW]. Qed.

(* the residuals are mutually M-orthogonal *)
Lemma residuals_orthogonal i k : (i < k <= K)%N -> sdot (R k) (M *m R i) = 0.
Proof.
case/andP => hi hk; have [_ H _ _] := cj_all hk.
by rewrite -HZ ?H //; apply: ltnW; apply: leq_trans hi hk.
Qed.

(* the search directions are mutually A-conjugate *)
Lemma directions_conjugate i k : (i < k <= K)%N -> sdot (P k) (A *m P i) = 0.
Proof. by case/andP => hi hk; have [_ _ H _] := cj_all hk; apply: H. Qed.

(* the new residual is orthogonal to all previous directions (the Galerkin condition behind optimality) *)
Lemma residual_orth_directions i k : (i < k <= K)%N -> sdot (R k) (P i) = 0.
Proof. by case/andP => hi hk; have [H _ _ _] := cj_all hk; apply: H. Qed.

Lemma ZR_orth i m : (i <= K)%N -> (m <= K)%N -> sdot (Z i) (R m) = if i == m then c_rz m else 0.
Proof.
move=> hi hm; case: (ltngtP i m) => [lt_im|lt_mi|->].
- by have [_ H _ _] := cj_all hm; rewrite sdotC H.
- by have [_ H _ _] := cj_all hi; rewrite (HZ hi) -(sdot_sym _ _ Msym) -(HZ hm) H.
- by rewrite /c_rz sdotC.
Qed.

(* ---------------------------------------------------------------------------------------------- *)
(* finite termination: after n regular steps the residual vanishes                                 *)
Lemma residual_n_zero : (n <= K)%N -> (forall k, (k < n)%N -> c_rz k != 0) -> R n = 0.
Proof.
move=> hn Hnz.
pose Rm : 'M[F]_n := \matrix_(i, k) R k i 0.
have HK (i : 'I_n) : (i <= K)%N by apply: ltnW; apply: leq_trans (ltn_ord i) hn.
have Hent (i k : 'I_n) : \sum_l Rm^T i l * (M *m Rm) l k = sdot (R i) (M *m R k).
  rewrite sdot_sum; apply: eq_bigr => l _; rewrite !mxE; congr (_ * _).
  by apply: eq_bigr => m _; rewrite !mxE.
have HG : Rm^T *m (M *m Rm) = diag_mx (\row_k c_rz k).
  apply/matrixP => i k; rewrite mxE Hent -HZ // sdotC ZR_orth // !mxE.
  by rewrite -val_eqE /= eq_sym; case: (_ == _); rewrite ?mulr1n ?mulr0n.
have : Rm^T *m (M *m Rm) \in unitmx.
  rewrite HG unitmxE det_diag unitfE; apply/prodf_neq0 => k _.
  by rewrite mxE Hnz.
rewrite unitmx_mul => /andP [_ HU].
have Hv : (M *m Rm)^T *m R n = 0.
  apply/colP => k; rewrite [RHS]mxE.
  have -> : ((M *m Rm)^T *m R n) k 0 = sdot (M *m R k) (R n).
    rewrite sdot_sum mxE; apply: eq_bigr => l _; rewrite !mxE; congr (_ * _).
    by apply: eq_bigr => m _; rewrite !mxE.
  rewrite -HZ // ZR_orth //.
  by rewrite ltn_eqF.
have HU' : (M *m Rm)^T \in unitmx by rewrite unitmx_tr.
by rewrite -[R n](mulKmx HU') Hv mulmx0.
Qed.

(* ---------------------------------------------------------------------------------------------- *)
(* the three-term recurrence behind the CG -> Lanczos conversion                                    *)
Lemma AP k : (k < K)%N -> A *m P k = (a k)^-1 *: (R k - R k.+1).
Proof. by move=> hk; rewrite HR // opprB addrC subrK scalerA mulVf ?scale1r // Ha0. Qed.

(* the diagonal entry k of the tridiagonal matrix:  1/a_k + b_{k-1}/a_{k-1} *)
Definition tdiag (k : nat) : F := (a k)^-1 + (if k is k'.+1 then b k' / a k' else 0).
(* the off-diagonal entry (k, k-1), k >= 1:  sqrt(b_{k-1})/a_{k-1} *)
Definition toff (k : nat) : F := Num.sqrt (b k.-1) / a k.-1.
Definition Rprev (k : nat) : 'cV[F]_n := if k is k'.+1 then (b k' / a k') *: R k' else 0.

Lemma AZ k : (k < K)%N -> A *m Z k = tdiag k *: R k - (a k)^-1 *: R k.+1 - Rprev k.
Proof.
case: k => [|k] hk.
  by rewrite -HP0 AP // /tdiag /Rprev addr0 subr0 scalerBr.
have hk' : (k < K)%N by apply: ltnW.
rewrite Z_succ // mulmxBr -scalemxAr !AP // /tdiag /Rprev.
apply/colP => i; rewrite !mxE; move: (R k i 0) (R k.+1 i 0) (R k.+2 i 0) => x y z.
by field; rewrite !Ha0.
Qed.

Lemma ZAZ i k : (i <= K)%N -> (k < K)%N ->
  sdot (Z i) (A *m Z k) =
  if i == k then tdiag k * c_rz k
  else if i == k.+1 then - c_rz k.+1 / a k
  else if i.+1 == k then - (b i / a i) * c_rz i else 0.
Proof.
move=> hi hk; rewrite AZ // !sdotBr !sdotZr !ZR_orth //; last exact: ltnW.
have -> : sdot (Z i) (Rprev k) = if i.+1 == k then (b i / a i) * c_rz i else 0.
  case: k hk => [|k] hk; rewrite /Rprev; first by rewrite sdot0r.
  rewrite sdotZr ZR_orth //; last by apply: ltnW; apply: ltnW.
  by rewrite eqSS; case: eqP => [->|_] //; rewrite mulr0.
case: (eqVneq i k) => [->|nik].
  have -> : (k == k.+1) = false by lia.
  have -> : (k.+1 == k) = false by lia.
  by rewrite mulr0 !subr0.
case: (eqVneq i k.+1) => [->|nik1].
  have -> : (k.+2 == k) = false by lia.
  by rewrite mulr0 sub0r subr0 mulrC mulNr.
by case: ifP => _; rewrite !mulr0 !subr0 ?sub0r ?mulNr.
Qed.

(* normalised residuals with alternating signs: the Lanczos vectors of A M in the M-inner product *)
Definition cw (k : nat) : F := (-1) ^+ k / Num.sqrt (c_rz k).
Definition W (k : nat) : 'cV[F]_n := cw k *: R k.

Hypothesis Hpos : forall k, (k < K)%N -> 0 < c_rz k.

Lemma MW k : (k <= K)%N -> M *m W k = cw k *: Z k.
Proof. by move=> hk; rewrite /W -scalemxAr -HZ. Qed.

Lemma sgn_sq k : ((-1) ^+ k : F) * (-1) ^+ k = 1.
Proof. by rewrite -expr2 exprAC sqrrN !expr1n. Qed.

Lemma sqrt_rz k : (k < K)%N -> Num.sqrt (c_rz k) * Num.sqrt (c_rz k) = c_rz k /\ Num.sqrt (c_rz k) != 0.
Proof.
move=> hk; have H := Hpos hk; split; first by rewrite -expr2 sqr_sqrtr // ltW.
by rewrite gt_eqF // sqrtr_gt0.
Qed.

Lemma lanczos_orthonormal i k : (i < K)%N -> (k < K)%N -> sdot (W i) (M *m W k) = (i == k)%:R.
Proof.
move=> hi hk; rewrite MW ?(ltnW hk) // /W sdotZl sdotZr sdotC ZR_orth ?(ltnW hi) ?(ltnW hk) //.
rewrite eq_sym; case: (eqVneq i k) => [->|_]; last by rewrite !mulr0.
have [Hq Hq0] := sqrt_rz hk; rewrite /cw.
move: (sgn_sq k) Hq Hq0; move: ((-1) ^+ k) (Num.sqrt _) => s q Hs Hq Hq0.
rewrite -Hq [LHS](_ : _ = s * s); first by rewrite Hs.
by field.
Qed.

Lemma b_pos k : (k.+1 < K)%N -> 0 < b k.
Proof.
move=> hk; have hk' : (k < K)%N by apply: ltnW.
have := Hpos hk; rewrite -Hb // pmulr_lgt0 //; exact: Hpos.
Qed.

(* T = W^T (M A M) W on and above the diagonal (the form is symmetric, see lanczos_T_sym) *)
Lemma lanczos_T i k : (i <= k)%N -> (k < K)%N ->
  sdot (M *m W i) (A *m (M *m W k)) = if i == k then tdiag k else if i.+1 == k then toff k else 0.
Proof.
move=> hik hk; have hi : (i < K)%N by apply: leq_ltn_trans hik hk.
rewrite !MW ?(ltnW hk) ?(ltnW hi) // -scalemxAr sdotZl sdotZr ZAZ ?(ltnW hi) //.
case: (eqVneq i k) => [->|nik].
  have [Hq Hq0] := sqrt_rz hk; rewrite /cw.
  move: (sgn_sq k) Hq Hq0; move: ((-1) ^+ k) (Num.sqrt _) (tdiag k) => s q t Hs Hq Hq0.
  rewrite -Hq [LHS](_ : _ = s * s * t); first by rewrite Hs mul1r.
  by field.
have -> : (i == k.+1) = false by lia.
case: (eqVneq i.+1 k) => [Ek|_]; last by rewrite !mulr0.
have hi1 : (i.+1 < K)%N by rewrite Ek.
have [Hq Hq0] := sqrt_rz hi.
have Hbp := b_pos hi1.
have Hqb : Num.sqrt (b i) * Num.sqrt (b i) = b i by rewrite -expr2 sqr_sqrtr // ltW.
have Hqb0 : Num.sqrt (b i) != 0 by rewrite gt_eqF // sqrtr_gt0.
have Hq1 : Num.sqrt (c_rz i.+1) = Num.sqrt (b i) * Num.sqrt (c_rz i).
  by rewrite -Hb // sqrtrM // ltW.
rewrite /toff -Ek /= /cw Hq1 exprS.
move: (sgn_sq i) Hq Hq0 Hqb Hqb0 (Ha0 hi).
move: ((-1) ^+ i) (Num.sqrt (c_rz i)) (Num.sqrt (b i)) (a i) => s q qb ai Hs Hq Hq0 Hqb Hqb0 Hai.
rewrite -Hq -Hqb [LHS](_ : _ = s * s * (qb / ai)); first by rewrite Hs mul1r.
by field; rewrite Hai Hqb0 Hq0.
Qed.

Lemma lanczos_T_sym i k : sdot (M *m W i) (A *m (M *m W k)) = sdot (M *m W k) (A *m (M *m W i)).
Proof. by rewrite (sdot_sym _ _ Asym) sdotC. Qed.

(* the Lanczos three-term recurrence  (A M) w_k = t_{k+1,k} w_{k+1} + t_{k,k} w_k + t_{k,k-1} w_{k-1} *)
Definition Wprev (k : nat) : 'cV[F]_n := if k is k'.+1 then toff k *: W k' else 0.

Lemma sqrt_b k : (k.+1 < K)%N ->
  [/\ Num.sqrt (b k) * Num.sqrt (b k) = b k, Num.sqrt (b k) != 0 &
      Num.sqrt (c_rz k.+1) = Num.sqrt (b k) * Num.sqrt (c_rz k)].
Proof.
move=> hk1; have hk : (k < K)%N by apply: ltnW.
have Hbp := b_pos hk1; split.
- by rewrite -expr2 sqr_sqrtr // ltW.
- by rewrite gt_eqF // sqrtr_gt0.
- by rewrite -Hb // sqrtrM // ltW.
Qed.

Lemma lanczos_recurrence k : (k.+1 < K)%N ->
  A *m (M *m W k) = toff k.+1 *: W k.+1 + tdiag k *: W k + Wprev k.
Proof.
move=> hk1; have hk : (k < K)%N by apply: ltnW.
rewrite MW ?(ltnW hk) // -scalemxAr AZ // /W /toff [k.+1.-1]/=.
have [Hq Hq0] := sqrt_rz hk.
have [Hqb Hqb0 Hq1] := sqrt_b hk1.
case: k hk1 hk Hq Hq0 Hqb Hqb0 Hq1 => [|k] hk1 hk Hq Hq0 Hqb Hqb0 Hq1.
  rewrite /Wprev /Rprev /tdiag /cw Hq1 !addr0 subr0 expr1 expr0.
  apply/colP => i; rewrite !mxE; move: (R 0%N i 0) (R 1%N i 0) (Ha0 hk) => x y.
  move: (Num.sqrt (c_rz 0)) (Num.sqrt (b 0%N)) (a 0%N) Hq0 Hqb0 => q qb a0 Hq0 Hqb0 Ha00.
  by field; rewrite Ha00 Hqb0 Hq0.
have hk' : (k < K)%N by apply: ltnW.
have [Hq' Hq0'] := sqrt_rz hk'.
have [Hqb' Hqb0' Hq1'] := sqrt_b hk.
rewrite /Wprev /W /Rprev /tdiag /toff [k.+1.-1]/= /cw Hq1 Hq1' !exprS.
move: Hqb' Hqb0'; move: (Num.sqrt (b k)) => qb Hqb' Hqb0'; rewrite -Hqb'.
apply/colP => i; rewrite !mxE; move: (R k i 0) (R k.+1 i 0) (R k.+2 i 0) (Ha0 hk) (Ha0 hk') => x y z.
move: ((-1) ^+ k) (Num.sqrt (c_rz k)) (Num.sqrt (b k.+1)) (a k) (a k.+1) Hq0' Hqb0
  => s q qb1 a0 a1 Hq0' Hqb0 Ha1 Ha00.
by field; rewrite Ha1 Ha00 Hqb0 Hqb0' Hq0'.
Qed.

(* ---------------------------------------------------------------------------------------------- *)
(* Rayleigh quotients: y^T T y = (M v)^T A (M v) and y^T y = v^T M v for v = sum_k y_k w_k; hence the eigenvalues
   of T (Ritz values) lie between any Rayleigh bounds of A in the M-inner product                        *)
Section Ritz.
Variable m : nat.
Hypothesis hm : (m <= K)%N.
Let ltKm (i : 'I_m) : (i < K)%N. Proof. exact: leq_trans (ltn_ord i) hm. Qed.

Definition Tk : 'M[F]_m := \matrix_(i, k) sdot (M *m W i) (A *m (M *m W k)).
Definition comb (y : 'cV[F]_m) : 'cV[F]_n := \sum_(k < m) y k 0 *: W k.

Lemma comb_M (y : 'cV[F]_m) : sdot (comb y) (M *m comb y) = sdot y y.
Proof.
rewrite /comb mulmx_sumr sdot_suml [RHS]sdot_sum; apply: eq_bigr => i _.
rewrite sdot_sumr (bigD1 i) //= big1 ?addr0 => [|k ki].
  by rewrite -scalemxAr sdotZl sdotZr (lanczos_orthonormal (ltKm i) (ltKm i)) eqxx !mulr1.
rewrite -scalemxAr sdotZl sdotZr (lanczos_orthonormal (ltKm i) (ltKm k)).
by rewrite -val_eqE /= eq_sym in ki; rewrite (negbTE ki) !mulr0.
Qed.

Lemma comb_T (y : 'cV[F]_m) : sdot (M *m comb y) (A *m (M *m comb y)) = sdot y (Tk *m y).
Proof.
rewrite /comb !mulmx_sumr sdot_suml [RHS]sdot_sum; apply: eq_bigr => i _.
rewrite sdot_sumr mxE mulr_sumr; apply: eq_bigr => k _.
rewrite [Tk i k]mxE; move: (W i) (W k) => wi wk.
by rewrite -!scalemxAr sdotZl sdotZr; congr (_ * _); rewrite mulrC.
Qed.

Lemma ritz_lower (lo : F) :
  (forall v : 'cV[F]_n, lo * sdot v (M *m v) <= sdot (M *m v) (A *m (M *m v))) ->
  forall (y : 'cV[F]_m) (th : F), Tk *m y = th *: y -> y != 0 -> lo <= th.
Proof.
move=> Hlo y th Hy y0; have := Hlo (comb y); rewrite comb_M comb_T Hy sdotZr.
by rewrite ler_pmul2r // sdot_sq_gt0.
Qed.

Lemma ritz_upper (hi : F) :
  (forall v : 'cV[F]_n, sdot (M *m v) (A *m (M *m v)) <= hi * sdot v (M *m v)) ->
  forall (y : 'cV[F]_m) (th : F), Tk *m y = th *: y -> y != 0 -> th <= hi.
Proof.
move=> Hhi y th Hy y0; have := Hhi (comb y); rewrite comb_M comb_T Hy sdotZr.
by rewrite ler_pmul2r // sdot_sq_gt0.
Qed.

End Ritz.

(* ---------------------------------------------------------------------------------------------- *)
(* optimality: x_k minimises the A-norm of the error over  x_0 + span{p_0 .. p_{k-1}}  (A positive semi-definite) *)
Variables (X : nat -> 'cV[F]_n) (xs : 'cV[F]_n).
Hypothesis HX : forall k, (k < K)%N -> X k.+1 = X k + a k *: P k.
Hypothesis HRX : forall k, (k <= K)%N -> R k = A *m (xs - X k).
Hypothesis Apsd : forall v : 'cV[F]_n, 0 <= sdot v (A *m v).

Lemma X_sum k : (k <= K)%N -> X k = X 0%N + \sum_(i < k) a i *: P i.
Proof.
elim: k => [|k IH] hk; first by rewrite big_ord0 addr0.
by rewrite HX // IH ?(ltnW hk) // big_ord_recr /= addrA.
Qed.

Lemma sdot_span k (c : 'I_k -> F) (v : 'cV[F]_n) :
  (forall i : 'I_k, sdot (P i) v = 0) -> sdot (\sum_(i < k) c i *: P i) v = 0.
Proof.
move=> H; elim/big_ind: _ => [|u w Hu Hw|i _]; first exact: sdot0l.
  by rewrite sdotDl Hu Hw addr0.
by rewrite sdotZl H mulr0.
Qed.

Lemma cg_optimal k (c : 'I_k -> F) : (k <= K)%N ->
  energy A xs (X k) <= energy A xs (X 0%N + \sum_(i < k) c i *: P i).
Proof.
move=> hk.
pose d := \sum_(i < k) (c i - a i) *: P i.
have -> : X 0%N + \sum_(i < k) c i *: P i = X k + 1 *: d.
  rewrite scale1r [X k](X_sum hk) -addrA -big_split /=; congr (_ + _); apply: eq_bigr => i _.
  by rewrite -scalerDl addrC subrK.
have Hd0 : sdot d (R k) = 0.
  by apply: sdot_span => i; rewrite sdotC residual_orth_directions // ltn_ord.
by rewrite energy_update // -HRX // Hd0 mulr0 subr0 expr1n mul1r ler_addl Apsd.
Qed.

(* ---------------------------------------------------------------------------------------------- *)
(* ... and that span contains the Krylov space of M A started at z_0:  x_k is optimal over
   x_0 + span{z_0, (M A) z_0, .., (M A)^(k-1) z_0}                                                   *)
Definition Sp (k : nat) : 'M[F]_(k, n) := \matrix_(i < k, l < n) P i l 0.

Lemma Sp_row k (i : 'I_k) : row i (Sp k) = (P i)^T.
Proof. by apply/rowP => l; rewrite !mxE. Qed.

Lemma P_in_span i k : (i < k)%N -> ((P i)^T <= Sp k)%MS.
Proof. by move=> hi; rewrite -(Sp_row (Ordinal hi)); apply: row_sub. Qed.

Lemma span_le k k' : (k <= k')%N -> (Sp k <= Sp k')%MS.
Proof.
move=> hk; apply/row_subP => i; rewrite Sp_row; apply: P_in_span.
exact: leq_trans (ltn_ord i) hk.
Qed.

Lemma in_span_sum k (d : 'cV[F]_n) : (d^T <= Sp k)%MS -> exists c : 'I_k -> F, d = \sum_(i < k) c i *: P i.
Proof.
case/submxP => D HD; exists (fun i => D 0 i); apply/colP => l.
have := congr1 (fun X : 'rV[F]_n => X 0 l) HD; rewrite !mxE => ->.
by rewrite summxE; apply: eq_bigr => i _; rewrite !mxE.
Qed.

Lemma subB_span k (v w : 'cV[F]_n) (c : F) :
  (v^T <= Sp k)%MS -> (w^T <= Sp k)%MS -> ((v - c *: w)^T <= Sp k)%MS.
Proof.
move=> Hv Hw; rewrite linearB linearZ /= -scaleNr.
by apply: addmx_sub => //; apply: scalemx_sub.
Qed.

Lemma Z_in_span i : (i <= K)%N -> ((Z i)^T <= Sp i.+1)%MS.
Proof.
case: i => [|i] hi; first by rewrite -HP0; apply: P_in_span.
rewrite Z_succ //; apply: subB_span; first exact: P_in_span.
by apply: P_in_span; apply: ltnW.
Qed.

Lemma MAP_in_span i : (i < K)%N -> ((M *m (A *m P i))^T <= Sp i.+2)%MS.
Proof.
move=> hi; rewrite AP // -scalemxAr mulmxBr -!HZ ?(ltnW hi) // linearZ /=; apply: scalemx_sub.
rewrite -[Z i.+1]scale1r; apply: subB_span; last exact: Z_in_span.
by apply: submx_trans (Z_in_span (ltnW hi)) _; apply: span_le.
Qed.

Lemma MA_span k (v : 'cV[F]_n) : (k <= K)%N -> (v^T <= Sp k)%MS -> ((M *m (A *m v))^T <= Sp k.+1)%MS.
Proof.
move=> hk /in_span_sum [c ->].
rewrite !mulmx_sumr linear_sum /=; apply: summx_sub => i _.
rewrite -!scalemxAr linearZ /=; apply: scalemx_sub.
apply: submx_trans (MAP_in_span _) (span_le _); first exact: leq_trans (ltn_ord i) hk.
by rewrite ltnS ltn_ord.
Qed.

(* (M A)^i z_0 *)
Definition Kry (i : nat) : 'cV[F]_n := iter i (fun v => M *m (A *m v)) (Z 0%N).

Lemma kry_in_span i : (i <= K)%N -> ((Kry i)^T <= Sp i.+1)%MS.
Proof.
elim: i => [|i IH] hi; first by rewrite /Kry /= -HP0; apply: P_in_span.
by rewrite /Kry iterS -/(Kry i); apply: MA_span => //; apply: IH; apply: ltnW.
Qed.

Lemma cg_optimal_krylov k (c : 'I_k -> F) : (k <= K)%N ->
  energy A xs (X k) <= energy A xs (X 0%N + \sum_(i < k) c i *: Kry i).
Proof.
move=> hk.
have : ((\sum_(i < k) c i *: Kry i)^T <= Sp k)%MS.
  rewrite linear_sum /=; apply: summx_sub => i _; rewrite linearZ /=; apply: scalemx_sub.
  apply: submx_trans (kry_in_span _) (span_le _); last exact: ltn_ord.
  by apply: ltnW; apply: leq_trans (ltn_ord i) hk.
by case/in_span_sum => c' ->; apply: cg_optimal.
Qed.

(* ---------------------------------------------------------------------------------------------- *)
(* full dimension (n regular steps): the Lanczos vectors are a basis and the moments of T are those of A M:
   (T^p)[i,k] = (M w_i)^T (A M)^p w_k ;  for i = k = 0 this is  e1^T T^p e1 = z^T Ahat^p z                *)
Hypothesis hKn : (n <= K)%N.

Definition Wm : 'M[F]_n := \matrix_(l, k) W k l 0.
Definition Tm : 'M[F]_n := \matrix_(i, k) sdot (M *m W i) (A *m (M *m W k)).

Let ltK (i : 'I_n) : (i < K)%N. Proof. exact: leq_trans (ltn_ord i) hKn. Qed.

Lemma mul_Wm_col (B : 'M[F]_n) (k : 'I_n) l : (B *m Wm) l k = (B *m W k) l 0.
Proof. by rewrite !mxE; apply: eq_bigr => m _; rewrite !mxE. Qed.

Lemma WmT_mul (v : 'cV[F]_n) (m : 'I_n) : (Wm^T *m v) m 0 = sdot (W m) v.
Proof. by rewrite sdot_sum mxE; apply: eq_bigr => l _; rewrite !mxE. Qed.

Lemma Wm_orth : Wm^T *m (M *m Wm) = 1%:M.
Proof.
apply/matrixP => i k; rewrite [RHS]mxE -val_eqE /= -(lanczos_orthonormal (ltK i) (ltK k)).
rewrite sdot_sum mxE; apply: eq_bigr => l _; rewrite mul_Wm_col; congr (_ * _).
by rewrite !mxE.
Qed.

Lemma Wm_complete : Wm *m (Wm^T *m M) = 1%:M.
Proof. by apply: mulmx1C; rewrite -mulmxA Wm_orth. Qed.

Lemma Wm_expand (v : 'cV[F]_n) : v = \sum_(m < n) sdot (M *m W m) v *: W m.
Proof.
rewrite -[LHS]mul1mx -Wm_complete -!mulmxA.
apply/colP => l; rewrite mxE summxE; apply: eq_bigr => m _.
by rewrite WmT_mul (sdot_sym _ _ Msym) !mxE mulrC.
Qed.

Lemma Tm_pow p (i k : 'I_n) :
  (iter p (mulmx Tm) 1%:M) i k = sdot (M *m W i) (iter p (fun v => A *m (M *m v)) (W k)).
Proof.
elim: p i k => [|p IH] i k.
  rewrite /= mxE -(sdot_sym _ _ Msym) (lanczos_orthonormal (ltK i) (ltK k)).
  by rewrite -val_eqE.
rewrite !iterS mxE; set v := iter p _ (W k).
rewrite [in RHS](Wm_expand v) !mulmx_sumr.
have -> : sdot (M *m W i) (\sum_(m < n) A *m (M *m (sdot (M *m W m) v *: W m)))
        = \sum_(m < n) sdot (M *m W m) v * sdot (M *m W i) (A *m (M *m W m)).
  elim/big_ind2: _ => [|x1 x2 y1 y2 <- <-|m _]; first exact: sdot0r.
    by rewrite sdotDr.
  by rewrite -!scalemxAr sdotZr.
by apply: eq_bigr => m _; rewrite IH mxE mulrC.
Qed.

End Conjugacy.
