(* C08 — conjugacy of the CG recurrences and finite termination, as pure linear algebra over a field:
   sequences R (residuals), Z (preconditioned residuals), P (directions) satisfying the recurrences of the loop body
   with exact quotients (no threshold fired).  ProofsExact.v instantiates them with the states of a run. *)
From mathcomp Require Import all_ssreflect all_algebra.
Require Import C08.ProofsEnergy.
Set Implicit Arguments.
Unset Strict Implicit.
Unset Printing Implicit Defensive.
Import Order.Theory GRing.Theory Num.Theory.
Local Open Scope ring_scope.

Section Conjugacy.
Variable F : rcfType.
Variable n : nat.
Variables (A M : 'M[F]_n).
Hypothesis Asym : A^T = A.
Hypothesis Msym : M^T = M.
Variables (R Z P : nat -> 'cV[F]_n) (a b : nat -> F) (K : nat).

Definition rz (k : nat) : F := sdot (R k) (Z k).
Definition pAp (k : nat) : F := sdot (P k) (A *m P k).

Hypothesis HZ : forall k, (k <= K)%N -> Z k = M *m R k.
Hypothesis HP0 : P 0%N = Z 0%N.
Hypothesis HR : forall k, (k < K)%N -> R k.+1 = R k - a k *: (A *m P k).
Hypothesis HP : forall k, (k < K)%N -> P k.+1 = b k *: P k + Z k.+1.
Hypothesis Ha : forall k, (k < K)%N -> a k * pAp k = rz k.
Hypothesis Hb : forall k, (k < K)%N -> b k * rz k = rz k.+1.
Hypothesis Ha0 : forall k, (k < K)%N -> a k != 0.

Definition cj_inv (k : nat) : Prop :=
  [/\ forall i, (i < k)%N -> sdot (R k) (P i) = 0,
      forall i, (i < k)%N -> sdot (R k) (Z i) = 0,
      forall i, (i < k)%N -> sdot (P k) (A *m P i) = 0 &
      sdot (R k) (P k) = rz k].

Lemma sdotBl (u v w : 'cV[F]_n) : sdot (u - v) w = sdot u w - sdot v w.
Proof. by rewrite sdotDl sdotNl. Qed.

Lemma sdotBr (u v w : 'cV[F]_n) : sdot u (v - w) = sdot u v - sdot u w.
Proof. by rewrite sdotDr sdotNr. Qed.

Lemma cj0 : cj_inv 0.
Proof. by split => //; rewrite HP0 /rz. Qed.

Lemma cj_step k : (k < K)%N -> cj_inv k -> cj_inv k.+1.
Proof.
move=> hk [Hc Ha_ Hb_ Hd].
have HZk i : (0 < i <= k.+1)%N -> Z i = P i - b i.-1 *: P i.-1.
  case: i => [|i] //=; rewrite ltnS => hi.
  by rewrite HP ?addrC ?addKr // (leq_ltn_trans hi).
(* (c) r_{k+1} . p_i = 0 for i <= k *)
have Hc' i : (i < k.+1)%N -> sdot (R k.+1) (P i) = 0.
  rewrite ltnS leq_eqVlt => /orP [/eqP ->|hi]; rewrite HR // sdotBl sdotZl.
    by rewrite Hd -(sdot_sym _ _ Asym) -/(pAp k) Ha // subrr.
  by rewrite Hc // -(sdot_sym _ _ Asym) Hb_ // mulr0 subrr.
(* (a) r_{k+1} . z_i = 0 for i <= k *)
have Ha' i : (i < k.+1)%N -> sdot (R k.+1) (Z i) = 0.
  case: i => [|i] hi; first by rewrite -HP0 Hc'.
  by rewrite HZk ?hi // sdotBr sdotZr !Hc' ?mulr0 ?subrr //=; apply: ltnW.
(* (d) *)
have Hd' : sdot (R k.+1) (P k.+1) = rz k.+1.
  by rewrite HP // sdotDr sdotZr Hc' // mulr0 add0r.
(* z_{k+1} . r_i = r_{k+1} . z_i *)
have Hzr i : (i <= K)%N -> sdot (Z k.+1) (R i) = sdot (R k.+1) (Z i).
  by move=> hi; rewrite (HZ hk) (HZ hi) -(sdot_sym _ _ Msym) sdotC.
split => // i; rewrite ltnS => hi.
have hiK : (i < K)%N by apply: leq_ltn_trans hi hk.
rewrite HP // sdotDl sdotZl.
(* a_i * (z_{k+1} . A p_i) = z_{k+1} . r_i - z_{k+1} . r_{i+1} *)
have Hai : a i * sdot (Z k.+1) (A *m P i) = sdot (Z k.+1) (R i) - sdot (Z k.+1) (R i.+1).
  by rewrite -sdotZr -sdotBr HR // opprB addrC subrK.
apply: (mulfI (Ha0 hiK)); rewrite mulr0 mulrDr Hai !Hzr //; last exact: ltnW.
move: hi; rewrite leq_eqVlt => /orP [/eqP Ei|hi].
  rewrite Ei Ha' // sub0r -/(rz k.+1) mulrCA -/(pAp k) Ha // Hb // sdotC.
  by rewrite -[sdot (Z k.+1) (R k.+1)]/(sdot (Z k.+1) (R k.+1)) sdotC subrr.
by rewrite Hb_ // mulr0 mulr0 add0r !Ha' ?subrr // ltnS // ltnW.
Qed.

Lemma cj_all k : (k <= K)%N -> cj_inv k.
Proof. by elim: k => [|k IH] hk; [exact: cj0 | apply: cj_step => //; apply: IH; apply: ltnW]. Qed.

(* the residuals are mutually M-orthogonal *)
Lemma residuals_orthogonal i k : (i < k <= K)%N -> sdot (R k) (M *m R i) = 0.
Proof.
case/andP => hi hk; have [_ H _ _] := cj_all hk.
by rewrite -HZ ?H //; apply: ltnW; apply: leq_trans hi hk.
Qed.

Lemma directions_conjugate i k : (i < k <= K)%N -> sdot (P k) (A *m P i) = 0.
Proof. by case/andP => hi hk; have [_ _ H _] := cj_all hk; apply: H. Qed.

End Conjugacy.
