(* C08 — the answer scales linearly with the right-hand side: linear_cg (c * rhs) = c * linear_cg rhs for c > 0,
   as long as no column is (or becomes) "zero" in the sense of the eps test of line 178. *)
From mathcomp Require Import all_ssreflect all_algebra.
Require Import C08.Model C08.ProofsBase.
Set Implicit Arguments.
Unset Strict Implicit.
Unset Printing Implicit Defensive.
Import Order.Theory GRing.Theory Num.Theory.
Local Open Scope ring_scope.

Section Scaling.
Variable F : rcfType.
Local Notation A := (FA F).
Variable c : F.
Hypothesis c_gt0 : 0 < c.

Definition scale_cols (X : cols F) : cols F := [seq [seq c * x | x <- col] | col <- X].

Definition scale_args (g : cg_args F) : cg_args F :=
  MkArgs (g_mc g) (g_n g) (g_nc g) (g_rhs_is_vec g) (scale_cols (g_rhs g)) (g_n_tridiag g) (g_tolerance g)
         (g_eps g) (g_stop_after g) (g_max_iter g) (g_max_tridiag_iter g)
         (omap (fun vX : bool * cols F => (vX.1, scale_cols vX.2)) (g_x0 g)) (g_pre g).

Definition scale_out (o : cg_output F) : cg_output F :=
  MkOut (scale_cols (o_res o)) (o_squeeze o) (o_tmat o) (o_warn o) (o_iters o) (o_mean o).

Lemma get_scale X j i : vget A (cget (scale_cols X) j) i = c * vget A (cget X j) i.
Proof.
rewrite /cget /vget /scale_cols /=.
case: (ltnP j (size X)) => hj; last by rewrite !nth_default ?size_map // ?nth_nil mulr0.
rewrite (nth_map [::]) //.
case: (ltnP i (size (nth [::] X j))) => hi; first by rewrite (nth_map 0).
by rewrite [LHS]nth_default ?size_map // (@nth_default _ 0 (nth [::] X j)) // mulr0.
Qed.

Lemma scale_ctab C n (f : nat -> nat -> F) : scale_cols (ctab C n f) = ctab C n (fun j i => c * f j i).
Proof. by rewrite /scale_cols /ctab -map_comp; apply: eq_map => j /=; rewrite /mkseq -map_comp. Qed.

Lemma dot_scale n X j : dot A n (cget (scale_cols X) j) (cget (scale_cols X) j) = c ^+ 2 * dot A n (cget X j) (cget X j).
Proof.
rewrite !dotE mulr_sumr; apply: eq_bigr => i _.
have := get_scale X j i; rewrite /vget /= => ->.
by rewrite expr2 mulrACA.
Qed.

Lemma norm2_scale n X j : norm2 A n (cget (scale_cols X) j) = c * norm2 A n (cget X j).
Proof.
rewrite /norm2 dot_scale /= sqrtrM ?sqr_ge0 // sqrtr_sqr gtr0_norm //.
Qed.

Variables (S : cg_settings F) (g : cg_args F).
Local Notation n := (g_n g).
Local Notation C := (size (g_rhs g)).
Local Notation g' := (scale_args g).
(* no column is treated as zero, before or after scaling (line 178) *)
Hypothesis Hnz : forall j, (j < C)%N -> norm2 A n (cget (g_rhs g) j) < g_eps g = false.
Hypothesis Hnz' : forall j, (j < C)%N -> c * norm2 A n (cget (g_rhs g) j) < g_eps g = false.

Lemma sizeC : size (g_rhs g') = C.
Proof. by rewrite /= size_map. Qed.

Lemma rhs_norm0_scale j : (j < C)%N -> sget A (rhs_norm0 A g') j = c * sget A (rhs_norm0 A g) j.
Proof. by move=> hj; rewrite /rhs_norm0 sizeC !sget_mkseq // [g_rhs g']/= [g_n g']/= norm2_scale. Qed.

Lemma rhs_zero_scale : rhs_zero A g' = rhs_zero A g.
Proof.
rewrite /rhs_zero sizeC; apply: mkseq_ext => j hj.
by rewrite rhs_norm0_scale // /rhs_norm0 sget_mkseq //= Hnz // Hnz'.
Qed.

Lemma rhs_zero_false j : (j < C)%N -> bget (rhs_zero A g) j = false.
Proof. by move=> hj; rewrite /rhs_zero bget_mkseq // /rhs_norm0 sget_mkseq //= Hnz. Qed.

Lemma rhs_norm_scale j : (j < C)%N -> sget A (rhs_norm A g') j = c * sget A (rhs_norm A g) j.
Proof.
move=> hj; rewrite /rhs_norm sizeC !sget_mkseq ?sizeC // rhs_zero_scale rhs_zero_false //.
by rewrite [g_rhs g']/= [g_n g']/= norm2_scale.
Qed.

Lemma rhs_norm_map : rhs_norm A g' = [seq c * x | x <- rhs_norm A g].
Proof.
rewrite {2}/rhs_norm /mkseq -map_comp /rhs_norm sizeC; apply: mkseq_ext => j hj /=.
rewrite rhs_zero_scale rhs_zero_false // rhs_norm0_scale //.
Qed.

Lemma cdivK (x y : F) : (c * x) / (c * y) = x / y.
Proof. by rewrite -mulf_div divff ?mul1r // lt0r_neq0. Qed.

Lemma rhs_hat_scale : rhs_hat A g' = rhs_hat A g.
Proof.
rewrite /rhs_hat sizeC; apply: ctab_ext => j i hj hi.
by rewrite rhs_norm_scale // [g_rhs g']/= get_scale /= cdivK.
Qed.

Lemma guess_scale j i : (j < C)%N -> (i < n)%N -> vget A (cget (guess A g') j) i = c * vget A (cget (guess A g) j) i.
Proof.
move=> hj hi; rewrite /guess /=; case: (g_x0 g) => [[v X]|] /=; first exact: get_scale.
by rewrite size_map !get_ctab //= mulr0.
Qed.

Lemma x0_hat_scale : x0_hat A g' = x0_hat A g.
Proof.
rewrite /x0_hat sizeC; apply: ctab_ext => j i hj hi.
by rewrite rhs_norm_scale // guess_scale //= cdivK.
Qed.

Lemma residual0_scale mm : residual0 A g' mm = residual0 A g mm.
Proof. by rewrite /residual0 sizeC rhs_hat_scale x0_hat_scale. Qed.

Definition scale_setup (u : cg_setup F) : cg_setup F :=
  MkSetup (u_mm u) (u_pre u) (u_precond u) (u_is_vector u) (u_max_iter u) (u_tolerance u) (u_n_iter u) (u_nti u)
          [seq c * x | x <- u_rhs_norm u] (u_rhs_is_zero u) (u_rhs u) (u_x0 u) (u_skip u) (u_s0 u).

Lemma prepare_scale :
  cg_prepare A S g' = match cg_prepare A S g with Ok u => Ok (scale_setup u) | Err e => Err e end.
Proof.
rewrite /cg_prepare.
have -> : (if g_x0 g' is Some (v, _) then v else g_rhs_is_vec g')
        = (if g_x0 g is Some (v, _) then v else g_rhs_is_vec g) by rewrite /=; case: (g_x0 g) => [[v X]|].
rewrite [eff_max_iter S g']/= [eff_max_tridiag_iter S g']/= -/(eff_max_iter S g) -/(eff_max_tridiag_iter S g).
case: ifP => // _.
rewrite [closure_fun A (g_nc g') (g_mc g')]/=.
case: (closure_fun A (g_nc g) (g_mc g)) => [mm|] //.
rewrite sizeC rhs_norm_map rhs_zero_scale rhs_hat_scale x0_hat_scale residual0_scale.
by rewrite /cg_prepare_tail /=; case: ifP.
Qed.

Lemma final_scale u : cg_final A S g' (scale_setup u) = cg_final A S g u.
Proof. by rewrite /cg_final /cg_states sizeC. Qed.

Theorem scaling :
  linear_cg A S g' = match linear_cg A S g with Ok o => Ok (scale_out o) | Err e => Err e end.
Proof.
rewrite /linear_cg prepare_scale.
case E: (cg_prepare A S g) => [u|e] //; congr Ok.
rewrite /cg_finish final_scale sizeC /scale_out /= scale_ctab.
have [_ _ [Hn _ _ _] _ _] := prepare_inv E.
congr MkOut; apply: ctab_ext => j i hj hi.
rewrite /sget (nth_map 0) ?Hn ?size_mkseq //=.
by rewrite mulrCA.
Qed.

End Scaling.
