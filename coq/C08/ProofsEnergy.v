(* C08 — the squared A-norm of the error never increases along a run (per column), as long as the safe division
   by p^T A p does not fire on a column that is still being updated. *)
From mathcomp Require Import all_ssreflect all_algebra.
Require Import C08.Model C08.ProofsBase C08.ProofsResidual C08.ProofsColumns.
Set Implicit Arguments.
Unset Strict Implicit.
Unset Printing Implicit Defensive.
Import Order.Theory GRing.Theory Num.Theory.
Local Open Scope ring_scope.

Section Algebra.
Variable F : rcfType.
Variable n : nat.

(* e^T M e for e = xs - x *)
Definition energy (M : 'M[F]_n) (xs x : 'cV[F]_n) : F := ((xs - x)^T *m M *m (xs - x)) 0 0.

Definition sdot (u v : 'cV[F]_n) : F := (u^T *m v) 0 0.

Lemma sdotC u v : sdot u v = sdot v u.
Proof. by rewrite /sdot -[u^T *m v]trmxK trmx_mul trmxK mxE. Qed.

Lemma sdotDl u v w : sdot (u + v) w = sdot u w + sdot v w.
Proof. by rewrite /sdot linearD /= mulmxDl mxE. Qed.

Lemma sdotDr u v w : sdot u (v + w) = sdot u v + sdot u w.
Proof. by rewrite /sdot mulmxDr mxE. Qed.

Lemma sdotZl a u v : sdot (a *: u) v = a * sdot u v.
Proof. by rewrite /sdot linearZ /= -scalemxAl mxE. Qed.

Lemma sdotZr a u v : sdot u (a *: v) = a * sdot u v.
Proof. by rewrite /sdot -scalemxAr mxE. Qed.

Lemma sdotNl u v : sdot (- u) v = - sdot u v.
Proof. by rewrite -scaleN1r sdotZl mulN1r. Qed.

Lemma sdotNr u v : sdot u (- v) = - sdot u v.
Proof. by rewrite -scaleN1r sdotZr mulN1r. Qed.

Lemma energyE M xs x : energy M xs x = sdot (xs - x) (M *m (xs - x)).
Proof. by rewrite /energy /sdot mulmxA. Qed.

Lemma sdot_sym M u v : M^T = M -> sdot u (M *m v) = sdot (M *m u) v.
Proof. by move=> HM; rewrite /sdot trmx_mul HM mulmxA. Qed.

(* one update x + a p of the iterate, r = M (xs - x) *)
Lemma energy_update M xs x p a :
  M^T = M ->
  energy M xs (x + a *: p)
  = energy M xs x - 2%:R * a * sdot p (M *m (xs - x)) + a ^+ 2 * sdot p (M *m p).
Proof.
move=> HM; rewrite !energyE.
have -> : xs - (x + a *: p) = (xs - x) + - (a *: p) by rewrite opprD addrA.
set e := xs - x.
rewrite mulmxDr sdotDl !sdotDr mulmxN !sdotNl !sdotNr opprK -!scalemxAr !sdotZl !sdotZr.
rewrite (sdot_sym e p HM) (sdotC (M *m e) p).
rewrite addrA expr2 -mulrA; congr (_ + _).
  by rewrite -addrA -opprD -mulr2n mulr_natl.
by rewrite mulrA.
Qed.

End Algebra.

Section EnergyStep.
Variable F : rcfType.
Local Notation A := (FA F).
Variables (n C : nat) (mm pre : cols F -> cols F) (precond : bool).
Variables (eps stop_after : F) (rhs_is_zero : seq bool).
Variable Am : nat -> 'M[F]_n.
Hypothesis mm_lin : col_linear C Am mm.
Variable bh : cols F.
Variable j : nat.
Hypothesis hj : (j < C)%N.
Variable xs : 'cV[F]_n.
Hypothesis Asym : (Am j)^T = Am j.
Hypothesis Axs : Am j *m xs = cv n (cget bh j).
Hypothesis eps_gt0 : 0 < eps.
Local Notation step := (num_step A n C mm pre precond eps stop_after rhs_is_zero).

Lemma dot_sdot (v w : seq F) : dot A n v w = sdot (cv n v) (cv n w).
Proof. exact: dot_mx. Qed.

(* p^T A p of the column, as the code computes it (line 64/250) *)
Definition pAp (s : cg_num F) : F := dot A n (cget (p_ s) j) (cget (mm (p_ s)) j).

(* the safe division of line 68/254 does not fire on column j unless the column is already frozen *)
Definition no_fire (s : cg_num F) : Prop := bget (conv_ s) j \/ (pAp s < eps) = false.

Definition en_inv (s : cg_num F) : Prop :=
  [/\ true_res C Am bh s, fz_inv n stop_after rhs_is_zero j s &
      bget (conv_ s) j \/ dot A n (cget (p_ s) j) (cget (r_ s) j) = sget A (rz_ s) j].

Definition en_rel (a b : cg_num F) : Prop :=
  energy (Am j) xs (cv n (cget (x_ b) j)) <= energy (Am j) xs (cv n (cget (x_ a) j)).

Lemma en_step s : en_inv s -> no_fire s -> en_inv (step s) /\ en_rel s (step s).
Proof.
case=> Htr Hfz Hpr Hnf.
have [Hfz' Hrel] := fz_step mm pre precond eps hj Hfz.
have Htr' : true_res C Am bh (step s).
  exact: (step_true_res (fun x y : F => x / y) Num.sqrt Num.norm (fun x y => x < y) (fun x y => x <= y)
                         (fun x y => x == y) pre precond eps stop_after rhs_is_zero mm_lin Htr).
case Hc: (bget (conv_ s) j).
  have [Hc' Hx' _] := Hrel Hc.
  by split; [split => //; left | rewrite /en_rel Hx'].
have {}Hnf : (pAp s < eps) = false by case: Hnf => //; rewrite Hc.
have {}Hpr : dot A n (cget (p_ s) j) (cget (r_ s) j) = sget A (rz_ s) j by case: Hpr => //; rewrite Hc.
set rz := sget A (rz_ s) j in Hpr.
have pAp_gt0 : 0 < pAp s by apply: lt_le_trans eps_gt0 _; rewrite leNgt Hnf.
set al := sget A (alpha_ (step s)) j.
have Hal : al = rz / pAp s.
  by rewrite /al alpha_step /next_alpha sget_mkseq // Hc /safe_div /= -/(pAp s) Hnf.
have Hmv : cv n (cget (mm (p_ s)) j) = Am j *m cv n (cget (p_ s) j) by rewrite mm_lin.
have HpAp : sdot (cv n (cget (p_ s) j)) (Am j *m cv n (cget (p_ s) j)) = pAp s.
  by rewrite -Hmv -dot_sdot.
have Hx' : cv n (cget (x_ (step s)) j) = cv n (cget (x_ s) j) + al *: cv n (cget (p_ s) j).
  by rewrite x_step cv_ctab //; apply/colP => i; rewrite !mxE.
have Hr' : cv n (cget (r_ (step s)) j) = cv n (cget (r_ s) j) - al *: (Am j *m cv n (cget (p_ s) j)).
  rewrite r_step cv_ctab // -Hmv; apply/colP => i; rewrite !mxE /=.
  by case: ifP => _; rewrite ?mulN1r ?mulNr.
have Hres : Am j *m (xs - cv n (cget (x_ s) j)) = cv n (cget (r_ s) j).
  by rewrite mulmxBr Axs Htr.
have Hpr0 : sdot (cv n (cget (p_ s) j)) (cv n (cget (r_ (step s)) j)) = 0.
  rewrite Hr' sdotDr sdotNr sdotZr HpAp -dot_sdot Hpr Hal divfK ?subrr //.
  by rewrite gt_eqF.
split; last first.
  rewrite /en_rel Hx' energy_update // Hres -dot_sdot Hpr HpAp.
  rewrite -addrA ger_addl Hal.
  have -> : (rz / pAp s) ^+ 2 * pAp s = rz / pAp s * rz.
    by rewrite expr2 -mulrA [_ / _ * pAp s]divfK // gt_eqF.
  rewrite -mulrA mulr_natl mulr2n opprD -addrA addNr addr0 oppr_le0.
  by rewrite mulrAC -expr2 mulr_ge0 ?sqr_ge0 // invr_ge0 ltW.
split => //; right.
have Hp' : cv n (cget (p_ (step s)) j)
         = sget A (beta_ (step s)) j *: cv n (cget (p_ s) j) + cv n (cget (z_ (step s)) j).
  by rewrite p_step cv_ctab //; apply/colP => i; rewrite !mxE /= mulrC.
rewrite dot_sdot Hp' sdotDl sdotZl Hpr0 mulr0 add0r rz_step sget_mkseq // dot_sdot.
exact: sdotC.
Qed.

Lemma en_rel_refl s : en_rel s s.
Proof. exact: lexx. Qed.

Lemma en_rel_trans a b c : en_rel a b -> en_rel b c -> en_rel a c.
Proof. by rewrite /en_rel => H1 H2; apply: le_trans H2 H1. Qed.

End EnergyStep.

(* the side condition along a run, on every state a loop body is executed from (all but the last of l) *)
Definition no_breakdown (F : rcfType) (n : nat) (mm : cols F -> cols F) (eps : F) (j : nat)
    (l : seq (cg_num F)) : Prop :=
  forall i d, (i.+1 < size l)%N -> no_fire n mm eps j (nth d l i).

Section EnergyClosed.
Variable F : rcfType.
Local Notation A := (FA F).
Variables (S : cg_settings F) (g : cg_args F) (u : cg_setup F).
Local Notation n := (g_n g).
Local Notation C := (size (g_rhs g)).
Variable Am : nat -> 'M[F]_n.
Hypothesis Hprep : cg_prepare A S g = Ok u.
Hypothesis mm_lin : col_linear C Am (u_mm u).
Variable j : nat.
Hypothesis hj : (j < C)%N.
Variable xs : 'cV[F]_n.
Hypothesis Asym : (Am j)^T = Am j.
Hypothesis Axs : Am j *m xs = cv n (cget (u_rhs u) j).
Hypothesis eps_gt0 : 0 < g_eps g.
Hypothesis Hnb : no_breakdown n (u_mm u) (g_eps g) j (num_ (u_s0 u) :: map (@num_ F) (cg_states A S g u)).

Lemma s0_en_inv : en_inv C (g_stop_after g) (u_rhs_is_zero u) Am (u_rhs u) j (num_ (u_s0 u)).
Proof.
split.
- exact: (s0_true_res Hprep mm_lin).
- exact: (s0_fz_inv Hprep hj).
- have [_ _ _ _ [-> _ _ _ _]] := prepare_inv Hprep.
  by right; rewrite /= sget_mkseq.
Qed.

Lemma energy_pair i1 i2 :
  let sts := u_s0 u :: cg_states A S g u in
  (i1 <= i2 < size sts)%N ->
  energy (Am j) xs (cv n (cget (x_ (num_ (nth (u_s0 u) sts i2))) j))
  <= energy (Am j) xs (cv n (cget (x_ (num_ (nth (u_s0 u) sts i1))) j)).
Proof.
move=> sts Hi.
apply: (trace_rel_pair_cond
          (P := en_inv C (g_stop_after g) (u_rhs_is_zero u) Am (u_rhs u) j)
          (G := no_fire n (u_mm u) (g_eps g) j)
          (Rl := en_rel Am j xs) _ _ _ _ _ Hi).
- by move=> s Hs Hg; apply: en_step.
- by move=> s; apply: en_rel_refl.
- by move=> a b c; apply: en_rel_trans.
- exact: s0_en_inv.
- move=> i hi.
  have := Hnb (i := i) (num_ (u_s0 u)); rewrite /= size_map ltnS => /(_ hi).
  case: i hi => [|i] hi //=.
  by rewrite (nth_map (u_s0 u)) //; apply: ltnW.
Qed.

End EnergyClosed.
