(* C08 — the states of a run of the model satisfy the exact CG recurrences (ProofsConjugacy.cg_rec) for as long as
   no threshold fires on the column (not frozen, neither safe division fired): conjugacy, finite termination,
   optimality and the Lanczos meaning of the returned tridiagonal matrices, for the Gallina transcription. *)
From mathcomp Require Import all_ssreflect all_algebra zify.
Require Import C08.Model C08.ProofsBase C08.ProofsResidual C08.ProofsColumns C08.ProofsEnergy
               C08.ProofsTmat C08.ProofsConjugacy.
Set Implicit Arguments.
Unset Strict Implicit.
Unset Printing Implicit Defensive.
Import Order.Theory GRing.Theory Num.Theory.
Local Open Scope ring_scope.

Section ExactStep.
Variable F : rcfType.
Local Notation A := (FA F).
Variables (n C : nat) (mm pre : cols F -> cols F) (precond : bool).
Variables (eps stop_after : F) (rhs_is_zero : seq bool).
Variables (Am Mm : nat -> 'M[F]_n).
Hypothesis mm_lin : col_linear C Am mm.
(* line 82 (z = r.clone()) / line 268 (z = preconditioner(r)) *)
Hypothesis pre_lin : col_linear C Mm (fun X => if precond then pre X else X).
Variable j : nat.
Hypothesis hj : (j < C)%N.
Hypothesis eps_gt0 : 0 < eps.
Local Notation step := (num_step A n C mm pre precond eps stop_after rhs_is_zero).

(* column j of the iterate, residual, preconditioned residual, direction; r.z of the column *)
Definition xv (s : cg_num F) : 'cV[F]_n := cv n (cget (x_ s) j).
Definition rv (s : cg_num F) : 'cV[F]_n := cv n (cget (r_ s) j).
Definition zv (s : cg_num F) : 'cV[F]_n := cv n (cget (z_ s) j).
Definition pv (s : cg_num F) : 'cV[F]_n := cv n (cget (p_ s) j).
Definition rzj (s : cg_num F) : F := sget A (rz_ s) j.

(* no threshold fires on column j in the loop body executed from state s: the column is not frozen
   (has_converged, line 74/260), p^T A p >= eps (line 68/254), r^T z >= eps (line 39) *)
Definition regular (s : cg_num F) : Prop :=
  [/\ bget (conv_ s) j = false, (pAp n mm j s < eps) = false & (rzj s < eps) = false].

Lemma pAp_sdot s : pAp n mm j s = sdot (pv s) (Am j *m pv s).
Proof. by rewrite /pAp dot_sdot mm_lin //. Qed.

Lemma x_stepv s : xv (step s) = xv s + sget A (alpha_ (step s)) j *: pv s.
Proof. by rewrite /xv x_step cv_ctab //; apply/colP => i; rewrite !mxE. Qed.

Lemma r_stepv s : rv (step s) = rv s - sget A (alpha_ (step s)) j *: (Am j *m pv s).
Proof.
rewrite /rv /pv r_step cv_ctab // -mm_lin //; set al := sget A _ j.
by apply/colP => i; rewrite !mxE /=; case: ifP => _; rewrite ?mulN1r ?mulNr.
Qed.

Lemma z_stepv s : zv (step s) = Mm j *m rv (step s).
Proof. by rewrite /zv /rv z_step -pre_lin. Qed.

Lemma rz_stepv s : rzj (step s) = sdot (rv (step s)) (zv (step s)).
Proof. by rewrite /rzj rz_step sget_mkseq // dot_sdot. Qed.

Lemma p_stepv s : pv (step s) = sget A (beta_ (step s)) j *: pv s + zv (step s).
Proof. by rewrite /pv p_step cv_ctab //; apply/colP => i; rewrite !mxE /= mulrC. Qed.

Lemma alpha_reg s : regular s -> sget A (alpha_ (step s)) j = rzj s / pAp n mm j s.
Proof.
case=> Hc; rewrite /pAp => Hp _.
by rewrite alpha_step /next_alpha sget_mkseq // Hc /safe_div /= Hp.
Qed.

Lemma beta_reg s : regular s -> sget A (beta_ (step s)) j = rzj (step s) / rzj s.
Proof.
case=> _ _; rewrite /rzj => Hr.
by rewrite beta_step sget_mkseq // /safe_div /= Hr.
Qed.

Lemma reg_pos s : regular s -> 0 < pAp n mm j s /\ 0 < rzj s.
Proof.
by case=> _ Hp Hr; split; apply: lt_le_trans eps_gt0 _; rewrite leNgt ?Hp ?Hr.
Qed.

(* ---------------------------------------------------------------------------------------------- *)
(* a run: hist 0 is the state before the loop, hist k.+1 = step (hist k) for k < K, all regular      *)
Variables (hist : nat -> cg_num F) (K : nat).
Hypothesis Hhist : forall k, (k < K)%N -> hist k.+1 = step (hist k).
Hypothesis Hreg : forall k, (k < K)%N -> regular (hist k).
Hypothesis Hz0 : zv (hist 0%N) = Mm j *m rv (hist 0%N).
Hypothesis Hp0 : pv (hist 0%N) = zv (hist 0%N).
Hypothesis Hrz0 : rzj (hist 0%N) = sdot (rv (hist 0%N)) (zv (hist 0%N)).
Hypothesis Asym : (Am j)^T = Am j.
Hypothesis Msym : (Mm j)^T = Mm j.

Definition al_ (k : nat) : F := sget A (alpha_ (hist k.+1)) j.
Definition be_ (k : nat) : F := sget A (beta_ (hist k.+1)) j.
Local Notation R := (fun k => rv (hist k)).
Local Notation Z := (fun k => zv (hist k)).
Local Notation P := (fun k => pv (hist k)).

Lemma run_Z k : (k <= K)%N -> zv (hist k) = Mm j *m rv (hist k).
Proof. by case: k => [|k] hk //; rewrite Hhist // z_stepv. Qed.

Lemma run_rz k : (k <= K)%N -> rzj (hist k) = sdot (rv (hist k)) (zv (hist k)).
Proof. by case: k => [|k] hk //; rewrite Hhist // rz_stepv. Qed.

Lemma run_rec : cg_rec (Am j) (Mm j) R Z P al_ be_ K.
Proof.
split; split => //.
- exact: run_Z.
- by move=> k hk /=; rewrite /al_ Hhist // r_stepv.
- by move=> k hk /=; rewrite /be_ Hhist // p_stepv.
- move=> k hk /=; rewrite /al_ Hhist // (alpha_reg (Hreg hk)) -pAp_sdot -run_rz ?(ltnW hk) //.
  by have [Hp _] := reg_pos (Hreg hk); rewrite divfK // gt_eqF.
- move=> k hk /=; rewrite /be_ Hhist // (beta_reg (Hreg hk)) -(run_rz (ltnW hk)) -rz_stepv.
  by have [_ Hr] := reg_pos (Hreg hk); rewrite divfK // gt_eqF.
- move=> k hk /=; rewrite /al_ Hhist // (alpha_reg (Hreg hk)).
  have [Hp Hr] := reg_pos (Hreg hk).
  by rewrite mulf_neq0 ?invr_eq0 // gt_eqF.
Qed.

Lemma run_rz_pos k : (k < K)%N -> 0 < c_rz R Z k.
Proof. by move=> hk; rewrite /c_rz -run_rz ?(ltnW hk) //; have [] := reg_pos (Hreg hk). Qed.

Lemma run_X k : (k < K)%N -> xv (hist k.+1) = xv (hist k) + al_ k *: pv (hist k).
Proof. by move=> hk; rewrite /al_ Hhist // x_stepv. Qed.

(* a regular run has at most n steps *)
Lemma run_length : (K <= n)%N.
Proof.
rewrite leqNgt; apply/negP => hn.
have H0 : rv (hist n) = 0.
  apply: (residual_n_zero run_rec (ltnW hn)) => k hk.
  by rewrite gt_eqF // run_rz_pos // (ltn_trans hk hn).
by have := run_rz_pos hn; rewrite /c_rz H0 sdot0l ltxx.
Qed.

End ExactStep.

(* ---------------------------------------------------------------------------------------------- *)
(* the states of a run of the model                                                                 *)
Section ExactClosed.
Variable F : rcfType.
Local Notation A := (FA F).
Variables (S : cg_settings F) (g : cg_args F) (u : cg_setup F).
Local Notation n := (g_n g).
Local Notation C := (size (g_rhs g)).
Variables (Am Mm : nat -> 'M[F]_n).
Hypothesis Hprep : cg_prepare A S g = Ok u.
Hypothesis mm_lin : col_linear C Am (u_mm u).
Hypothesis pre_lin : col_linear C Mm (u_pre u).
Variable j : nat.
Hypothesis hj : (j < C)%N.
Hypothesis Asym : (Am j)^T = Am j.
Hypothesis Msym : (Mm j)^T = Mm j.
Hypothesis eps_gt0 : 0 < g_eps g.

Local Notation sts := (cg_states A S g u).
Local Notation step := (num_step A n C (u_mm u) (u_pre u) (u_precond u) (g_eps g) (g_stop_after g) (u_rhs_is_zero u)).

(* numeric state k of the run: 0 = before the loop, k = after loop body k *)
Definition rhist (k : nat) : cg_num F := num_ (nth (u_s0 u) (u_s0 u :: sts) k).

(* the first K loop bodies exist and no threshold fires on column j in any of them *)
Definition run_regular (K : nat) : Prop :=
  (K <= size sts)%N /\ forall k, (k < K)%N -> regular n (u_mm u) (g_eps g) j (rhist k).

Lemma rhist_step k : (k < size sts)%N -> rhist k.+1 = step (rhist k).
Proof. by move=> hk; rewrite /rhist [nth _ _ k.+1]/= (trace_consecutive hk). Qed.

Lemma rhist_in k : (k <= size sts)%N -> List.In (nth (u_s0 u) (u_s0 u :: sts) k) (u_s0 u :: sts).
Proof. by move=> hk; apply: In_nth. Qed.

Lemma pre_lin' : col_linear C Mm (fun X => if u_precond u then u_pre u X else X).
Proof.
have [_ [Hpre Hpc _ _ _] _ _ _] := prepare_inv Hprep.
by move: pre_lin; rewrite Hpc Hpre; case: (g_pre g).
Qed.

Lemma states_skip : (0 < size sts)%N -> u_skip u = false.
Proof.
have [_ _ _ [_ Hn _] _] := prepare_inv Hprep.
by rewrite /cg_states Hn; case: (u_skip u).
Qed.

Lemma s0_exact : (0 < size sts)%N ->
  [/\ zv n j (rhist 0) = Mm j *m rv n j (rhist 0), pv n j (rhist 0) = zv n j (rhist 0) &
      rzj j (rhist 0) = sdot (rv n j (rhist 0)) (zv n j (rhist 0))].
Proof.
move=> /states_skip Hsk.
have [_ _ _ _ [Hs0 _ _ _ _]] := prepare_inv Hprep.
rewrite /rhist /= /zv /rv /pv /rzj Hs0 /= Hsk; split => //.
  have [_ [Hpre Hpc _ _ _] _ _ _] := prepare_inv Hprep.
  exact: pre_lin.
by rewrite sget_mkseq // dot_sdot sdotC.
Qed.

Lemma closed_rec K : (0 < K)%N -> run_regular K ->
  cg_rec (Am j) (Mm j) (fun k => rv n j (rhist k)) (fun k => zv n j (rhist k)) (fun k => pv n j (rhist k))
         (al_ j rhist) (be_ j rhist) K /\
  (forall k, (k < K)%N -> 0 < c_rz (fun k => rv n j (rhist k)) (fun k => zv n j (rhist k)) k).
Proof.
move=> K0 [HK Hreg].
have [Hz0 Hp0 Hrz0] := s0_exact (leq_trans K0 HK).
have Hh k : (k < K)%N -> rhist k.+1 = step (rhist k).
  by move=> hk; apply: rhist_step; apply: leq_trans hk HK.
split.
  exact: (run_rec mm_lin pre_lin' hj eps_gt0 Hh Hreg Hz0 Hp0 Hrz0 Asym Msym).
exact: (run_rz_pos hj eps_gt0 Hh Hreg Hrz0).
Qed.

Lemma true_res_run k : (k <= size sts)%N ->
  rv n j (rhist k) = cv n (cget (u_rhs u) j) - Am j *m xv n j (rhist k).
Proof. by move=> hk; apply: (all_true_res Hprep mm_lin (rhist_in hk)). Qed.

(* conjugacy along the run *)
Lemma conjugacy_run K : run_regular K -> forall i k, (i < k <= K)%N ->
  sdot (rv n j (rhist k)) (Mm j *m rv n j (rhist i)) = 0 /\
  sdot (pv n j (rhist k)) (Am j *m pv n j (rhist i)) = 0.
Proof.
move=> Hr i k Hik.
have K0 : (0 < K)%N by case/andP: Hik => h1 h2; apply: leq_trans h2; apply: leq_ltn_trans h1.
have [Hrec _] := closed_rec K0 Hr.
by split; [apply: (residuals_orthogonal Hrec Hik) | apply: (directions_conjugate Hrec Hik)].
Qed.

(* a regular run has at most n loop bodies: some threshold fires at the latest in loop body n + 1 *)
Lemma regular_at_most_n K : run_regular K -> (K <= n)%N.
Proof.
case: K => [|K] // [HK Hreg].
have [Hz0 Hp0 Hrz0] := s0_exact (leq_trans (ltn0Sn K) HK).
have Hh k : (k < K.+1)%N -> rhist k.+1 = step (rhist k).
  by move=> hk; apply: rhist_step; apply: leq_trans hk HK.
exact: (run_length mm_lin pre_lin' hj eps_gt0 Hh Hreg Hz0 Hp0 Hrz0 Asym Msym).
Qed.

(* after n regular loop bodies the iterate solves the (normalised) system exactly *)
Lemma exact_at_n : run_regular n -> Am j *m xv n j (rhist n) = cv n (cget (u_rhs u) j).
Proof.
move=> Hr.
have [n0|npos] : n = 0%N \/ (0 < n)%N by case: (g_n g) => [|m]; [left | right].
  by apply/colP => i; have : (i < 0)%N by rewrite -[X in (_ < X)%N]n0.
have [Hrec Hpos] := closed_rec npos Hr.
have H0 : rv n j (rhist n) = 0.
  by apply: (residual_n_zero Hrec (leqnn _)) => k hk; rewrite gt_eqF // Hpos.
have := true_res_run (proj1 Hr); rewrite H0 => /eqP.
by rewrite eq_sym subr_eq0 => /eqP <-.
Qed.

(* ... whatever the (symmetric) preconditioner: the limit is A^-1 b_hat *)
Lemma same_limit : run_regular n -> Am j \in unitmx ->
  xv n j (rhist n) = invmx (Am j) *m cv n (cget (u_rhs u) j).
Proof. by move=> Hr HU; rewrite -(exact_at_n Hr) mulKmx. Qed.

(* optimality over the span of the search directions used so far *)
Lemma optimal_run K (xs : 'cV[F]_n) :
  run_regular K -> Am j *m xs = cv n (cget (u_rhs u) j) ->
  (forall v : 'cV[F]_n, 0 <= sdot v (Am j *m v)) ->
  forall k (c : 'I_k -> F), (k <= K)%N ->
  energy (Am j) xs (xv n j (rhist k))
  <= energy (Am j) xs (xv n j (rhist 0) + \sum_(i < k) c i *: pv n j (rhist i)).
Proof.
move=> Hr Axs Apsd k c hk.
case: K Hr hk => [|K] Hr hk.
  move: c; have -> : k = 0%N by apply/eqP; rewrite -leqn0.
  by move=> c; rewrite big_ord0 addr0.
have [Hrec _] := closed_rec (ltn0Sn K) Hr.
have [HK Hreg] := Hr.
apply: (cg_optimal Hrec (X := fun k => xv n j (rhist k))) => //.
- move=> i hi; rewrite /al_ rhist_step ?x_stepv //; exact: leq_trans hi HK.
- by move=> i hi; rewrite mulmxBr Axs; apply: true_res_run; apply: leq_trans hi HK.
Qed.


(* ... and over the Krylov space of M A started at z_0 *)
Lemma optimal_krylov_run K (xs : 'cV[F]_n) :
  run_regular K -> Am j *m xs = cv n (cget (u_rhs u) j) ->
  (forall v : 'cV[F]_n, 0 <= sdot v (Am j *m v)) ->
  forall k (c : 'I_k -> F), (k <= K)%N ->
  energy (Am j) xs (xv n j (rhist k))
  <= energy (Am j) xs (xv n j (rhist 0) +
                       \sum_(i < k) c i *: iter i (fun v => Mm j *m (Am j *m v)) (zv n j (rhist 0))).
Proof.
move=> Hr Axs Apsd k c hk.
case: K Hr hk => [|K] Hr hk.
  move: c; have -> : k = 0%N by apply/eqP; rewrite -leqn0.
  by move=> c; rewrite big_ord0 addr0.
have [Hrec _] := closed_rec (ltn0Sn K) Hr.
have [HK Hreg] := Hr.
apply: (cg_optimal_krylov Hrec (X := fun k => xv n j (rhist k))) => //.
- move=> i hi; rewrite /al_ rhist_step ?x_stepv //; exact: leq_trans hi HK.
- by move=> i hi; rewrite mulmxBr Axs; apply: true_res_run; apply: leq_trans hi HK.
Qed.

(* from the default zero initial guess the first residual is the normalised right-hand side *)
Lemma x0_zero : g_x0 g = None -> xv n j (rhist 0) = 0.
Proof.
move=> Hx; have [_ _ _ _ [Hs0 _ _ _ _]] := prepare_inv Hprep.
rewrite /rhist [nth _ _ _]/= /xv Hs0 [x_ _]/= /x0_hat cv_ctab //; apply/colP => i; rewrite !mxE /guess Hx.
by rewrite get_ctab //= mul0r.
Qed.

Lemma r0_is_rhs : g_x0 g = None -> rv n j (rhist 0) = cv n (cget (u_rhs u) j).
Proof. by move=> Hx; rewrite (true_res_run (leq0n _)) x0_zero // mulmx0 subr0. Qed.

End ExactClosed.


(* ---------------------------------------------------------------------------------------------- *)
(* last_tridiag_iter is smaller than the number of executed loop bodies                              *)
Section LastBound.
Variables (F : Type) (A : Arith F).
Variables (n C nc : nat) (mm pre : cols F -> cols F) (precond : bool).
Variables (eps stop_after tolerance tri_thresh : F) (rhs_is_zero : seq bool).
Variables (n_tridiag max_iter nti : nat).
Local Notation trace := (cg_trace A n C nc mm pre precond eps stop_after tolerance tri_thresh rhs_is_zero
                                  n_tridiag max_iter nti).
Local Notation tstep := (tri_step A C nc tri_thresh n_tridiag nti).

Lemma tri_step_last k s t : last_ (tstep k s t) = k \/ last_ (tstep k s t) = last_ t.
Proof.
rewrite /tri_step; case: ifP => _; last by right.
by case: k => [|k]; left.
Qed.

Lemma trace_last fuel k s :
  (last_ (tri_ s) <= k.-1)%N -> (last_ (tri_ (last s (trace fuel k s))) <= (k + size (trace fuel k s)).-1)%N.
Proof.
elim: fuel k s => [|f IH] k s Hs; first by rewrite /= addn0.
rewrite [trace _ _ _]/=; case: ifP => _.
  by rewrite /= addn1 /=; apply: leq_trans Hs (leq_pred k).
set s2 := MkSt _ _ _ _.
have H2 : (last_ (tri_ s2) <= k.+1.-1)%N.
  rewrite /s2 [tri_ _]/= [k.+1.-1]/=.
  by case: (tri_step_last k (num_step A n C mm pre precond eps stop_after rhs_is_zero (num_ s)) (tri_ s)) => ->;
    [exact: leqnn | apply: leq_trans Hs (leq_pred k)].
by have := IH k.+1 s2 H2; rewrite [last _ (_ :: _)]/= [size (_ :: _)]/= addSnnS.
Qed.

Lemma trace_size_pos fuel k s : (0 < size (trace fuel.+1 k s))%N.
Proof. by rewrite [trace _ _ _]/=; case: ifP. Qed.

End LastBound.

Lemma last_lt_states (F : Type) (A : Arith F) (S : cg_settings F) (g : cg_args F) (u : cg_setup F) :
  cg_prepare A S g = Ok u ->
  (0 < last_ (tri_ (cg_final A S g u)))%N ->
  (last_ (tri_ (cg_final A S g u)) < size (cg_states A S g u))%N.
Proof.
move=> Hprep.
have [_ _ _ _ [_ _ _ HL _]] := prepare_inv Hprep.
have := @trace_last F A (g_n g) (size (g_rhs g)) (g_nc g) (u_mm u) (u_pre u) (u_precond u) (g_eps g)
          (g_stop_after g) (u_tolerance u) (s_tri_thresh S) (u_rhs_is_zero u) (g_n_tridiag g) (u_max_iter u)
          (u_nti u) (u_n_iter u) 0 (u_s0 u).
rewrite HL => /(_ (leqnn _)); rewrite add0n -/(cg_states A S g u) -/(cg_final A S g u).
by case: (size _) => [|m] //=; rewrite leqn0 => /eqP ->.
Qed.

(* ---------------------------------------------------------------------------------------------- *)
(* two runs that differ only in the preconditioner argument reach the same iterate after n regular steps *)
Definition with_pre (F : Type) (g : cg_args F) (p : option (cols F -> cols F)) : cg_args F :=
  MkArgs (g_mc g) (g_n g) (g_nc g) (g_rhs_is_vec g) (g_rhs g) (g_n_tridiag g) (g_tolerance g) (g_eps g)
         (g_stop_after g) (g_max_iter g) (g_max_tridiag_iter g) (g_x0 g) p.

Section TwoPreconditioners.
Variable F : rcfType.
Local Notation A := (FA F).
Variables (S : cg_settings F) (g : cg_args F) (p1 p2 : option (cols F -> cols F)).
Local Notation g1 := (with_pre g p1).
Local Notation g2 := (with_pre g p2).
Variables (u1 u2 : cg_setup F).
Local Notation n := (g_n g).
Local Notation C := (size (g_rhs g)).
Variables (Am M1 M2 : nat -> 'M[F]_n).
Hypothesis Hprep1 : cg_prepare A S g1 = Ok u1.
Hypothesis Hprep2 : cg_prepare A S g2 = Ok u2.
Hypothesis mm_lin1 : col_linear C Am (u_mm u1).
Hypothesis mm_lin2 : col_linear C Am (u_mm u2).
Hypothesis pre_lin1 : col_linear C M1 (u_pre u1).
Hypothesis pre_lin2 : col_linear C M2 (u_pre u2).
Variable j : nat.
Hypothesis hj : (j < C)%N.
Hypothesis Asym : (Am j)^T = Am j.
Hypothesis Msym1 : (M1 j)^T = M1 j.
Hypothesis Msym2 : (M2 j)^T = M2 j.
Hypothesis eps_gt0 : 0 < g_eps g.
Hypothesis AU : Am j \in unitmx.
Hypothesis Hr1 : run_regular S g1 u1 j n.
Hypothesis Hr2 : run_regular S g2 u2 j n.

Lemma same_limit_two : xv n j (rhist S g1 u1 n) = xv n j (rhist S g2 u2 n).
Proof.
have E1 := @same_limit F S g1 u1 Am M1 Hprep1 mm_lin1 pre_lin1 j hj Asym Msym1 eps_gt0 Hr1 AU.
have E2 := @same_limit F S g2 u2 Am M2 Hprep2 mm_lin2 pre_lin2 j hj Asym Msym2 eps_gt0 Hr2 AU.
have [_ _ [_ _ Hb1 _] _ _] := prepare_inv Hprep1.
have [_ _ [_ _ Hb2 _] _ _] := prepare_inv Hprep2.
by rewrite E1 E2 Hb1 Hb2.
Qed.

End TwoPreconditioners.

(* ---------------------------------------------------------------------------------------------- *)
(* the tridiagonal matrix of a tridiagonalised column is the Lanczos matrix of the run               *)
Section LanczosClosed.
Variable F : rcfType.
Local Notation A := (FA F).
Variables (S : cg_settings F) (g : cg_args F) (u : cg_setup F).
Local Notation n := (g_n g).
Local Notation C := (size (g_rhs g)).
Variables (Am Mm : nat -> 'M[F]_n).
Hypothesis Hprep : cg_prepare A S g = Ok u.
Hypothesis mm_lin : col_linear C Am (u_mm u).
Hypothesis pre_lin : col_linear C Mm (u_pre u).
Hypothesis eps_gt0 : 0 < g_eps g.
Variable q : nat.
Local Notation tc := (tri_cols C (g_nc g) (g_n_tridiag g)).
Hypothesis hq : (q < size tc)%N.
Local Notation col := (nth 0%N tc q).
Hypothesis Asym : (Am col)^T = Am col.
Hypothesis Msym : (Mm col)^T = Mm col.
Local Notation sf := (cg_final A S g u).
Local Notation L := (last_ (tri_ sf)).
Local Notation T := (nth [::] (tmat_ (tri_ sf)) q).
Local Notation hst := (rhist S g u).
Hypothesis L_gt0 : (0 < L)%N.
Hypothesis Hreg : run_regular S g u col L.+1.

Local Notation Rr := (fun k => rv n col (hst k)).
Local Notation Zr := (fun k => zv n col (hst k)).
Local Notation al := (al_ col hst).
Local Notation be := (be_ col hst).
(* the Lanczos vectors: (-1)^k r_k / sqrt(r_k . z_k) *)
Definition lanczos_vec (k : nat) : 'cV[F]_n := W Rr Zr k.

Lemma col_lt : (col < C)%N.
Proof. by have := mem_nth 0%N hq; rewrite mem_filter mem_iota add0n => /andP [_ /andP [_ H]]. Qed.

Lemma lz_rec :
  cg_rec (Am col) (Mm col) Rr Zr (fun k => pv n col (hst k)) al be L.+1 /\
  (forall k, (k < L.+1)%N -> 0 < c_rz Rr Zr k).
Proof. exact: (closed_rec Hprep mm_lin pre_lin col_lt Asym Msym eps_gt0 (ltn0Sn L) Hreg). Qed.

Lemma ar_eq k : (k <= L)%N ->
  ar_of A C (g_nc g) (g_n_tridiag g) (run_hist A S g u) k q = (al k)^-1.
Proof.
move=> hk; have [[_ [_ _ _ _ Ha0]] _] := lz_rec.
have := Ha0 k; rewrite ltnS => /(_ hk) /negbTE.
rewrite /ar_of /al_ /rhist [nth _ (_ :: _) k.+1]/= /run_hist.
by move: (sget A _ col) => x Hx; rewrite [aeqb _ _ _]Hx [adiv _ _ _]div1r.
Qed.

Lemma bt_eq k : bt_of A C (g_nc g) (g_n_tridiag g) (run_hist A S g u) k q = be k.
Proof. by []. Qed.

Lemma T_diag k : (k <= L)%N -> mget A T k k = tdiag al be k.
Proof.
move=> hk; have [Hrows H00] := final_tri_filled Hprep hq.
case: k hk => [|k] hk; first by rewrite H00 // ar_eq // /tdiag addr0.
have [-> _] := Hrows k.+1 hk.
by rewrite !ar_eq ?(ltnW hk) // bt_eq.
Qed.

Lemma T_off k : (k < L)%N -> mget A T k.+1 k = toff al be k.+1.
Proof.
move=> hk; have [Hrows _] := final_tri_filled Hprep hq.
have [_ ->] := Hrows k.+1 hk.
by rewrite ar_eq ?(ltnW hk) // bt_eq.
Qed.

Lemma T_sym i k : mget A T i k = mget A T k i.
Proof. by have [_ /(_ q hq) [H _]] := final_tri_ok Hprep. Qed.

Lemma T_far i k : (i.+1 < k)%N -> mget A T i k = 0.
Proof.
move=> hik; have [_ /(_ q hq) [_ H]] := final_tri_ok Hprep.
by apply: H; rewrite hik !orbT.
Qed.

(* T = W^T (M A M) W, W^T M W = I *)
Lemma T_is_projection i k : (i <= L)%N -> (k <= L)%N ->
  mget A T i k = sdot (Mm col *m lanczos_vec i) (Am col *m (Mm col *m lanczos_vec k)).
Proof.
have [Hrec Hpos] := lz_rec.
wlog hik : i k / (i <= k)%N.
  move=> Hw hi hk; case: (leqP i k) => [|/ltnW] h; first exact: Hw.
  by rewrite T_sym (lanczos_T_sym Hrec); apply: Hw.
move=> hi hk; rewrite /lanczos_vec (lanczos_T Hrec Hpos hik) ?ltnS //.
case: (eqVneq i k) => [->|nik]; first exact: T_diag.
case: (eqVneq i.+1 k) => [Ek|nik1].
  by rewrite T_sym -Ek T_off // Ek.
by apply: T_far; lia.
Qed.

Lemma lanczos_vec_orthonormal i k : (i <= L)%N -> (k <= L)%N ->
  sdot (lanczos_vec i) (Mm col *m lanczos_vec k) = (i == k)%:R.
Proof. by have [Hrec Hpos] := lz_rec => hi hk; apply: (lanczos_orthonormal Hrec Hpos). Qed.

Lemma lanczos_vec0 : lanczos_vec 0 = (Num.sqrt (rzj col (hst 0%N)))^-1 *: rv n col (hst 0%N).
Proof.
have [HK _] := Hreg.
have [_ _ ->] := s0_exact Hprep pre_lin col_lt (leq_trans (ltn0Sn L) HK).
by rewrite /lanczos_vec /W /cw expr0 div1r.
Qed.

(* the three-term recurrence, with the entries of T as coefficients *)
Lemma T_recurrence k : (k < L)%N ->
  Am col *m (Mm col *m lanczos_vec k)
  = mget A T k.+1 k *: lanczos_vec k.+1 + mget A T k k *: lanczos_vec k
    + (if k is k'.+1 then mget A T k k' *: lanczos_vec k' else 0).
Proof.
move=> hk; have [Hrec Hpos] := lz_rec.
rewrite (lanczos_recurrence Hrec Hpos) ?ltnS // T_off // T_diag ?(ltnW hk) //.
by case: k hk => [|k] hk //; rewrite /Wprev T_off // ltnW.
Qed.

(* full dimension: the moments of T are those of the preconditioned operator *)
Lemma T_moments : n = L.+1 -> forall p (i k : 'I_n),
  (iter p (mulmx (\matrix_(i0 < n, k0 < n) mget A T i0 k0)) 1%:M) i k
  = sdot (Mm col *m lanczos_vec i) (iter p (fun v => Am col *m (Mm col *m v)) (lanczos_vec k)).
Proof.
move=> full p i k; have [Hrec Hpos] := lz_rec.
have hL (i0 : 'I_n) : (i0 <= L)%N by rewrite -ltnS -full.
have hKn : (n <= L.+1)%N by rewrite -full.
have -> : \matrix_(i0 < n, k0 < n) mget A T i0 k0 = Tm (Am col) (Mm col) Rr Zr.
  by apply/matrixP => i0 k0; rewrite !mxE T_is_projection.
exact: (Tm_pow Hrec Hpos hKn).
Qed.

(* Ritz values: the eigenvalues of the returned matrix lie between any Rayleigh bounds of A in the M-inner product *)
Lemma T_ritz (lo hi : F) :
  (forall v : 'cV[F]_n, lo * sdot v (Mm col *m v) <= sdot (Mm col *m v) (Am col *m (Mm col *m v))) ->
  (forall v : 'cV[F]_n, sdot (Mm col *m v) (Am col *m (Mm col *m v)) <= hi * sdot v (Mm col *m v)) ->
  forall (y : 'cV[F]_L.+1) (th : F),
  (\matrix_(i < L.+1, k < L.+1) mget A T i k) *m y = th *: y -> y != 0 -> lo <= th <= hi.
Proof.
move=> Hlo Hhi y th; have [Hrec Hpos] := lz_rec.
have -> : \matrix_(i < L.+1, k < L.+1) mget A T i k = Tk (Am col) (Mm col) Rr Zr L.+1.
  by apply/matrixP => i k; rewrite !mxE T_is_projection // -ltnS.
move=> Hy y0; apply/andP; split.
  exact: (ritz_lower Hrec Hpos (leqnn _) Hlo Hy y0).
exact: (ritz_upper Hrec Hpos (leqnn _) Hhi Hy y0).
Qed.

End LanczosClosed.
