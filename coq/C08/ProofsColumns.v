(* C08 — per-column facts: a column with zero right-hand side stays exactly zero; a column that has
   converged (has_converged) is never changed again. *)
From mathcomp Require Import all_ssreflect all_algebra.
Require Import C08.Model C08.ProofsBase.
Set Implicit Arguments.
Unset Strict Implicit.
Unset Printing Implicit Defensive.
Import Order.Theory GRing.Theory Num.Theory.
Local Open Scope ring_scope.

(* ---------------------------------------------------------------------------------------- *)
Section ZeroColumn.
Variable R : comRingType.
Variables (dv : R -> R -> R) (sq ab : R -> R) (lt le eq : R -> R -> bool).
Local Notation A := (RA dv sq ab lt le eq).
Variables (n C : nat) (mm pre : cols R -> cols R) (precond : bool).
Variables (eps stop_after : R) (rhs_is_zero : seq bool).
Variables (Am Mm : nat -> 'M[R]_n).
Hypothesis mm_lin : col_linear C Am mm.
Hypothesis pre_lin : col_linear C Mm pre.
Variable j : nat.
Hypothesis hj : (j < C)%N.

Definition zcol (s : cg_num R) : Prop :=
  forall i, (i < n)%N ->
  [/\ vget A (cget (x_ s) j) i = 0, vget A (cget (r_ s) j) i = 0 & vget A (cget (p_ s) j) i = 0].

Lemma lin_zero (Bm : nat -> 'M[R]_n) (f : cols R -> cols R) (X : cols R) i :
  col_linear C Bm f -> (forall i, (i < n)%N -> vget A (cget X j) i = 0) -> (i < n)%N ->
  vget A (cget (f X) j) i = 0.
Proof.
move=> Hf HX hi.
have H0 : cv n (cget (f X) j) = 0 by rewrite Hf // (@cv_eq0 _ n (cget X j)) ?mulmx0.
exact: cv0_get H0 hi.
Qed.

Lemma step_zcol s : zcol s -> zcol (num_step A n C mm pre precond eps stop_after rhs_is_zero s).
Proof.
move=> H.
have Hx i : (i < n)%N -> vget A (cget (x_ s) j) i = 0 by case/H.
have Hr i : (i < n)%N -> vget A (cget (r_ s) j) i = 0 by case/H.
have Hp i : (i < n)%N -> vget A (cget (p_ s) j) i = 0 by case/H.
have Hmv i : (i < n)%N -> vget A (cget (mm (p_ s)) j) i = 0 by apply: lin_zero mm_lin _.
set s' := num_step _ _ _ _ _ _ _ _ _ _.
have Hr' i : (i < n)%N -> vget A (cget (r_ s') j) i = 0.
  move=> hi; rewrite r_step get_ctab //=.
  by case: ifP => _; rewrite Hr // Hmv // !mulr0 addr0.
have Hz' i : (i < n)%N -> vget A (cget (z_ s') j) i = 0.
  move=> hi; rewrite z_step; case: ifP => _; last exact: Hr'.
  exact: lin_zero pre_lin _ hi.
move=> i hi; split.
- by rewrite x_step get_ctab //= Hx // Hp // mulr0 addr0.
- exact: Hr'.
- by rewrite p_step get_ctab //= Hp // mul0r add0r Hz'.
Qed.

End ZeroColumn.

Section ZeroClosed.
Variable R : comRingType.
Variables (dv : R -> R -> R) (sq ab : R -> R) (lt le eq : R -> R -> bool).
Local Notation A := (RA dv sq ab lt le eq).
Hypothesis dv0 : forall y, dv 0 y = 0.
Variables (S : cg_settings R) (g : cg_args R) (u : cg_setup R).
Local Notation n := (g_n g).
Local Notation C := (size (g_rhs g)).
Variables (Am Mm : nat -> 'M[R]_n).
Hypothesis Hprep : cg_prepare A S g = Ok u.
Hypothesis mm_lin : col_linear C Am (u_mm u).
Hypothesis pre_lin : col_linear C Mm (u_pre u).
Hypothesis no_guess : g_x0 g = None.
Variable j : nat.
Hypothesis hj : (j < C)%N.
Hypothesis bj0 : forall i, (i < n)%N -> vget A (cget (g_rhs g) j) i = 0.

Lemma s0_zcol : zcol dv sq ab lt le eq n j (num_ (u_s0 u)).
Proof.
have [_ _ _ [_ _ _] [-> _ _ _ _]] := prepare_inv Hprep.
have Hx i : (i < n)%N -> vget A (cget (x0_hat A g) j) i = 0.
  by move=> hi; rewrite /x0_hat get_ctab // /guess no_guess get_ctab //= dv0.
have Hr i : (i < n)%N -> vget A (cget (residual0 A g (u_mm u)) j) i = 0.
  move=> hi; rewrite /residual0 get_ctab //= (lin_zero hj mm_lin Hx) // subr0.
  by rewrite /rhs_hat get_ctab //= bj0 // dv0.
have Hz i : (i < n)%N -> vget A (cget (if u_skip u then residual0 A g (u_mm u)
                                       else u_pre u (residual0 A g (u_mm u))) j) i = 0.
  by move=> hi; case: ifP => _; [exact: Hr | exact: (lin_zero hj pre_lin Hr)].
by move=> i hi /=; split; [exact: Hx | exact: Hr | exact: Hz].
Qed.

Lemma all_zcol s : List.In s (u_s0 u :: cg_states A S g u) -> zcol dv sq ab lt le eq n j (num_ s).
Proof.
case=> [<-|]; first exact: s0_zcol.
apply: trace_inv; last exact: s0_zcol.
by move=> t; apply: step_zcol mm_lin pre_lin _ hj _.
Qed.

Lemma zero_result i : (i < n)%N -> vget A (cget (o_res (cg_finish A g u (cg_final A S g u))) j) i = 0.
Proof.
move=> hi; rewrite /cg_finish /= get_ctab //=.
by have [-> _ _] := all_zcol (last_in _ _) hi; rewrite mul0r.
Qed.

End ZeroClosed.

(* ---------------------------------------------------------------------------------------- *)
Section Frozen.
Variable F : rcfType.
Local Notation A := (FA F).
Variables (n C : nat) (mm pre : cols F -> cols F) (precond : bool).
Variables (eps stop_after : F) (rhs_is_zero : seq bool).
Variable j : nat.
Hypothesis hj : (j < C)%N.
Local Notation step := (num_step A n C mm pre precond eps stop_after rhs_is_zero).

Definition fz_inv (s : cg_num F) : Prop :=
  bget (conv_ s) j -> 0 < stop_after /\ (bget rhs_is_zero j \/ norm2 A n (cget (r_ s) j) < stop_after).

Definition fz_rel (a b : cg_num F) : Prop :=
  bget (conv_ a) j ->
  [/\ bget (conv_ b) j, cv n (cget (x_ b) j) = cv n (cget (x_ a) j)
    & cv n (cget (r_ b) j) = cv n (cget (r_ a) j)].

Lemma fz_inv_step s : fz_inv (step s).
Proof.
rewrite /fz_inv conv_step /lt_all bget_mkseq // rnorm_step /norms_masked sget_mkseq //=.
case: ifP => Hz Hlt; first by split => //; left.
by split; [exact: le_lt_trans (norm2_ge0 _ _) Hlt | right].
Qed.

Lemma fz_step s : fz_inv s -> fz_inv (step s) /\ fz_rel s (step s).
Proof.
move=> H; split; first exact: fz_inv_step.
move=> Hc.
have Hal : sget A (alpha_ (step s)) j = 0 by rewrite alpha_step /next_alpha sget_mkseq // Hc.
have Hx : cv n (cget (x_ (step s)) j) = cv n (cget (x_ s) j).
  by rewrite x_step cv_ctab // Hal; apply/colP => i; rewrite !mxE /= mul0r addr0.
have Hr : cv n (cget (r_ (step s)) j) = cv n (cget (r_ s) j).
  rewrite r_step cv_ctab // Hal; apply/colP => i; rewrite !mxE /=.
  by case: ifP => _; rewrite ?oppr0 ?mul0r ?mulr0 addr0.
split => //.
rewrite conv_step /lt_all bget_mkseq // rnorm_step /norms_masked sget_mkseq //.
case: (H Hc) => H0 [-> //|Hn].
by case: ifP => _ //; rewrite (norm2_cv Hr).
Qed.

Lemma fz_rel_refl s : fz_rel s s.
Proof. by move=> Hc; split. Qed.

Lemma fz_rel_trans a b c : fz_rel a b -> fz_rel b c -> fz_rel a c.
Proof.
move=> Hab Hbc Ha; have [Hb Hx Hr] := Hab Ha; have [Hc Hx' Hr'] := Hbc Hb.
by split => //; [rewrite Hx' | rewrite Hr'].
Qed.

End Frozen.

Section FrozenClosed.
Variable F : rcfType.
Local Notation A := (FA F).
Variables (S : cg_settings F) (g : cg_args F) (u : cg_setup F).
Local Notation n := (g_n g).
Local Notation C := (size (g_rhs g)).
Hypothesis Hprep : cg_prepare A S g = Ok u.
Variable j : nat.
Hypothesis hj : (j < C)%N.

Lemma s0_fz_inv : fz_inv n (g_stop_after g) (u_rhs_is_zero u) j (num_ (u_s0 u)).
Proof.
have [_ _ _ _ [-> _ _ _ _]] := prepare_inv Hprep.
rewrite /fz_inv /= bget_mkseq // sget_mkseq // => Hlt.
by split; [exact: le_lt_trans (norm2_ge0 _ _) Hlt | right].
Qed.

Lemma frozen_pair i1 i2 :
  let sts := u_s0 u :: cg_states A S g u in
  (i1 <= i2 < size sts)%N ->
  fz_rel n j (num_ (nth (u_s0 u) sts i1)) (num_ (nth (u_s0 u) sts i2)).
Proof.
move=> sts Hi.
apply: (trace_rel_pair (P := fz_inv n (g_stop_after g) (u_rhs_is_zero u) j)) Hi.
- by move=> s; apply: fz_step.
- exact: fz_rel_refl.
- exact: fz_rel_trans.
- exact: s0_fz_inv.
Qed.

End FrozenClosed.
