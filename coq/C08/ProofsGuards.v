(* C08 — the three raises of linear_cg (lines 159-166, 199-200): exactly when each happens.  Any arithmetic
   (in particular the binary64 instance executed against the implementation). *)
From mathcomp Require Import all_ssreflect.
Require Import C08.Model C08.ProofsBase.
Set Implicit Arguments.
Unset Strict Implicit.
Unset Printing Implicit Defensive.

Section Guards.
Variables (F : Type) (A : Arith F).

Definition guard_spec (S : cg_settings F) (g : cg_args F) (r : res (cg_output F)) : Prop :=
  match r with
  | Err ErrTridiagLimit => eff_max_iter S g < eff_max_tridiag_iter S g
  | Err ErrNotCallable => (eff_max_tridiag_iter S g <= eff_max_iter S g) /\ closure_fun A (g_nc g) (g_mc g) = None
  | Err ErrNaN => (eff_max_tridiag_iter S g <= eff_max_iter S g) /\
                  exists2 mm, closure_fun A (g_nc g) (g_mc g) = Some mm & ~~ no_nan A (residual0 A g mm)
  | Ok _ => (eff_max_tridiag_iter S g <= eff_max_iter S g) /\
            exists2 mm, closure_fun A (g_nc g) (g_mc g) = Some mm & no_nan A (residual0 A g mm)
  end.

Lemma guards S g : guard_spec S g (linear_cg A S g).
Proof.
rewrite /linear_cg; case E: (cg_prepare A S g) => [u|e] /=.
  have [[H1 H2 H3] _ _ _ _] := prepare_inv E.
  by split; [rewrite leqNgt H1 | exists (u_mm u)].
move: E; rewrite /cg_prepare.
case: ltnP => Hle; first by case=> <-.
case Hc: (closure_fun _ _ _) => [mm|]; last by case=> <-.
by rewrite /cg_prepare_tail; case: ifP => // Hn [<-]; split => //; exists mm.
Qed.

End Guards.

(* in exact arithmetic (x == x always) the NaN guard never fires: linear_cg returns iff the limits are
   consistent and the closure is a tensor or callable *)
From mathcomp Require Import all_algebra.
Section Returns.
Variable R : comRingType.
Variables (dv : R -> R -> R) (sq ab : R -> R) (lt le : R -> R -> bool).
Local Notation A := (RA dv sq ab lt le (fun x y => x == y)).

Lemma no_nan_exact (X : cols R) : no_nan A X.
Proof. by apply/allP => c _; apply/allP => x _ /=. Qed.

Lemma prepare_succeeds S g mm :
  eff_max_tridiag_iter S g <= eff_max_iter S g -> closure_fun A (g_nc g) (g_mc g) = Some mm ->
  exists2 u, cg_prepare A S g = Ok u & u_mm u = mm.
Proof.
move=> Hle Hc; rewrite /cg_prepare ltnNge Hle /= Hc /cg_prepare_tail no_nan_exact /=.
by eexists.
Qed.

End Returns.
