(* C08 — the update_tridiag switch of lines 326-327 is a decision about ALL tridiagonalised columns / batch members:
   it can only turn off when EVERY newest off-diagonal is below the threshold (t_mat[k-1, k].max() < 1e-6). *)
From mathcomp Require Import all_ssreflect all_algebra.
Require Import C08.Model C08.ProofsBase.
Set Implicit Arguments.
Unset Strict Implicit.
Unset Printing Implicit Defensive.
Import Order.Theory GRing.Theory Num.Theory.
Local Open Scope ring_scope.

Section Switch.
Variable F : rcfType.
Local Notation A := (FA F).

Lemma foldl_amax_ge (x : F) (r : seq F) :
  x <= foldl (amax A) x r /\ forall y, y \in r -> y <= foldl (amax A) x r.
Proof.
elim: r x => [|z r IH] x /=; first by split.
have [H1 H2] := IH (amax A x z).
have Hx : x <= amax A x z by rewrite /amax /=; case: ltP => // /ltW.
have Hz : z <= amax A x z by rewrite /amax /=; case: ltP => //.
split; first exact: le_trans Hx H1.
move=> y; rewrite inE => /orP [/eqP ->|Hy]; first exact: le_trans Hz H1.
exact: H2.
Qed.

Lemma maxl_ge (s : seq F) y : y \in s -> y <= maxl A s.
Proof.
case: s => [|x r] //; rewrite inE /maxl => /orP [/eqP ->|Hy].
  by have [] := foldl_amax_ge x r.
by have [_ H] := foldl_amax_ge x r; apply: H.
Qed.

Variables (C nc : nat) (tri_thresh : F) (n_tridiag nti : nat).
Local Notation tstep := (tri_step A C nc tri_thresh n_tridiag nti).
Local Notation Q := (size (tri_cols C nc n_tridiag)).

Lemma switch_all k s t :
  upd_ t -> upd_ (tstep k s t) = false ->
  (0 < k)%N /\ forall q, (q < Q)%N -> mget A (nth [::] (tmat_ (tstep k s t)) q) k.-1 k < tri_thresh.
Proof.
move=> Hu; rewrite /tri_step; case: ifP => [_|_]; last by rewrite Hu.
case: k => [|k'] /=; first by rewrite Hu.
set T' := mkseq _ Q; set offs := mkseq _ Q.
case: ifP => [Hlt _|_]; last by rewrite Hu.
split => // q hq.
apply: le_lt_trans Hlt; apply: maxl_ge.
by apply/mapP; exists q; rewrite ?mem_iota //= nth_mkseq.
Qed.

End Switch.

(* the stopping rule (lines 302-306) never fires before the requested number of Lanczos steps is complete: for
   n_tridiag > 0 and k < min(n_tridiag_iter, max_iter - 1) the break is impossible whatever the residuals and the tolerance.
   Any arithmetic. *)
Lemma stop_waits (T : Type) (Ar : Arith T) (C : nat) (tolerance : T) (n_tridiag max_iter nti k : nat) (s : cg_num T) :
  (0 < n_tridiag)%N -> (k < minn nti max_iter.-1)%N ->
  stop_rule Ar C tolerance n_tridiag max_iter nti k s = false.
Proof. by move=> Hn Hk; rewrite /stop_rule Hn Hk /= !andbF. Qed.
