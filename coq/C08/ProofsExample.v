(* C08 — a concrete run satisfying the hypotheses of the theorems about regular stretches (Property.v 10-13):
   the 1 x 1 system  2 x = 1,  eps = 1/10, stop_updating_after = 0, max_iter = 1, no preconditioner, over any real
   closed field.  The single loop body is regular, so K = n = 1.
   Second example (for Property.v 15-17): the 2 x 2 system [[2,1],[1,2]] x = (1,0), n_tridiag = 1, max_iter = 3,
   max_tridiag_iter = 2: loop bodies 1 and 2 are regular, last_tridiag_iter = 1 = n - 1.  All values are obtained by
   rewriting / field over an arbitrary real closed field, not by vm_compute. *)
From mathcomp Require Import all_ssreflect all_algebra.
From mathcomp Require Import ring.
Require Import C08.Model C08.ProofsBase C08.ProofsResidual C08.ProofsColumns C08.ProofsGuards
               C08.ProofsEnergy C08.ProofsTmat C08.ProofsConjugacy C08.ProofsExact.
Set Implicit Arguments.
Unset Strict Implicit.
Unset Printing Implicit Defensive.
Import Order.Theory GRing.Theory Num.Theory.
Local Open Scope ring_scope.

Section Ex.
Variable F : rcfType.
Local Notation A := (FA F).
Definition ex_M1 : seq (mat F) := [:: [:: [:: 2%:R]]].
Definition ex_S1 : cg_settings F := MkSettings 1000 20 1 false (1 / 1000000%:R).
Definition ex_g1 : cg_args F :=
  MkArgs (ClTensor ex_M1) 1 1 false [:: [:: 1]] 0 None (1 / 10%:R) 0 (Some 1%N) (Some 1%N) None None.
Local Notation M1 := ex_M1.
Local Notation S1 := ex_S1.
Local Notation g1 := ex_g1.

Lemma ex_regular u : cg_prepare A S1 g1 = Ok u -> u_mm u = tensor_mm A 1 M1 ->
  regular 1 (u_mm u) (g_eps g1) 0 (rhist S1 g1 u 0).
Proof.
move=> Hu Hm.
have [_ [Hpre _ _ _ _] _ _ [Hs0 _ _ _ _]] := prepare_inv Hu.
have H10 : (1 < 1 / 10%:R :> F) = false.
  by apply/negbTE; rewrite -leNgt div1r invf_le1 ?ltr0n // ler1n.
have H210 : (2%:R < 1 / 10%:R :> F) = false.
  apply/negbTE; rewrite -leNgt; apply: le_trans (_ : 1 <= _); last by rewrite ler1n.
  by rewrite div1r invf_le1 ?ltr0n // ler1n.
have Hn1 : norm2 A 1 [:: 1] = 1 by rewrite /norm2 /dot /= mulr1 add0r sqrtr1.
have Hrhs : rhs_hat A g1 = [:: [:: 1]].
  by rewrite /rhs_hat /rhs_norm /rhs_zero /rhs_norm0 /ctab /mkseq /= /norm2 /dot /= !mulr1 !add0r sqrtr1 H10 ?divr1 ?mul0r.
have Hx0 : x0_hat A g1 = [:: [:: 0]].
  by rewrite /x0_hat /rhs_norm /rhs_zero /rhs_norm0 /guess /ctab /mkseq /= /norm2 /dot /= !mulr1 !add0r sqrtr1 H10 ?divr1 ?mul0r.
have Hr0 : residual0 A g1 (tensor_mm A 1 M1) = [:: [:: 1]].
  by rewrite /residual0 Hrhs Hx0 /ctab /mkseq /= /rowdot /= mulr0 addr0 subr0.
rewrite /rhist [nth _ _ _]/= Hs0 Hm Hr0 Hpre [g_pre g1]/=.
have -> : (if u_skip u then [:: [:: 1]] else id [:: [:: 1]]) = [:: [:: 1 : F]] by case: (u_skip u).
split.
- by rewrite /= /mkseq /= /norm2 /dot /= mulr1 add0r sqrtr1 ltr10.
- rewrite /pAp /= /dot /= /rowdot /=.
  have -> : 0 + 1 * (0 + 2%:R * 1) = 2%:R :> F by rewrite mulr1 !add0r mul1r.
  exact: H210.
- by rewrite /rzj /= /mkseq /= /dot /= mulr1 add0r H10.
Qed.

Lemma ex_regular_run :
  exists u,
  [/\ cg_prepare A S1 g1 = Ok u,
      col_linear (size (g_rhs g1)) (fun j => mx_of 1 (nth [::] M1 (j %/ 1))) (u_mm u),
      col_linear (size (g_rhs g1)) (fun _ => 1%:M : 'M[F]_(g_n g1)) (u_pre u),
      [/\ (mx_of 1 (nth [::] M1 (0 %/ 1)))^T = mx_of 1 (nth [::] M1 (0 %/ 1)), (1%:M : 'M[F]_1)^T = 1%:M,
          mx_of 1 (nth [::] M1 (0 %/ 1)) \in unitmx & 0 < g_eps g1] &
      run_regular S1 g1 u 0 (g_n g1)].
Proof.
have [u Hu Hm] : exists2 u, cg_prepare A S1 g1 = Ok u & u_mm u = tensor_mm A 1 M1.
  exact: (@prepare_succeeds _ _ _ _ _ _ S1 g1).
exists u; split => //.
- by rewrite Hm; apply: tensor_mm_linear => j; rewrite /= => hj; rewrite divn_small //= !eqxx.
- have [_ [-> _ _ _ _] _ _ _] := prepare_inv Hu.
  by move=> X j hj /=; rewrite mul1mx.
- split.
  + by apply/matrixP => i k; rewrite !mxE !ord1.
  + exact: trmx1.
  + by rewrite unitmxE det_mx11 mxE /= unitfE pnatr_eq0.
  + by rewrite /= div1r invr_gt0 ltr0n.
- have [_ _ _ [Hsk Hn _] _] := prepare_inv Hu.
  have Hskf : u_skip u = false.
    rewrite Hsk [size _]/= /mkseq /= !andbT; apply/negbTE.
    by rewrite -leNgt; apply: norm2_ge0.
  split.
    by rewrite /cg_states Hn Hskf /=; case: ifP.
  by case=> [|k] // _; apply: ex_regular.
Qed.

End Ex.

(* ---------------------------------------------------------------------------------------------- *)
(* a run whose stopping rule cannot fire in loop bodies 1 and 2 (k = 0, 1 < min(10, max_iter - 1)), tridiagonalising
   with n_tridiag_iter = 2: the first two states, and last_tridiag_iter = 1 whatever happens afterwards *)
Section TwoSteps.
Variables (F : Type) (A : Arith F).
Variables (n C nc : nat) (mm pre : cols F -> cols F) (precond : bool).
Variables (eps stop_after tolerance tri_thresh : F) (rhs_is_zero : seq bool).
Variables (n_tridiag max_iter : nat).
Local Notation nti := 2%N.
Local Notation trace := (cg_trace A n C nc mm pre precond eps stop_after tolerance tri_thresh rhs_is_zero
                                  n_tridiag max_iter nti).
Local Notation tstep := (tri_step A C nc tri_thresh n_tridiag nti).
Local Notation step := (num_step A n C mm pre precond eps stop_after rhs_is_zero).
Hypothesis Hmax : (2 <= minn 10 max_iter.-1)%N.
Hypothesis Hnt : (0 < n_tridiag)%N.

Lemma stop_rule_early k s : (k < 2)%N -> stop_rule A C tolerance n_tridiag max_iter nti k s = false.
Proof. by move=> hk; rewrite /stop_rule leqNgt (leq_trans hk Hmax). Qed.

Lemma trace_tri_const fuel k s s' : (nti <= k)%N -> List.In s' (trace fuel k s) -> tri_ s' = tri_ s.
Proof.
elim: fuel k s => [|f IH] k s hk //=.
have Ht t x : tstep k x t = t by rewrite /tri_step [(k < 2)%N]ltnNge hk /= andbF.
case: ifP => _ /=; first by case=> [<-|//].
case=> [<-|/(IH k.+1 _ (leqW hk)) ->] /=; exact: Ht.
Qed.

Lemma trace_two fuel s :
  let s1 := step (num_ s) in
  let t1 := tstep 0 s1 (tri_ s) in
  let s2 := step s1 in
  let t2 := tstep 1 s2 t1 in
  trace fuel.+2 0 s = MkSt s1 t1 false 1 :: MkSt s2 t2 false 2 :: trace fuel 2 (MkSt s2 t2 false 2).
Proof. by move=> s1 t1 s2 t2; rewrite /= !stop_rule_early. Qed.

Lemma last_two fuel s : upd_ (tri_ s) -> last_ (tri_ (last s (trace fuel.+2 0 s))) = 1%N.
Proof.
move=> Hu; rewrite trace_two /=.
set sb := MkSt _ _ _ _.
have -> : tri_ (last sb (trace fuel 2 sb)) = tri_ sb.
  by case: (last_in sb (trace fuel 2 sb)) => [<-|/trace_tri_const ->].
by rewrite /sb /= /tri_step Hnt /= Hu.
Qed.

End TwoSteps.

Section Ex2.
Variable F : rcfType.
Local Notation A := (FA F).
Definition ex_M2 : seq (mat F) := [:: [:: [:: 2%:R; 1]; [:: 1; 2%:R]]].
Definition ex_S2 : cg_settings F := MkSettings 1000 20 1 false (1 / 1000000%:R).
Definition ex_g2 : cg_args F :=
  MkArgs (ClTensor ex_M2) 2 1 false [:: [:: 1; 0]] 1 None (1 / 10%:R) 0 (Some 3%N) (Some 2%N) None None.
Local Notation M2 := ex_M2.
Local Notation S2 := ex_S2.
Local Notation g2 := ex_g2.
Variable u : cg_setup F.
Hypothesis Hu : cg_prepare A S2 g2 = Ok u.
Hypothesis Hm : u_mm u = tensor_mm A 1 M2.

Let mm2 := tensor_mm A 1 M2.


Lemma lt_1_10 : (1 < 1 / 10%:R :> F) = false.
Proof. by apply/negbTE; rewrite -leNgt div1r invf_le1 ?ltr0n // ler1n. Qed.

Lemma sqrt_10 : Num.sqrt (0 + 1 * 1 + 0 * 0) = 1 :> F.
Proof. by rewrite mulr1 mulr0 add0r addr0 sqrtr1. Qed.

Lemma ex2_pre : u_pre u = id.
Proof. by have [_ [-> _ _ _ _] _ _ _] := prepare_inv Hu. Qed.

Lemma ex2_skip : u_skip u = false.
Proof.
have [_ _ _ [-> _ _] _] := prepare_inv Hu.
by rewrite andbF.
Qed.

Lemma ex2_s0 : num_ (u_s0 u) = MkNum [:: [:: 0; 0]] [:: [:: 1; 0]] [:: [:: 1; 0]] [:: [:: 1; 0]] [:: 1] [:: 0] [:: 0] [:: 1] [:: false].
Proof.
have [_ _ _ _ [Hs0 _ _ _ _]] := prepare_inv Hu.
have Hrhs : rhs_hat A g2 = [:: [:: 1; 0]].
  rewrite /rhs_hat /rhs_norm /rhs_zero /rhs_norm0 /ctab /mkseq /= /norm2 /dot /= sqrt_10 lt_1_10.
  by rewrite divr1 mul0r.
have Hx0 : x0_hat A g2 = [:: [:: 0; 0]].
  rewrite /x0_hat /rhs_norm /rhs_zero /rhs_norm0 /guess /ctab /mkseq /= /norm2 /dot /= sqrt_10 lt_1_10.
  by rewrite mul0r.
have Hr0 : residual0 A g2 (tensor_mm A 1 M2) = [:: [:: 1; 0]].
  rewrite /residual0 Hrhs Hx0 /ctab /mkseq /= /rowdot /= !mulr0 !addr0 !subr0.
  by [].
rewrite Hs0 Hm Hr0 Hx0 ex2_pre ex2_skip /= /mkseq /= /norm2 /dot /= sqrt_10 ltr10.
by rewrite mulr1 mulr0 add0r addr0.
Qed.

Lemma lt_c_10 (c : F) : 1 / 10%:R <= c -> (c < 1 / 10%:R) = false.
Proof. by move=> H; apply/negbTE; rewrite -leNgt. Qed.

Lemma ex2_precond : u_precond u = false.
Proof. by have [_ [_ -> _ _ _] _ _ _] := prepare_inv Hu. Qed.

Lemma ex2_rhsz : u_rhs_is_zero u = [:: false].
Proof.
have [_ _ [_ -> _ _] _ _] := prepare_inv Hu.
by rewrite /rhs_zero /rhs_norm0 /mkseq /= /norm2 /dot /= sqrt_10 lt_1_10.
Qed.

Let s0 := MkNum [:: [:: 0; 0]] [:: [:: 1; 0]] [:: [:: 1; 0]] [:: [:: 1; 0]] [:: 1] [:: 0] [:: 0] [:: (1:F)] [:: false].
Local Notation step2 := (num_step A 2 1 mm2 id false (1 / 10%:R) 0 [:: false]).

Lemma ex2_mv0 : mm2 [:: [:: 1; 0]] = [:: [:: 2%:R; 1]].
Proof.
rewrite /mm2 /tensor_mm /= /mkseq /= /rowdot /=.
by congr [:: [:: _; _]]; ring.
Qed.


Lemma le10_1 : 1 / 10%:R <= 1 :> F.
Proof. by rewrite div1r invf_le1 ?ltr0n // ler1n. Qed.
Lemma le10_2 : 1 / 10%:R <= 2%:R :> F.
Proof. by apply: le_trans le10_1 _; rewrite ler1n. Qed.
Lemma le10_4 : 1 / 10%:R <= 4%:R^-1 :> F.
Proof. by rewrite div1r lef_pinv ?posrE ?ltr0n // ler_nat. Qed.
Lemma le10_38 : 1 / 10%:R <= 3%:R / 8%:R :> F.
Proof. by rewrite div1r ler_pdivl_mulr ?ltr0n // mulrC ler_pdivr_mulr ?ltr0n // -!natrM ler_nat. Qed.

Lemma ex2_alpha1 : alpha_ (step2 s0) = [:: 2%:R^-1].
Proof.
rewrite alpha_step /next_alpha [p_ s0]/= ex2_mv0 /mkseq /= /dot /= /safe_div /=.
have -> : 0 + 1 * 2%:R + 0 * 1 = 2%:R :> F by ring.
by rewrite (lt_c_10 le10_2) div1r.
Qed.

Lemma ex2_r1 : r_ (step2 s0) = [:: [:: 0; - 2%:R^-1]].
Proof.
rewrite r_step ex2_alpha1 [p_ s0]/= ex2_mv0 /ctab /mkseq /=.
by congr [:: [:: _; _]]; field.
Qed.

Lemma ex2_z1 : z_ (step2 s0) = [:: [:: 0; - 2%:R^-1]].
Proof. by rewrite z_step ex2_r1. Qed.

Lemma ex2_x1 : x_ (step2 s0) = [:: [:: 2%:R^-1; 0]].
Proof.
rewrite x_step ex2_alpha1 /ctab /mkseq /=.
by congr [:: [:: _; _]]; ring.
Qed.

Lemma ex2_rz1 : rz_ (step2 s0) = [:: 4%:R^-1].
Proof.
rewrite rz_step ex2_r1 ex2_z1 /mkseq /= /dot /=.
by congr [:: _]; field.
Qed.

Lemma ex2_beta1 : beta_ (step2 s0) = [:: 4%:R^-1].
Proof.
rewrite beta_step ex2_rz1 /mkseq /= /safe_div /= lt_1_10.
by rewrite divr1.
Qed.

Lemma ex2_p1 : p_ (step2 s0) = [:: [:: 4%:R^-1; - 2%:R^-1]].
Proof.
rewrite p_step ex2_beta1 ex2_z1 /ctab /mkseq /=.
by congr [:: [:: _; _]]; ring.
Qed.

Lemma ex2_mv1 : mm2 [:: [:: 4%:R^-1; - 2%:R^-1]] = [:: [:: 0; - (3%:R / 4%:R)]].
Proof.
rewrite /mm2 /tensor_mm /= /mkseq /= /rowdot /=.
by congr [:: [:: _; _]]; field.
Qed.

Lemma ex2_conv1 : bget (conv_ (step2 s0)) 0 = false.
Proof.
case H: (bget _ 0) => //.
have [] := @fz_inv_step F 2 1 mm2 id false (1 / 10%:R) 0 [:: false] 0 isT s0 H.
by rewrite ltxx.
Qed.

Lemma ex2_regular0 : regular 2 mm2 (1 / 10%:R) 0 s0.
Proof.
split => //.
- rewrite /pAp [p_ s0]/= ex2_mv0 /= /dot /=.
  have -> : 0 + 1 * 2%:R + 0 * 1 = 2%:R :> F by ring.
  exact: (lt_c_10 le10_2).
- by rewrite /rzj /=; exact: lt_1_10.
Qed.

Lemma ex2_regular1 : regular 2 mm2 (1 / 10%:R) 0 (step2 s0).
Proof.
split.
- exact: ex2_conv1.
- rewrite /pAp ex2_p1 ex2_mv1 /= /dot /=.
  have -> : 0 + 4%:R^-1 * 0 + - 2%:R^-1 * - (3%:R / 4%:R) = 3%:R / 8%:R :> F.
    by field.
  exact: (lt_c_10 le10_38).
- by rewrite /rzj ex2_rz1 /=; exact: (lt_c_10 le10_4).
Qed.

Lemma ex2_states :
  exists rest, cg_states A S2 g2 u =
    MkSt (step2 s0) (tri_step A 1 1 (s_tri_thresh S2) 1 2 0 (step2 s0) (tri_ (u_s0 u))) false 1 :: rest.
Proof.
have [_ [_ _ Hmi Htol Hnti] _ [_ Hni _] _] := prepare_inv Hu.
rewrite /cg_states Hni ex2_skip Hmi Hnti Hm ex2_pre ex2_precond ex2_rhsz.
rewrite [eff_max_iter _ _]/= [minn _ _]/= [s_terminate_cg_by_size _]/= [g_n g2]/= [size _]/= [g_nc g2]/=.
rewrite [g_eps g2]/= [g_stop_after g2]/= [g_n_tridiag g2]/=.
rewrite (@trace_two F A 2 1 1 mm2 id false (1 / 10%:R) 0 (u_tolerance u) (s_tri_thresh S2) [:: false] 1 3 isT 1).
by rewrite ex2_s0; eexists.
Qed.

Lemma ex2_last : last_ (tri_ (cg_final A S2 g2 u)) = 1%N.
Proof.
have [_ [_ _ Hmi Htol Hnti] _ [_ Hni _] [_ _ Hupd _ _]] := prepare_inv Hu.
rewrite /cg_final /cg_states Hni ex2_skip Hmi Hnti.
rewrite [eff_max_iter _ _]/= [minn _ _]/= [s_terminate_cg_by_size _]/=.
by apply: last_two.
Qed.

Lemma ex2_run k : (k <= 1)%N -> regular 2 (u_mm u) (g_eps g2) 0 (rhist S2 g2 u k).
Proof.
have [rest Hst] := ex2_states.
rewrite Hm [g_eps g2]/=.
case: k => [|[|k]] // _.
  by rewrite /rhist [nth _ _ _]/= ex2_s0; exact: ex2_regular0.
by rewrite /rhist Hst [nth _ _ _]/=; exact: ex2_regular1.
Qed.

End Ex2.

Lemma ex_lanczos_run (F : rcfType) :
  exists u,
  [/\ cg_prepare (FA F) (ex_S2 F) (ex_g2 F) = Ok u,
      col_linear (size (g_rhs (ex_g2 F))) (fun j => mx_of 2 (nth [::] (ex_M2 F) (j %/ 1))) (u_mm u),
      col_linear (size (g_rhs (ex_g2 F))) (fun _ => 1%:M : 'M[F]_(g_n (ex_g2 F))) (u_pre u),
      [/\ (mx_of 2 (nth [::] (ex_M2 F) (0 %/ 1)))^T = mx_of 2 (nth [::] (ex_M2 F) (0 %/ 1)),
          (1%:M : 'M[F]_2)^T = 1%:M & 0 < g_eps (ex_g2 F)] &
      [/\ (0 < size (tri_cols (size (g_rhs (ex_g2 F))) (g_nc (ex_g2 F)) (g_n_tridiag (ex_g2 F))))%N,
          nth 0%N (tri_cols (size (g_rhs (ex_g2 F))) (g_nc (ex_g2 F)) (g_n_tridiag (ex_g2 F))) 0 = 0%N,
          (0 < last_ (tri_ (cg_final (FA F) (ex_S2 F) (ex_g2 F) u)))%N,
          g_n (ex_g2 F) = (last_ (tri_ (cg_final (FA F) (ex_S2 F) (ex_g2 F) u))).+1 &
          forall k, (k <= last_ (tri_ (cg_final (FA F) (ex_S2 F) (ex_g2 F) u)))%N ->
            regular (g_n (ex_g2 F)) (u_mm u) (g_eps (ex_g2 F)) 0 (rhist (ex_S2 F) (ex_g2 F) u k)]].
Proof.
have [u Hu Hm] : exists2 u, cg_prepare (FA F) (ex_S2 F) (ex_g2 F) = Ok u & u_mm u = tensor_mm (FA F) 1 (ex_M2 F).
  exact: (@prepare_succeeds _ _ _ _ _ _ (ex_S2 F) (ex_g2 F)).
exists u; split => //.
- by rewrite Hm; apply: tensor_mm_linear => j; rewrite /= => hj; rewrite divn_small //= !eqxx.
- by rewrite (ex2_pre Hu) => X j hj /=; rewrite mul1mx.
- split.
  + apply/matrixP => i k; rewrite !mxE /=.
    by case: i => [[|[|i]] hi] //; case: k => [[|[|k]] hk].
  + exact: trmx1.
  + by rewrite /= div1r invr_gt0 ltr0n.
- by rewrite (ex2_last Hu); split => // k hk; apply: ex2_run.
Qed.
