(* C08 — the tridiagonal matrices returned when n_tridiag > 0 (lines 311-332, 352-357): square of size
   last_tridiag_iter + 1, symmetric, zero off the three central diagonals.  Any arithmetic. *)
From mathcomp Require Import all_ssreflect zify.
Require Import C08.Model C08.ProofsBase.
Set Implicit Arguments.
Unset Strict Implicit.
Unset Printing Implicit Defensive.

Section Tmat.
Variables (F : Type) (A : Arith F).

Lemma mget_mtab m n (f : nat -> nat -> F) i j :
  mget A (mtab m n f) i j = if (i < m) && (j < n) then f i j else a0 A.
Proof.
rewrite /mget /mtab; case: (ltnP i m) => hi /=; last by rewrite [nth [::] _ _]nth_default ?size_mkseq // nth_nil.
rewrite nth_mkseq //; case: (ltnP j n) => hj; first by rewrite nth_mkseq.
by rewrite nth_default // size_mkseq.
Qed.

Variables (C nc : nat) (tri_thresh : F) (n_tridiag nti : nat).
Local Notation tstep := (tri_step A C nc tri_thresh n_tridiag nti).
Local Notation Q := (size (tri_cols C nc n_tridiag)).

Lemma mget_mset M a b v i j :
  mget A (mset A nti M a b v) i j =
  if (i < nti) && (j < nti) then (if (i == a) && (j == b) then v else mget A M i j) else a0 A.
Proof. by rewrite /mset mget_mtab. Qed.

(* the three writes of lines 322-324 at once *)
Lemma mget_mset3 M k' d o i j :
  k'.+1 < nti ->
  mget A (mset A nti (mset A nti (mset A nti M k'.+1 k'.+1 d) k'.+1 k' o) k' k'.+1
             (mget A (mset A nti (mset A nti M k'.+1 k'.+1 d) k'.+1 k' o) k'.+1 k')) i j
  = if (i < nti) && (j < nti) then
      if (i == k') && (j == k'.+1) then o
      else if (i == k'.+1) && (j == k') then o
      else if (i == k'.+1) && (j == k'.+1) then d else mget A M i j
    else a0 A.
Proof.
move=> Hk; have Hk' : k' < nti by apply: ltnW.
rewrite !mget_mset Hk Hk' !eqxx /=.
by case Hin: ((i < nti) && (j < nti)); rewrite ?Hin.
Qed.

(* structural invariant of one t_mat slice, relative to the last filled index L *)
Definition tri_shape (L : nat) (M : mat F) : Prop :=
  (forall i j, mget A M i j = mget A M j i) /\
  (forall i j, [|| L < i, L < j, i.+1 < j | j.+1 < i] -> mget A M i j = a0 A).

Definition tri_ok (t : cg_tri F) : Prop :=
  size (tmat_ t) = Q /\ forall q, q < Q -> tri_shape (last_ t) (nth [::] (tmat_ t) q).

Definition tri_inv (k : nat) (t : cg_tri F) : Prop := last_ t <= k /\ tri_ok t.

Lemma tri_step_inv k s t : tri_inv k t -> tri_inv k.+1 (tstep k s t).
Proof.
case=> HL [Hsz HM]; rewrite /tri_step.
case: ifP => [/and3P [Hn Hk Hu]|_]; last by split => //; apply: leqW.
case: k HL Hk => [|k'] HL Hk /=.
- split => //; split; first by rewrite size_mkseq.
  move=> q hq; rewrite nth_mkseq //.
  have L0 : last_ t = 0 by apply/eqP; rewrite -leqn0.
  case: (HM q hq) => HS HZ; rewrite L0 in HZ.
  split=> i j; rewrite !mget_mset.
  + by rewrite andbC [(j == 0) && _]andbC HS.
  + move=> Hc; case: ifP => // _; case: ifP => [/andP [/eqP Ei /eqP Ej]|_]; last exact: HZ.
    by move: Hc; rewrite Ei Ej.
- split => //; split; first by rewrite size_mkseq.
  move=> q hq; rewrite nth_mkseq //=.
  case: (HM q hq) => HS HZ.
  have Hk' : k' < nti by apply: ltnW.
  set d := aadd A _ _; set o := sget A (mkseq _ Q) q.
  split=> i j; rewrite !mget_mset ?Hk ?Hk' ?eqxx /=.
  + rewrite [(j < nti) && (i < nti)]andbC HS; case Hin: ((i < nti) && (j < nti)); rewrite ?Hin //.
    by case: (i == k'); case: (i == k'.+1); case: (j == k'); case: (j == k'.+1).
  + move=> Hc; case Hin: ((i < nti) && (j < nti)); rewrite ?Hin //.
    case: ifP => [/andP [/eqP Ei /eqP Ej]|_]; first by lia.
    case: ifP => [/andP [/eqP Ei /eqP Ej]|_]; first by lia.
    case: ifP => [/andP [/eqP Ei /eqP Ej]|_]; first by lia.
    by apply: HZ; lia.
Qed.

(* along the run *)
Variables (n : nat) (mm pre : cols F -> cols F) (precond : bool).
Variables (eps stop_after tolerance : F) (rhs_is_zero : seq bool) (max_iter : nat).
Local Notation trace := (cg_trace A n C nc mm pre precond eps stop_after tolerance tri_thresh rhs_is_zero
                                  n_tridiag max_iter nti).

Lemma trace_tri fuel k s :
  tri_inv k (tri_ s) -> forall s', List.In s' (trace fuel k s) -> tri_ok (tri_ s').
Proof.
elim: fuel k s => [|f IH] k s Hi s' //=.
case: ifP => _ /=.
  by case=> [<-|//] /=; case: Hi.
have H2 := tri_step_inv (num_step A n C mm pre precond eps stop_after rhs_is_zero (num_ s)) Hi.
case=> [<-|] /=; first by case: H2.
exact: IH.
Qed.

(* ---------------------------------------------------------------------------------------- *)
(* the entries: CG coefficients -> Lanczos coefficients (lines 312-332)                      *)
Variable hist : nat -> cg_num F.       (* hist k = numeric state after loop body k *)

(* alpha_reciprocal and beta of tridiagonalised column q after loop body k (lines 312-317) *)
Definition ar_of (k q : nat) : F :=
  let a := sget A (alpha_ (hist k)) (nth 0 (tri_cols C nc n_tridiag) q) in
  adiv A (a1 A) (if aeqb A a (a0 A) then a1 A else a).
Definition bt_of (k q : nat) : F := sget A (beta_ (hist k)) (nth 0 (tri_cols C nc n_tridiag) q).

(* rows 1..last of slice q hold the converted coefficients; so does T[0,0] once a second row exists *)
Definition rows_ok (t : cg_tri F) (q : nat) : Prop :=
  let M := nth [::] (tmat_ t) q in
  (forall i, 0 < i <= last_ t ->
     mget A M i i = aadd A (ar_of i q) (amul A (bt_of i.-1 q) (ar_of i.-1 q)) /\
     mget A M i i.-1 = amul A (asqrt A (bt_of i.-1 q)) (ar_of i.-1 q)) /\
  (0 < last_ t -> mget A M 0 0 = ar_of 0 q).

Definition tf_inv (k : nat) (t : cg_tri F) : Prop :=
  [/\ k = 0 -> upd_ t /\ last_ t = 0,
      upd_ t -> 0 < n_tridiag -> 0 < k <= nti ->
        last_ t = k.-1 /\ forall q, q < Q ->
          [/\ sget A (par_ t) q = ar_of k.-1 q, sget A (pbeta_ t) q = bt_of k.-1 q &
              mget A (nth [::] (tmat_ t) q) 0 0 = ar_of 0 q],
      last_ t < nti \/ last_ t = 0 &
      forall q, q < Q -> rows_ok t q].

Lemma tf_step k t : tf_inv k t -> tf_inv k.+1 (tstep k (hist k) t).
Proof.
case=> HA HB HL HC; rewrite /tri_step.
case: ifP => [/and3P [Hn Hk Hu]|Hg].
- (* the update fires *)
  case: k HA HB Hk => [|k'] HA HB Hk.
  + (* k = 0 *)
    have [_ L0] := HA erefl.
    split => //=.
    * move=> _ _ _; split => // q hq.
      by split; rewrite ?nth_mkseq // ?mget_mset ?Hk ?eqxx /= ?sget_mkseq.
    * by left.
    * by move=> q hq; rewrite /rows_ok /=; split => // i /andP [i0 i1]; move: i0; rewrite ltnNge i1.
  + (* k = k'+1 *)
    have Hk' : k' < nti by apply: ltnW.
    have H0 : 0 < nti by apply: leq_ltn_trans Hk'.
    have Hrng : 0 < k'.+1 <= nti by rewrite /= ltnW.
    have [/= L Hq] := HB Hu Hn Hrng.
    split => //=.
    * move=> Hu' _ _; split => // q hq.
      have [Hp Hb H00] := Hq q hq.
      split; rewrite ?sget_mkseq // nth_mkseq // mget_mset3 // H0 /=.
      by rewrite andbF.
    * by left.
    * move=> q hq; have [Hp Hb H00] := Hq q hq.
      have [Hrows _] := HC q hq.
      rewrite /rows_ok /= nth_mkseq //; split; last first.
        by move=> _; rewrite mget_mset3 // H0 /= andbF.
      move=> i /andP [i0 ik]; rewrite !mget_mset3 //.
      move: ik; rewrite leq_eqVlt => /orP [/eqP ->|ik] /=.
        rewrite Hk Hk' !eqxx /= !sget_mkseq // Hp Hb.
        have -> : (k'.+1 == k') = false by lia.
        by [].
      have ilt : i < nti by apply: ltn_trans Hk.
      have i1lt : i.-1 < nti by apply: leq_ltn_trans (leq_pred i) ilt.
      rewrite ilt i1lt /=.
      have -> : (i == k'.+1) = false by lia.
      have -> : (i.-1 == k'.+1) = false by lia.
      rewrite /= !andbF.
      by apply: Hrows; rewrite i0 L -ltnS.
- (* no update: t is unchanged *)
  split => //.
  move=> Hu Hn /andP [_ Hk].
  by move: Hg; rewrite Hn Hu Hk.
Qed.

Lemma trace_tf fuel k s :
  (forall i, i < size (trace fuel k s) -> hist (k + i) = num_ (nth s (trace fuel k s) i)) ->
  tf_inv k (tri_ s) -> exists k', tf_inv k' (tri_ (last s (trace fuel k s))).
Proof.
elim: fuel k s => [|f IH] k s /=; first by move=> _ H; exists k.
case: ifP => _ /=; first by move=> _ H; exists k.
set s2 := MkSt _ _ _ _ => Hh Ht.
have Hk : hist k = num_ s2 by rewrite -[k in hist k]addn0; apply: Hh.
apply: (IH k.+1 s2).
  by move=> i hi; rewrite addSn -addnS (Hh i.+1) //= (set_nth_default s2 s).
by rewrite /s2 /= -[num_step _ _ _ _ _ _ _ _ _ _]/(num_ s2) -Hk; apply: tf_step.
Qed.

End Tmat.

Section TmatClosed.
Variables (F : Type) (A : Arith F).
Variables (S : cg_settings F) (g : cg_args F) (u : cg_setup F).
Local Notation Q := (size (tri_cols (size (g_rhs g)) (g_nc g) (g_n_tridiag g))).
Hypothesis Hprep : cg_prepare A S g = Ok u.

(* a square matrix of size m (list of rows), symmetric, zero outside the three central diagonals *)
Definition sym_tridiag (m : nat) (T : mat F) : Prop :=
  [/\ size T = m, forall i, i < m -> size (nth [::] T i) = m,
      forall i j, mget A T i j = mget A T j i &
      forall i j, (i.+1 < j) || (j.+1 < i) -> mget A T i j = a0 A].

Lemma s0_tri_inv : tri_inv A (size (g_rhs g)) (g_nc g) (g_n_tridiag g) 0 (tri_ (u_s0 u)).
Proof.
have [_ _ _ _ [_ _ _ HL HT]] := prepare_inv Hprep.
split; first by rewrite HL.
split; first by rewrite HT size_mkseq.
move=> q hq; rewrite HT nth_mkseq //; split => i j; rewrite !mget_mtab.
  by rewrite andbC.
by case: ifP.
Qed.

Lemma final_tri_ok : tri_ok A (size (g_rhs g)) (g_nc g) (g_n_tridiag g) (tri_ (cg_final A S g u)).
Proof.
rewrite /cg_final; case: (last_in (u_s0 u) (cg_states A S g u)) => [<-|]; first by case: s0_tri_inv.
exact: trace_tri s0_tri_inv _.
Qed.

Lemma tmat_none : g_n_tridiag g = 0 -> o_tmat (cg_finish A g u (cg_final A S g u)) = None.
Proof. by rewrite /cg_finish /= => ->. Qed.

Lemma tmat_shape :
  0 < g_n_tridiag g ->
  let sf := cg_final A S g u in
  let m := minn (last_ (tri_ sf)).+1 (u_nti u) in
  exists Ts, [/\ o_tmat (cg_finish A g u sf) = Some Ts, size Ts = Q &
                 forall q, q < Q -> sym_tridiag m (nth [::] Ts q)].
Proof.
move=> Hn sf m; rewrite /cg_finish /= Hn.
case: final_tri_ok => Hsz HM.
eexists; split; first by [].
  by rewrite size_map.
move=> q hq; rewrite (nth_map [::]) ?Hsz //.
case: (HM q hq) => HS HZ.
split.
- by rewrite size_mkseq.
- by move=> i hi; rewrite nth_mkseq // size_mkseq.
- by move=> i j; rewrite !mget_mtab andbC HS.
- move=> i j Hc; rewrite mget_mtab; case: ifP => // _; apply: HZ.
  by rewrite Hc !orbT.
Qed.

(* entries, with the states of this run as history *)
Definition run_hist (k : nat) : cg_num F := num_ (nth (u_s0 u) (cg_states A S g u) k).

Definition tri_filled (q : nat) : Prop :=
  rows_ok A (size (g_rhs g)) (g_nc g) (g_n_tridiag g) run_hist (tri_ (cg_final A S g u)) q.

Lemma s0_tf_inv :
  tf_inv A (size (g_rhs g)) (g_nc g) (g_n_tridiag g) (u_nti u) run_hist 0 (tri_ (u_s0 u)).
Proof.
have [_ _ _ _ [_ _ HU HL HT]] := prepare_inv Hprep.
split => //; first by right.
by move=> q hq; rewrite /rows_ok HL; split => // i; rewrite ltnNge andbC; case: (i <= 0).
Qed.

Lemma final_tri_filled q : q < Q -> tri_filled q.
Proof.
move=> hq.
have [k' [_ _ _ H]] := @trace_tf F A (size (g_rhs g)) (g_nc g) (s_tri_thresh S) (g_n_tridiag g) (u_nti u)
   (g_n g) (u_mm u) (u_pre u) (u_precond u) (g_eps g) (g_stop_after g) (u_tolerance u) (u_rhs_is_zero u)
   (u_max_iter u) run_hist (u_n_iter u) 0 (u_s0 u) (fun i _ => erefl) s0_tf_inv.
exact: H.
Qed.

End TmatClosed.

