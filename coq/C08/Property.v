(* C08 — conjugate gradients: theorems about the Gallina transcription [linear_cg] of
   linear_operator/utils/linear_cg.py (coq/C08/Model.v).  Only statements live here; each is closed by
   `exact`/`apply` of a lemma of Proofs*.v.  The very same terms ([cg_prepare], [cg_states], [cg_final],
   [cg_finish], [linear_cg]) are executed on binary64 against the implementation by the correspondence
   shards (coq/C08/Check.v instantiates the model with [ArFloat]).

   Arithmetic instances (ProofsBase.v):
     [RA dv sq ab lt le eq] — any commutative ring R with its own 0 1 + - * ; division, square root, absolute
        value and the three comparisons are ARBITRARY functions (so the theorem also covers every way the
        safe divisions, masks and thresholds could come out);
     [FA F] — a real closed field F with its real division, Num.sqrt, |.|, <, <=, ==.
   The matmul closure is any function on column lists that multiplies flat column j by a matrix [Am j]
   ([col_linear]; the dense closure of a tensor argument is one: [cg_dense_closure_linear]).
   All sizes n, all numbers of columns / batch members C, all iteration limits, all settings: universally
   quantified.  Theorems 10-17 are about REGULAR stretches of a run: loop bodies in which no threshold fires on the
   column ([run_regular]: not frozen, p^T A p >= eps, r^T z >= eps, so both quotients are exact) — the regime
   "above the accuracy floor" of the property text; there the run is textbook (preconditioned) CG.
   NOT proved here: the Chebyshev rate 2((sqrt k - 1)/(sqrt k + 1))^j (see design_notes/C08.md). *)
From mathcomp Require Import all_ssreflect all_algebra.
Require Import C08.Model C08.ProofsBase C08.ProofsResidual C08.ProofsColumns C08.ProofsGuards
               C08.ProofsScaling C08.ProofsTmat C08.ProofsEnergy C08.ProofsConjugacy C08.ProofsExact C08.ProofsExample C08.ProofsSwitch.
Set Implicit Arguments.
Unset Strict Implicit.
Unset Printing Implicit Defensive.
Import Order.Theory GRing.Theory Num.Theory.
Local Open Scope ring_scope.

(* all states of a run: the state before the loop, then the state after loop body 1, 2, ... *)
Notation run_states A S g u := (u_s0 u :: cg_states A S g u).

(* ------------------------------------------------------------------------------------------------ *)
(* 1. The residual carried by the loop is the true residual of the iterate carried by the loop, at every
      iteration, for every column, with or without preconditioner (any function at all), whatever alpha and
      beta are (frozen columns, fired safe divisions), from any initial guess.                          *)
Theorem cg_true_residual :
  forall (R : comRingType) (dv : R -> R -> R) (sq ab : R -> R) (lt le eq : R -> R -> bool),
  let A := RA dv sq ab lt le eq in
  forall (S : cg_settings R) (g : cg_args R) (u : cg_setup R) (Am : nat -> 'M[R]_(g_n g)),
  cg_prepare A S g = Ok u ->
  col_linear (size (g_rhs g)) Am (u_mm u) ->
  forall s, List.In s (run_states A S g u) ->
  forall j, (j < size (g_rhs g))%N ->
    cv (g_n g) (cget (r_ (num_ s)) j)
    = cv (g_n g) (cget (u_rhs u) j) - Am j *m cv (g_n g) (cget (x_ (num_ s)) j).
Proof. move=> R dv sq ab lt le eq A S g u Am Hp Hl s Hs; exact: (all_true_res Hp Hl Hs). Qed.

(* 2. Finishing without a NumericalWarning (after at least one iteration was allowed) means the stopping rule
      fired: the mean over all columns of the norms of the TRUE residuals of the returned (normalised) iterate,
      zero-rhs columns counted as 0, is below the tolerance.                                              *)
Theorem cg_no_warning_bound :
  forall (R : comRingType) (dv : R -> R -> R) (sq ab : R -> R) (lt le eq : R -> R -> bool),
  let A := RA dv sq ab lt le eq in
  forall (S : cg_settings R) (g : cg_args R) (u : cg_setup R) (Am : nat -> 'M[R]_(g_n g)),
  cg_prepare A S g = Ok u ->
  col_linear (size (g_rhs g)) Am (u_mm u) ->
  let sf := cg_final A S g u in
  o_warn (cg_finish A g u sf) = false -> (0 < u_n_iter u)%N ->
  lt (mean A (size (g_rhs g)) (norms_masked A (g_n g) (size (g_rhs g)) (u_rhs_is_zero u) (r_ (num_ sf))))
     (u_tolerance u)
  /\ forall j, (j < size (g_rhs g))%N ->
       cv (g_n g) (cget (r_ (num_ sf)) j)
       = cv (g_n g) (cget (u_rhs u) j) - Am j *m cv (g_n g) (cget (x_ (num_ sf)) j).
Proof.
move=> R dv sq ab lt le eq A S g u Am Hp Hl sf Hw Hn.
by have [H1 _ H3] := no_warning_stop Hp Hl Hw Hn.
Qed.

(* 3. A column whose right-hand side is zero yields exactly zero from the default zero initial guess: the
      iterate, residual and search direction of that column are zero at every iteration, and so is the
      returned column.  (Needs 0 / y = 0, true of fields; the preconditioner must be column-wise linear.) *)
Theorem cg_zero_column :
  forall (R : comRingType) (dv : R -> R -> R) (sq ab : R -> R) (lt le eq : R -> R -> bool),
  (forall y, dv 0 y = 0) ->
  let A := RA dv sq ab lt le eq in
  forall (S : cg_settings R) (g : cg_args R) (u : cg_setup R) (Am Mm : nat -> 'M[R]_(g_n g)),
  cg_prepare A S g = Ok u ->
  col_linear (size (g_rhs g)) Am (u_mm u) ->
  col_linear (size (g_rhs g)) Mm (u_pre u) ->
  g_x0 g = None ->
  forall j, (j < size (g_rhs g))%N ->
  (forall i, (i < g_n g)%N -> vget A (cget (g_rhs g) j) i = 0) ->
  (forall s, List.In s (run_states A S g u) -> forall i, (i < g_n g)%N ->
     vget A (cget (x_ (num_ s)) j) i = 0) /\
  (forall i, (i < g_n g)%N -> vget A (cget (o_res (cg_finish A g u (cg_final A S g u))) j) i = 0).
Proof.
move=> R dv sq ab lt le eq dv0 A S g u Am Mm Hp Hm Hpre Hx j hj Hb; split.
  by move=> s Hs i hi; case: (all_zcol dv0 Hp Hm Hpre Hx hj Hb Hs hi).
exact: (zero_result dv0 Hp Hm Hpre Hx hj Hb).
Qed.

(* 4. Once a column is marked converged (has_converged, i.e. its masked residual norm fell below
      stop_updating_after) it is never changed again: in every later state it is still marked, and its
      iterate and residual entries are the same.  Any closure, any preconditioner.                        *)
Theorem cg_frozen_stays :
  forall (F : rcfType) (S : cg_settings F) (g : cg_args F) (u : cg_setup F),
  cg_prepare (FA F) S g = Ok u ->
  forall j, (j < size (g_rhs g))%N ->
  forall i1 i2, let sts := run_states (FA F) S g u in
  (i1 <= i2 < size sts)%N ->
  let a := num_ (nth (u_s0 u) sts i1) in let b := num_ (nth (u_s0 u) sts i2) in
  bget (conv_ a) j ->
  [/\ bget (conv_ b) j,
      cv (g_n g) (cget (x_ b) j) = cv (g_n g) (cget (x_ a) j) &
      cv (g_n g) (cget (r_ b) j) = cv (g_n g) (cget (r_ a) j)].
Proof. move=> F S g u Hp j hj i1 i2 sts Hi; exact: (frozen_pair Hp hj Hi). Qed.

(* 5. linear_cg (c * rhs, c * initial_guess) = c * linear_cg (rhs, initial_guess) for c > 0 — same raise,
      same t_mat, same warning, same iteration count — provided no column is below eps before or after. *)
Theorem cg_scaling :
  forall (F : rcfType) (c : F), 0 < c ->
  forall (S : cg_settings F) (g : cg_args F),
  (forall j, (j < size (g_rhs g))%N -> (norm2 (FA F) (g_n g) (cget (g_rhs g) j) < g_eps g) = false) ->
  (forall j, (j < size (g_rhs g))%N -> (c * norm2 (FA F) (g_n g) (cget (g_rhs g) j) < g_eps g) = false) ->
  linear_cg (FA F) S (scale_args c g)
  = match linear_cg (FA F) S g with Ok o => Ok (scale_out c o) | Err e => Err e end.
Proof. move=> F c Hc S g H1 H2; exact: scaling. Qed.

(* 6. The raises (any arithmetic, including binary64): linear_cg raises "tridiagonalization larger than the
      number of CG iterations" iff max_tridiag_iter > max_iter; otherwise "must be a tensor or callable" iff the
      closure is neither; otherwise "NaNs encountered" iff the first residual has an entry x with x != x;
      otherwise it returns.                                                                              *)
Theorem cg_guards :
  forall (F : Type) (A : Arith F) (S : cg_settings F) (g : cg_args F),
  match linear_cg A S g with
  | Err ErrTridiagLimit => (eff_max_iter S g < eff_max_tridiag_iter S g)%N
  | Err ErrNotCallable => (eff_max_tridiag_iter S g <= eff_max_iter S g)%N /\ closure_fun A (g_nc g) (g_mc g) = None
  | Err ErrNaN => (eff_max_tridiag_iter S g <= eff_max_iter S g)%N /\
                  exists2 mm, closure_fun A (g_nc g) (g_mc g) = Some mm & ~~ no_nan A (residual0 A g mm)
  | Ok _ => (eff_max_tridiag_iter S g <= eff_max_iter S g)%N /\
            exists2 mm, closure_fun A (g_nc g) (g_mc g) = Some mm & no_nan A (residual0 A g mm)
  end.
Proof. move=> F A S g; exact: (guards A S g). Qed.

(* 7. With n_tridiag > 0 one matrix per tridiagonalised column is returned; each is square of size
      min(last_tridiag_iter + 1, n_tridiag_iter), symmetric, and zero outside the three central diagonals.
      Without n_tridiag nothing is returned.  Any arithmetic.                                            *)
Theorem cg_tmat_shape :
  forall (F : Type) (A : Arith F) (S : cg_settings F) (g : cg_args F) (u : cg_setup F),
  cg_prepare A S g = Ok u ->
  let sf := cg_final A S g u in
  let o := cg_finish A g u sf in
  if (0 < g_n_tridiag g)%N then
    exists Ts, [/\ o_tmat o = Some Ts,
                   size Ts = size (tri_cols (size (g_rhs g)) (g_nc g) (g_n_tridiag g)) &
                   forall q, (q < size Ts)%N ->
                     sym_tridiag A (minn (last_ (tri_ sf)).+1 (u_nti u)) (nth [::] Ts q)]
  else o_tmat o = None.
Proof.
move=> F A S g u Hp sf o; case: ifP => Hn.
  have [Ts [H1 H2 H3]] := tmat_shape Hp Hn.
  by exists Ts; split => // q; rewrite H2; apply: H3.
by apply: tmat_none; move: Hn; case: (g_n_tridiag g).
Qed.

(* 8. ... and its entries are the CG-to-Lanczos conversion of the coefficients of the run: with
      ar k = 1 / (alpha_k, exact zeros replaced by 1) and bt k = beta_k of the tridiagonalised column after loop
      body k, row i >= 1 holds  ar i + bt (i-1) * ar (i-1)  on the diagonal and  sqrt (bt (i-1)) * ar (i-1)  next
      to it (the matrix is symmetric by 7), and T[0,0] = ar 0 as soon as a second row exists.  The returned
      matrix is the leading m x m block of the accumulated one.  Any arithmetic.                           *)
Theorem cg_tmat_entries :
  forall (F : Type) (A : Arith F) (S : cg_settings F) (g : cg_args F) (u : cg_setup F),
  cg_prepare A S g = Ok u ->
  let sf := cg_final A S g u in
  let h := fun k => num_ (nth (u_s0 u) (cg_states A S g u) k) in
  forall q, (q < size (tri_cols (size (g_rhs g)) (g_nc g) (g_n_tridiag g)))%N ->
  let M := nth [::] (tmat_ (tri_ sf)) q in
  let col := nth 0%N (tri_cols (size (g_rhs g)) (g_nc g) (g_n_tridiag g)) q in
  let ar := fun k => adiv A (a1 A) (let a := sget A (alpha_ (h k)) col in
                                    if aeqb A a (a0 A) then a1 A else a) in
  let bt := fun k => sget A (beta_ (h k)) col in
  (forall i, (0 < i <= last_ (tri_ sf))%N ->
     mget A M i i = aadd A (ar i) (amul A (bt i.-1) (ar i.-1)) /\
     mget A M i i.-1 = amul A (asqrt A (bt i.-1)) (ar i.-1)) /\
  ((0 < last_ (tri_ sf))%N -> mget A M 0 0 = ar 0%N).
Proof. move=> F A S g u Hp sf h q hq; exact: (final_tri_filled Hp hq). Qed.

Theorem cg_tmat_returned :
  forall (F : Type) (A : Arith F) (g : cg_args F) (u : cg_setup F) (sf : cg_state F),
  (0 < g_n_tridiag g)%N ->
  let m := minn (last_ (tri_ sf)).+1 (u_nti u) in
  o_tmat (cg_finish A g u sf) = Some [seq mtab m m (fun i j => mget A M i j) | M <- tmat_ (tri_ sf)].
Proof. by move=> F A g u sf Hn m; rewrite /cg_finish /= Hn. Qed.

(* 9. The A-norm of the error never increases (SPD not even needed: symmetric A_j, and the run never hits the
      p^T A p < eps safe division on a column that is still being updated).  e_k = x* - x_k for any x* with
      A_j x* = normalised rhs;  E(s) = e^T A_j e.                                                           *)
Theorem cg_anorm_monotone :
  forall (F : rcfType) (S : cg_settings F) (g : cg_args F) (u : cg_setup F) (Am : nat -> 'M[F]_(g_n g)),
  cg_prepare (FA F) S g = Ok u ->
  col_linear (size (g_rhs g)) Am (u_mm u) ->
  forall j, (j < size (g_rhs g))%N ->
  forall xs : 'cV[F]_(g_n g),
  (Am j)^T = Am j -> Am j *m xs = cv (g_n g) (cget (u_rhs u) j) ->
  0 < g_eps g ->
  no_breakdown (g_n g) (u_mm u) (g_eps g) j (num_ (u_s0 u) :: map (@num_ F) (cg_states (FA F) S g u)) ->
  forall i1 i2, let sts := run_states (FA F) S g u in
  (i1 <= i2 < size sts)%N ->
  energy (Am j) xs (cv (g_n g) (cget (x_ (num_ (nth (u_s0 u) sts i2))) j))
  <= energy (Am j) xs (cv (g_n g) (cget (x_ (num_ (nth (u_s0 u) sts i1))) j)).
Proof. move=> F S g u Am Hp Hl j hj xs Hs Hx He Hnb i1 i2 sts Hi; exact: (energy_pair Hp Hl hj Hs Hx He Hnb Hi). Qed.

(* ------------------------------------------------------------------------------------------------ *)
(* Regular stretches of a run.  Notation (ProofsExact.v), for a flat column j:
     rhist S g u k          numeric state k of the run (0 = before the loop, k = after loop body k)
     xv n j s, rv n j s, zv n j s, pv n j s   column j of result / residual / precond_residual / curr_conjugate_vec
     regular n mm eps j s   no threshold fires on column j in the loop body executed from s:
                            has_converged[j] = false, (p^T A p < eps) = false, (r^T z < eps) = false
     run_regular S g u j K  the first K loop bodies exist and each is regular on column j.
   A = Am j is the (symmetric) matrix of the matmul closure on column j, M = Mm j that of the preconditioner
   (symmetric; without a preconditioner u_pre is the identity and M = 1).                              *)

(* 10. Conjugacy: along a regular stretch the residuals are mutually M-orthogonal and the search directions
       mutually A-conjugate (induction over the iteration count; any n, any K).                         *)
Theorem cg_conjugacy :
  forall (F : rcfType) (S : cg_settings F) (g : cg_args F) (u : cg_setup F) (Am Mm : nat -> 'M[F]_(g_n g)),
  cg_prepare (FA F) S g = Ok u ->
  col_linear (size (g_rhs g)) Am (u_mm u) -> col_linear (size (g_rhs g)) Mm (u_pre u) ->
  forall j, (j < size (g_rhs g))%N -> (Am j)^T = Am j -> (Mm j)^T = Mm j -> 0 < g_eps g ->
  forall K, run_regular S g u j K ->
  forall i k, (i < k <= K)%N ->
  sdot (rv (g_n g) j (rhist S g u k)) (Mm j *m rv (g_n g) j (rhist S g u i)) = 0 /\
  sdot (pv (g_n g) j (rhist S g u k)) (Am j *m pv (g_n g) j (rhist S g u i)) = 0.
Proof. move=> F S g u Am Mm Hp Hl Hpl j hj Hs Hm He K Hr i k; exact: (conjugacy_run Hp Hl Hpl hj Hs Hm He Hr). Qed.

(* 11. Finite termination: a regular stretch has at most n loop bodies — in exact arithmetic some threshold
       (freeze or safe division) fires at the latest in loop body n + 1.                                *)
Theorem cg_finite_termination :
  forall (F : rcfType) (S : cg_settings F) (g : cg_args F) (u : cg_setup F) (Am Mm : nat -> 'M[F]_(g_n g)),
  cg_prepare (FA F) S g = Ok u ->
  col_linear (size (g_rhs g)) Am (u_mm u) -> col_linear (size (g_rhs g)) Mm (u_pre u) ->
  forall j, (j < size (g_rhs g))%N -> (Am j)^T = Am j -> (Mm j)^T = Mm j -> 0 < g_eps g ->
  forall K, run_regular S g u j K -> (K <= g_n g)%N.
Proof. move=> F S g u Am Mm Hp Hl Hpl j hj Hs Hm He K; exact: (regular_at_most_n Hp Hl Hpl hj Hs Hm He). Qed.

(* 12. Exactness at full dimension: after n regular loop bodies the (normalised) iterate solves the system;
       if A is invertible it is A^-1 b_hat.  (A is not assumed positive definite: if it is not, the hypothesis
       run_regular fails somewhere.)                                                                     *)
Theorem cg_exact_at_n :
  forall (F : rcfType) (S : cg_settings F) (g : cg_args F) (u : cg_setup F) (Am Mm : nat -> 'M[F]_(g_n g)),
  cg_prepare (FA F) S g = Ok u ->
  col_linear (size (g_rhs g)) Am (u_mm u) -> col_linear (size (g_rhs g)) Mm (u_pre u) ->
  forall j, (j < size (g_rhs g))%N -> (Am j)^T = Am j -> (Mm j)^T = Mm j -> 0 < g_eps g ->
  run_regular S g u j (g_n g) ->
  Am j *m xv (g_n g) j (rhist S g u (g_n g)) = cv (g_n g) (cget (u_rhs u) j) /\
  (Am j \in unitmx ->
   xv (g_n g) j (rhist S g u (g_n g)) = invmx (Am j) *m cv (g_n g) (cget (u_rhs u) j)).
Proof.
move=> F S g u Am Mm Hp Hl Hpl j hj Hs Hm He Hr; split.
  exact: (exact_at_n Hp Hl Hpl hj Hs Hm He Hr).
exact: (same_limit Hp Hl Hpl hj Hs Hm He Hr).
Qed.

(* 13. The preconditioner changes only the path, never the limit: two calls that differ only in the
       `preconditioner` argument (None or any callable that is column-wise a symmetric matrix) have the same
       iterate after n regular loop bodies each.                                                         *)
Theorem cg_precond_same_limit :
  forall (F : rcfType) (S : cg_settings F) (g : cg_args F) (p1 p2 : option (cols F -> cols F))
         (u1 u2 : cg_setup F) (Am M1 M2 : nat -> 'M[F]_(g_n g)),
  cg_prepare (FA F) S (with_pre g p1) = Ok u1 -> cg_prepare (FA F) S (with_pre g p2) = Ok u2 ->
  col_linear (size (g_rhs g)) Am (u_mm u1) -> col_linear (size (g_rhs g)) Am (u_mm u2) ->
  col_linear (size (g_rhs g)) M1 (u_pre u1) -> col_linear (size (g_rhs g)) M2 (u_pre u2) ->
  forall j, (j < size (g_rhs g))%N ->
  (Am j)^T = Am j -> (M1 j)^T = M1 j -> (M2 j)^T = M2 j -> 0 < g_eps g -> Am j \in unitmx ->
  run_regular S (with_pre g p1) u1 j (g_n g) -> run_regular S (with_pre g p2) u2 j (g_n g) ->
  xv (g_n g) j (rhist S (with_pre g p1) u1 (g_n g)) = xv (g_n g) j (rhist S (with_pre g p2) u2 (g_n g)).
Proof.
move=> F S g p1 p2 u1 u2 Am M1 M2 H1 H2 L1 L2 P1 P2 j hj Hs Hm1 Hm2 He HU R1 R2.
exact: (same_limit_two H1 H2 L1 L2 P1 P2 hj Hs Hm1 Hm2 He HU R1 R2).
Qed.

(* 14. Optimality: for positive semi-definite A the iterate after k regular loop bodies minimises the A-norm of
       the error over  x_0 + span{p_0, .., p_(k-1)}  (the span of the search directions used so far; 14b: it
       contains the Krylov space of M A started at z_0).  xs is any solution of A xs = b_hat. *)
Theorem cg_optimal_over_directions :
  forall (F : rcfType) (S : cg_settings F) (g : cg_args F) (u : cg_setup F) (Am Mm : nat -> 'M[F]_(g_n g)),
  cg_prepare (FA F) S g = Ok u ->
  col_linear (size (g_rhs g)) Am (u_mm u) -> col_linear (size (g_rhs g)) Mm (u_pre u) ->
  forall j, (j < size (g_rhs g))%N -> (Am j)^T = Am j -> (Mm j)^T = Mm j -> 0 < g_eps g ->
  forall K (xs : 'cV[F]_(g_n g)), run_regular S g u j K ->
  Am j *m xs = cv (g_n g) (cget (u_rhs u) j) ->
  (forall v : 'cV[F]_(g_n g), 0 <= sdot v (Am j *m v)) ->
  forall k (c : 'I_k -> F), (k <= K)%N ->
  energy (Am j) xs (xv (g_n g) j (rhist S g u k))
  <= energy (Am j) xs (xv (g_n g) j (rhist S g u 0) + \sum_(i < k) c i *: pv (g_n g) j (rhist S g u i)).
Proof.
move=> F S g u Am Mm Hp Hl Hpl j hj Hs Hm He K xs Hr Hx Hpsd k c hk.
exact: (optimal_run Hp Hl Hpl hj Hs Hm He Hr Hx Hpsd c hk).
Qed.

(* 14b. ... in particular over the Krylov space: x_k minimises the A-norm of the error over
        x_0 + span{z_0, (M A) z_0, .., (M A)^(k-1) z_0}  — the first half of the classical convergence proof.  (The
        second half, bounding min over polynomials by the Chebyshev polynomial on [lambda_min, lambda_max], needs the
        spectral theorem and is NOT proved.)                                                             *)
Theorem cg_optimal_over_krylov :
  forall (F : rcfType) (S : cg_settings F) (g : cg_args F) (u : cg_setup F) (Am Mm : nat -> 'M[F]_(g_n g)),
  cg_prepare (FA F) S g = Ok u ->
  col_linear (size (g_rhs g)) Am (u_mm u) -> col_linear (size (g_rhs g)) Mm (u_pre u) ->
  forall j, (j < size (g_rhs g))%N -> (Am j)^T = Am j -> (Mm j)^T = Mm j -> 0 < g_eps g ->
  forall K (xs : 'cV[F]_(g_n g)), run_regular S g u j K ->
  Am j *m xs = cv (g_n g) (cget (u_rhs u) j) ->
  (forall v : 'cV[F]_(g_n g), 0 <= sdot v (Am j *m v)) ->
  forall k (c : 'I_k -> F), (k <= K)%N ->
  energy (Am j) xs (xv (g_n g) j (rhist S g u k))
  <= energy (Am j) xs (xv (g_n g) j (rhist S g u 0) +
                       \sum_(i < k) c i *: iter i (fun v => Mm j *m (Am j *m v)) (zv (g_n g) j (rhist S g u 0))).
Proof.
move=> F S g u Am Mm Hp Hl Hpl j hj Hs Hm He K xs Hr Hx Hpsd k c hk.
exact: (optimal_krylov_run Hp Hl Hpl hj Hs Hm He Hr Hx Hpsd c hk).
Qed.

(* 15. The returned tridiagonal matrix is the Lanczos matrix of the preconditioned operator.  For the q-th
       tridiagonalised column (flat column col), T its accumulated t_mat slice, L = last_tridiag_iter > 0, and a
       run that is regular on that column in loop bodies 1 .. L+1:  with the vectors
           w_k = (-1)^k r_k / sqrt(r_k . z_k)      ([lanczos_vec], k <= L)
       (i)   W^T M W = I                                   (M-orthonormal),
       (ii)  T[i,k] = (M w_i)^T A (M w_k)  for all i, k <= L    (T = W^T (M A M) W; equivalently
             T = Q^T (M^1/2 A M^1/2) Q for the orthonormal Q = M^1/2 W when M is positive definite),
       (iii) (A M) w_k = T[k+1,k] w_(k+1) + T[k,k] w_k + T[k,k-1] w_(k-1)  for k < L  (Lanczos recurrence),
       (iv)  w_0 = r_0 / sqrt(r_0 . z_0), and r_0 is the normalised right-hand side when no initial guess is given.
       By cg_tmat_returned the returned matrix is the leading (L+1) x (L+1) block of T.                    *)
Theorem cg_tridiag_is_lanczos :
  forall (F : rcfType) (S : cg_settings F) (g : cg_args F) (u : cg_setup F) (Am Mm : nat -> 'M[F]_(g_n g)),
  cg_prepare (FA F) S g = Ok u ->
  col_linear (size (g_rhs g)) Am (u_mm u) -> col_linear (size (g_rhs g)) Mm (u_pre u) -> 0 < g_eps g ->
  forall q, (q < size (tri_cols (size (g_rhs g)) (g_nc g) (g_n_tridiag g)))%N ->
  let col := nth 0%N (tri_cols (size (g_rhs g)) (g_nc g) (g_n_tridiag g)) q in
  (Am col)^T = Am col -> (Mm col)^T = Mm col ->
  let sf := cg_final (FA F) S g u in
  let L := last_ (tri_ sf) in
  let T := nth [::] (tmat_ (tri_ sf)) q in
  (0 < L)%N ->
  (forall k, (k <= L)%N -> regular (g_n g) (u_mm u) (g_eps g) col (rhist S g u k)) ->
  let w := lanczos_vec S g u q in
  [/\ forall i k, (i <= L)%N -> (k <= L)%N -> sdot (w i) (Mm col *m w k) = (i == k)%:R,
      forall i k, (i <= L)%N -> (k <= L)%N ->
        mget (FA F) T i k = sdot (Mm col *m w i) (Am col *m (Mm col *m w k)),
      forall k, (k < L)%N ->
        Am col *m (Mm col *m w k)
        = mget (FA F) T k.+1 k *: w k.+1 + mget (FA F) T k k *: w k
          + (if k is k'.+1 then mget (FA F) T k k' *: w k' else 0) &
      w 0%N = (Num.sqrt (rzj col (rhist S g u 0)))^-1 *: rv (g_n g) col (rhist S g u 0) /\
      (g_x0 g = None -> rv (g_n g) col (rhist S g u 0) = cv (g_n g) (cget (u_rhs u) col))].
Proof.
move=> F S g u Am Mm Hp Hl Hpl He q hq col Hs Hm sf L T L0 Hreg w.
have Hr : run_regular S g u col L.+1 by split; [exact: last_lt_states | move=> k; rewrite ltnS; exact: Hreg].
split.
- by move=> i k; apply: (lanczos_vec_orthonormal Hp Hl Hpl He hq Hs Hm Hr).
- by move=> i k; apply: (T_is_projection Hp Hl Hpl He hq Hs Hm L0 Hr).
- by move=> k; apply: (T_recurrence Hp Hl Hpl He hq Hs Hm L0 Hr).
- split; first exact: (lanczos_vec0 Hp Hpl hq Hr).
  by move=> Hx; apply: (r0_is_rhs Hp Hl (col_lt hq) Hx).
Qed.

(* 16. ... and at full dimension (last_tridiag_iter + 1 = n, i.e. n regular tridiagonalised loop bodies) its moments
       are those of the preconditioned operator:  (T^p)[i,k] = (M w_i)^T (A M)^p w_k  for every p; for i = k = 0 this
       is  e1^T T^p e1 = z^T Ahat^p z  with  Ahat = M^1/2 A M^1/2,  z = M^1/2 w_0  the normalised start vector — the
       identity  e1^T f(T) e1 = z^T f(Ahat) z  of the property text for every polynomial f (by linearity).  T^p is
       written  iter p (mulmx T) 1  (no ring structure on 'M_n for a variable n).                              *)
Theorem cg_tridiag_moments :
  forall (F : rcfType) (S : cg_settings F) (g : cg_args F) (u : cg_setup F) (Am Mm : nat -> 'M[F]_(g_n g)),
  cg_prepare (FA F) S g = Ok u ->
  col_linear (size (g_rhs g)) Am (u_mm u) -> col_linear (size (g_rhs g)) Mm (u_pre u) -> 0 < g_eps g ->
  forall q, (q < size (tri_cols (size (g_rhs g)) (g_nc g) (g_n_tridiag g)))%N ->
  let col := nth 0%N (tri_cols (size (g_rhs g)) (g_nc g) (g_n_tridiag g)) q in
  (Am col)^T = Am col -> (Mm col)^T = Mm col ->
  let sf := cg_final (FA F) S g u in
  let L := last_ (tri_ sf) in
  let T := nth [::] (tmat_ (tri_ sf)) q in
  (0 < L)%N -> g_n g = L.+1 ->
  (forall k, (k <= L)%N -> regular (g_n g) (u_mm u) (g_eps g) col (rhist S g u k)) ->
  let w := lanczos_vec S g u q in
  forall p (i k : 'I_(g_n g)),
  (iter p (mulmx (\matrix_(i0 < g_n g, k0 < g_n g) mget (FA F) T i0 k0)) 1%:M) i k
  = sdot (Mm col *m w i) (iter p (fun v => Am col *m (Mm col *m v)) (w k)).
Proof.
move=> F S g u Am Mm Hp Hl Hpl He q hq col Hs Hm sf L T L0 Hfull Hreg w p i k.
have Hr : run_regular S g u col L.+1 by split; [exact: last_lt_states | move=> k0; rewrite ltnS; exact: Hreg].
exact: (T_moments Hp Hl Hpl He hq Hs Hm L0 Hr Hfull).
Qed.

(* 17. Ritz values inside the spectrum: if  lo <= (M v)^T A (M v) / (v^T M v) <= hi  for all v (i.e. the spectrum of the
       preconditioned operator M^1/2 A M^1/2 lies in [lo, hi], stated without square roots), every eigenvalue of
       the returned (L+1) x (L+1) matrix lies in [lo, hi].  Any L > 0, not only full dimension.                 *)
Theorem cg_ritz_values_in_spectrum :
  forall (F : rcfType) (S : cg_settings F) (g : cg_args F) (u : cg_setup F) (Am Mm : nat -> 'M[F]_(g_n g)),
  cg_prepare (FA F) S g = Ok u ->
  col_linear (size (g_rhs g)) Am (u_mm u) -> col_linear (size (g_rhs g)) Mm (u_pre u) -> 0 < g_eps g ->
  forall q, (q < size (tri_cols (size (g_rhs g)) (g_nc g) (g_n_tridiag g)))%N ->
  let col := nth 0%N (tri_cols (size (g_rhs g)) (g_nc g) (g_n_tridiag g)) q in
  (Am col)^T = Am col -> (Mm col)^T = Mm col ->
  let sf := cg_final (FA F) S g u in
  let L := last_ (tri_ sf) in
  let T := nth [::] (tmat_ (tri_ sf)) q in
  (0 < L)%N ->
  (forall k, (k <= L)%N -> regular (g_n g) (u_mm u) (g_eps g) col (rhist S g u k)) ->
  forall lo hi : F,
  (forall v : 'cV[F]_(g_n g), lo * sdot v (Mm col *m v) <= sdot (Mm col *m v) (Am col *m (Mm col *m v))) ->
  (forall v : 'cV[F]_(g_n g), sdot (Mm col *m v) (Am col *m (Mm col *m v)) <= hi * sdot v (Mm col *m v)) ->
  forall (y : 'cV[F]_L.+1) (th : F),
  (\matrix_(i < L.+1, k < L.+1) mget (FA F) T i k) *m y = th *: y -> y != 0 -> lo <= th <= hi.
Proof.
move=> F S g u Am Mm Hp Hl Hpl He q hq col Hs Hm sf L T L0 Hreg lo hi Hlo Hhi y th.
have Hr : run_regular S g u col L.+1 by split; [exact: last_lt_states | move=> k0; rewrite ltnS; exact: Hreg].
exact: (T_ritz Hp Hl Hpl He hq Hs Hm L0 Hr Hlo Hhi).
Qed.

(* 18. The update_tridiag switch (lines 326-327) is a decision about ALL tridiagonalised columns / batch members: one
       loop body can turn it off only if it is not the first one and EVERY tridiagonalised column's newest off-diagonal
       T[k-1,k] is below the threshold — so a column whose own recurrence has not broken down is never truncated because
       another column's has (contrapositive: if some column's newest off-diagonal is >= the threshold, update_tridiag stays
       on).  Any sizes, any number of columns; real closed field (the order matters).                            *)
Theorem cg_tridiag_switch_all :
  forall (F : rcfType) (C nc : nat) (tri_thresh : F) (n_tridiag nti k : nat) (s : cg_num F) (t : cg_tri F),
  upd_ t -> upd_ (tri_step (FA F) C nc tri_thresh n_tridiag nti k s t) = false ->
  (0 < k)%N /\
  forall q, (q < size (tri_cols C nc n_tridiag))%N ->
    mget (FA F) (nth [::] (tmat_ (tri_step (FA F) C nc tri_thresh n_tridiag nti k s t)) q) k.-1 k < tri_thresh.
Proof. move=> F C nc th ntri nti k s t; exact: switch_all. Qed.

(* 19. The stopping rule never fires before the requested tridiagonalisation is complete: with n_tridiag > 0 the loop cannot
       break in loop body k + 1 while k < min(n_tridiag_iter, max_iter - 1), whatever the residuals and the tolerance (the
       clause an off-by-one in which silently returns an (m-1) x (m-1) matrix).  Any arithmetic, incl. binary64.   *)
Theorem cg_stop_waits_for_tridiag :
  forall (F : Type) (A : Arith F) (C : nat) (tolerance : F) (n_tridiag max_iter nti k : nat) (s : cg_num F),
  (0 < n_tridiag)%N -> (k < minn nti max_iter.-1)%N ->
  stop_rule A C tolerance n_tridiag max_iter nti k s = false.
Proof. move=> F A C tol ntri mi nti k s; exact: stop_waits. Qed.

(* the dense closure of a tensor argument (line 164) multiplies column j by the matrix of its batch member *)
Theorem cg_dense_closure_linear :
  forall (R : comRingType) (dv : R -> R -> R) (sq ab : R -> R) (lt le eq : R -> R -> bool)
         (n C nc : nat) (Ms : seq (mat R)),
  (forall j, (j < C)%N -> wf_mat n (nth [::] Ms (j %/ nc))) ->
  col_linear C (fun j => mx_of n (nth [::] Ms (j %/ nc))) (tensor_mm (RA dv sq ab lt le eq) nc Ms).
Proof. move=> R dv sq ab lt le eq n C nc Ms H; exact: tensor_mm_linear. Qed.

(* in exact arithmetic the NaN guard cannot fire: with consistent limits and a tensor / callable closure the
   preparation succeeds (so the hypotheses `cg_prepare A S g = Ok u` above are satisfiable for every such input) *)
Theorem cg_prepare_succeeds :
  forall (R : comRingType) (dv : R -> R -> R) (sq ab : R -> R) (lt le : R -> R -> bool),
  let A := RA dv sq ab lt le (fun x y => x == y) in
  forall (S : cg_settings R) (g : cg_args R) mm,
  (eff_max_tridiag_iter S g <= eff_max_iter S g)%N ->
  closure_fun A (g_nc g) (g_mc g) = Some mm ->
  exists2 u, cg_prepare A S g = Ok u & u_mm u = mm.
Proof. move=> R dv sq ab lt le A S g mm; exact: prepare_succeeds. Qed.

(* ------------------------------------------------------------------------------------------------ *)
(* Non-vacuity: the hypotheses of the theorems above are satisfiable.                                *)

(* a 2 x 2 system with two columns (the second one zero), dense tensor closure, Jacobi-like callable
   preconditioner, over any real closed field: preparation succeeds, both closures are column-wise linear, the
   second column is a zero column, and there is no initial guess *)
Section Examples.
Variable F : rcfType.
Let A := FA F.
Let Ms : seq (mat F) := [:: [:: [:: 2%:R; 1]; [:: 1; 2%:R]]].
Let Ps : seq (mat F) := [:: [:: [:: 2%:R^-1; 0]; [:: 0; 2%:R^-1]]].
Let S0 : cg_settings F := MkSettings 1000 20 1 false (1 / 1000000%:R).
Let g0 : cg_args F :=
  MkArgs (ClTensor Ms) 2 2 false [:: [:: 1; 2%:R]; [:: 0; 0]] 1 None (1 / 10%:R) (1 / 10%:R) (Some 5%N) (Some 2%N) None
         (Some (tensor_mm A 2 Ps)).

Example cg_hypotheses_satisfiable :
  exists u,
  [/\ cg_prepare A S0 g0 = Ok u,
      col_linear (size (g_rhs g0)) (fun j => mx_of 2 (nth [::] Ms (j %/ 2))) (u_mm u),
      col_linear (size (g_rhs g0)) (fun j => mx_of 2 (nth [::] Ps (j %/ 2))) (u_pre u),
      g_x0 g0 = None &
      forall i, (i < g_n g0)%N -> vget A (cget (g_rhs g0) 1) i = 0].
Proof.
have [u Hu Hm] : exists2 u, cg_prepare A S0 g0 = Ok u & u_mm u = tensor_mm A 2 Ms.
  exact: (@prepare_succeeds _ _ _ _ _ _ S0 g0).
exists u; split => //.
- by rewrite Hm; apply: tensor_mm_linear => j; rewrite /= => hj; rewrite divn_small //= !eqxx.
- have [_ [-> _ _ _ _] _ _ _] := prepare_inv Hu.
  by apply: tensor_mm_linear => j; rewrite /= => hj; rewrite divn_small //= !eqxx.
- by case=> [|[|i]].
Qed.

(* the no-column-is-zero hypotheses of cg_scaling: rhs = (1), eps = 1/10, scaling by any c >= 1 *)
Example cg_scaling_hypotheses_satisfiable (c : F) :
  1 <= c ->
  let g := MkArgs (ClTensor [:: [:: [:: 2%:R : F]]]) 1 1 false [:: [:: 1]] 0 None (1 / 10%:R) (1 / 10%:R)
                  None None None None in
  0 < c /\
  (forall j, (j < size (g_rhs g))%N -> (norm2 A (g_n g) (cget (g_rhs g) j) < g_eps g) = false) /\
  (forall j, (j < size (g_rhs g))%N -> (c * norm2 A (g_n g) (cget (g_rhs g) j) < g_eps g) = false).
Proof.
move=> Hc g.
have H10 : (1 / 10%:R : F) < 1.
  by rewrite div1r invf_lt1 ?ltr0n // ltr1n.
have Hn : norm2 A 1 [:: 1] = 1 by rewrite /norm2 /dot /= mulr1 add0r sqrtr1.
split; first exact: lt_le_trans ltr01 Hc.
split=> [] [|j] // _; rewrite [g_n g]/= [cget _ _]/= [g_eps g]/= Hn ?mulr1; apply/negbTE; rewrite -leNgt; apply: ltW => //.
exact: lt_le_trans H10 Hc.
Qed.

(* the hypotheses of theorems 10-13 (a regular stretch of length K = n > 0, symmetric invertible A, symmetric M) are
   satisfiable: the 1 x 1 system 2 x = 1 with eps = 1/10, stop_updating_after = 0, max_iter = 1, no preconditioner
   (ProofsExample.v), over any real closed field.  (Theorems 15-17 need two regular loop bodies, hence n >= 2: next Example.)            *)
Example cg_regular_run_satisfiable :
  exists u,
  [/\ cg_prepare A (ex_S1 F) (ex_g1 F) = Ok u,
      col_linear (size (g_rhs (ex_g1 F))) (fun j => mx_of 1 (nth [::] (ex_M1 F) (j %/ 1))) (u_mm u),
      col_linear (size (g_rhs (ex_g1 F))) (fun _ => 1%:M : 'M[F]_(g_n (ex_g1 F))) (u_pre u),
      [/\ (mx_of 1 (nth [::] (ex_M1 F) (0 %/ 1)))^T = mx_of 1 (nth [::] (ex_M1 F) (0 %/ 1)),
          (1%:M : 'M[F]_1)^T = 1%:M, mx_of 1 (nth [::] (ex_M1 F) (0 %/ 1)) \in unitmx & 0 < g_eps (ex_g1 F)] &
      run_regular (ex_S1 F) (ex_g1 F) u 0 (g_n (ex_g1 F))].
Proof. exact: ex_regular_run. Qed.

(* the hypotheses of theorems 15-17 (L = last_tridiag_iter > 0, full dimension n = L + 1, regular loop bodies 1..L+1 on
   the tridiagonalised column, symmetric A and M, eps > 0) are satisfiable: the 2 x 2 system [[2,1],[1,2]] x = (1,0),
   n_tridiag = 1, eps = 1/10, stop_updating_after = 0, max_iter = 3, max_tridiag_iter = 2 (ProofsExample.v), over any
   real closed field: r_0 = (1,0), alpha_0 = 1/2, r_1 = (0,-1/2), beta_0 = 1/4, p_1 = (1/4,-1/2), p_1^T A p_1 = 3/8. *)
Example cg_lanczos_run_satisfiable :
  exists u,
  [/\ cg_prepare A (ex_S2 F) (ex_g2 F) = Ok u,
      col_linear (size (g_rhs (ex_g2 F))) (fun j => mx_of 2 (nth [::] (ex_M2 F) (j %/ 1))) (u_mm u),
      col_linear (size (g_rhs (ex_g2 F))) (fun _ => 1%:M : 'M[F]_(g_n (ex_g2 F))) (u_pre u),
      [/\ (mx_of 2 (nth [::] (ex_M2 F) (0 %/ 1)))^T = mx_of 2 (nth [::] (ex_M2 F) (0 %/ 1)),
          (1%:M : 'M[F]_2)^T = 1%:M & 0 < g_eps (ex_g2 F)] &
      [/\ (0 < size (tri_cols (size (g_rhs (ex_g2 F))) (g_nc (ex_g2 F)) (g_n_tridiag (ex_g2 F))))%N,
          nth 0%N (tri_cols (size (g_rhs (ex_g2 F))) (g_nc (ex_g2 F)) (g_n_tridiag (ex_g2 F))) 0 = 0%N,
          (0 < last_ (tri_ (cg_final A (ex_S2 F) (ex_g2 F) u)))%N,
          g_n (ex_g2 F) = (last_ (tri_ (cg_final A (ex_S2 F) (ex_g2 F) u))).+1 &
          forall k, (k <= last_ (tri_ (cg_final A (ex_S2 F) (ex_g2 F) u)))%N ->
            regular (g_n (ex_g2 F)) (u_mm u) (g_eps (ex_g2 F)) 0 (rhist (ex_S2 F) (ex_g2 F) u k)]].
Proof. exact: ex_lanczos_run. Qed.

End Examples.
