(* C08 — placeholder while the proofs are being built (replaced below) *)
From mathcomp Require Import ssreflect ssrfun ssrbool eqtype ssrnat seq.
Require Import C08.Model.

Theorem cg_guard_tridiag_limit : forall F (A : Arith F) S (g : cg_args F),
  odflt (s_max_cg_iterations S) (g_max_iter g) < odflt (s_max_lanczos_quadrature_iterations S) (g_max_tridiag_iter g) ->
  linear_cg A S g = Err ErrTridiagLimit.
Proof. by move=> F A S g H; rewrite /linear_cg /cg_prepare H. Qed.
