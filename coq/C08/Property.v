(* C08 — conjugate gradients: theorems about the Gallina transcription [linear_cg] of
   linear_operator/utils/linear_cg.py (coq/C08/Model.v).  Only statements live here; each is closed by
   `exact`/`apply` of a lemma of Proofs*.v.  The very same terms ([cg_prepare], [cg_states], [cg_final],
   [cg_finish], [linear_cg]) are executed on binary64 against the implementation by the correspondence
   shards (coq/C08/Check.v instantiates the model with [ArFloat]).

   Arithmetic instances (ProofsBase.v):
     [RA dv sq ab lt le eq] — any commutative ring R with its own 0 1 + - * ; division, square root, absolute
        value and the three comparisons are ARBITRARY functions (so the theorem also covers every way the
        safe divisions, masks and thresholds could come out);
     [FA F] — a real closed field F with its real division, Num.sqrt, |.|, <, <=, ==.
   The matmul closure is any function on column lists that multiplies flat column j by a matrix [Am j]
   ([col_linear]; the dense closure of a tensor argument is one: [cg_dense_closure_linear]).
   All sizes n, all numbers of columns / batch members C, all iteration limits, all settings: universally
   quantified.  NOT proved here: the Chebyshev rate 2((sqrt k - 1)/(sqrt k + 1))^j, exactness after n steps,
   and T = Lanczos matrix of the preconditioned operator (see design_notes/C08.md). *)
From mathcomp Require Import all_ssreflect all_algebra.
Require Import C08.Model C08.ProofsBase C08.ProofsResidual C08.ProofsColumns C08.ProofsGuards
               C08.ProofsScaling C08.ProofsTmat C08.ProofsEnergy.
Set Implicit Arguments.
Unset Strict Implicit.
Unset Printing Implicit Defensive.
Import Order.Theory GRing.Theory Num.Theory.
Local Open Scope ring_scope.

(* all states of a run: the state before the loop, then the state after loop body 1, 2, ... *)
Notation run_states A S g u := (u_s0 u :: cg_states A S g u).

(* ------------------------------------------------------------------------------------------------ *)
(* 1. The residual carried by the loop is the true residual of the iterate carried by the loop, at every
      iteration, for every column, with or without preconditioner (any function at all), whatever alpha and
      beta are (frozen columns, fired safe divisions), from any initial guess.                          *)
Theorem cg_true_residual :
  forall (R : comRingType) (dv : R -> R -> R) (sq ab : R -> R) (lt le eq : R -> R -> bool),
  let A := RA dv sq ab lt le eq in
  forall (S : cg_settings R) (g : cg_args R) (u : cg_setup R) (Am : nat -> 'M[R]_(g_n g)),
  cg_prepare A S g = Ok u ->
  col_linear (size (g_rhs g)) Am (u_mm u) ->
  forall s, List.In s (run_states A S g u) ->
  forall j, (j < size (g_rhs g))%N ->
    cv (g_n g) (cget (r_ (num_ s)) j)
    = cv (g_n g) (cget (u_rhs u) j) - Am j *m cv (g_n g) (cget (x_ (num_ s)) j).
Proof. move=> R dv sq ab lt le eq A S g u Am Hp Hl s Hs; exact: (all_true_res Hp Hl Hs). Qed.

(* 2. Finishing without a NumericalWarning (after at least one iteration was allowed) means the stopping rule
      fired: the mean over all columns of the norms of the TRUE residuals of the returned (normalised) iterate,
      zero-rhs columns counted as 0, is below the tolerance.                                              *)
Theorem cg_no_warning_bound :
  forall (R : comRingType) (dv : R -> R -> R) (sq ab : R -> R) (lt le eq : R -> R -> bool),
  let A := RA dv sq ab lt le eq in
  forall (S : cg_settings R) (g : cg_args R) (u : cg_setup R) (Am : nat -> 'M[R]_(g_n g)),
  cg_prepare A S g = Ok u ->
  col_linear (size (g_rhs g)) Am (u_mm u) ->
  let sf := cg_final A S g u in
  o_warn (cg_finish A g u sf) = false -> (0 < u_n_iter u)%N ->
  lt (mean A (size (g_rhs g)) (norms_masked A (g_n g) (size (g_rhs g)) (u_rhs_is_zero u) (r_ (num_ sf))))
     (u_tolerance u)
  /\ forall j, (j < size (g_rhs g))%N ->
       cv (g_n g) (cget (r_ (num_ sf)) j)
       = cv (g_n g) (cget (u_rhs u) j) - Am j *m cv (g_n g) (cget (x_ (num_ sf)) j).
Proof.
move=> R dv sq ab lt le eq A S g u Am Hp Hl sf Hw Hn.
by have [H1 _ H3] := no_warning_stop Hp Hl Hw Hn.
Qed.

(* 3. A column whose right-hand side is zero yields exactly zero from the default zero initial guess: the
      iterate, residual and search direction of that column are zero at every iteration, and so is the
      returned column.  (Needs 0 / y = 0, true of fields; the preconditioner must be column-wise linear.) *)
Theorem cg_zero_column :
  forall (R : comRingType) (dv : R -> R -> R) (sq ab : R -> R) (lt le eq : R -> R -> bool),
  (forall y, dv 0 y = 0) ->
  let A := RA dv sq ab lt le eq in
  forall (S : cg_settings R) (g : cg_args R) (u : cg_setup R) (Am Mm : nat -> 'M[R]_(g_n g)),
  cg_prepare A S g = Ok u ->
  col_linear (size (g_rhs g)) Am (u_mm u) ->
  col_linear (size (g_rhs g)) Mm (u_pre u) ->
  g_x0 g = None ->
  forall j, (j < size (g_rhs g))%N ->
  (forall i, (i < g_n g)%N -> vget A (cget (g_rhs g) j) i = 0) ->
  (forall s, List.In s (run_states A S g u) -> forall i, (i < g_n g)%N ->
     vget A (cget (x_ (num_ s)) j) i = 0) /\
  (forall i, (i < g_n g)%N -> vget A (cget (o_res (cg_finish A g u (cg_final A S g u))) j) i = 0).
Proof.
move=> R dv sq ab lt le eq dv0 A S g u Am Mm Hp Hm Hpre Hx j hj Hb; split.
  by move=> s Hs i hi; case: (all_zcol dv0 Hp Hm Hpre Hx hj Hb Hs hi).
exact: (zero_result dv0 Hp Hm Hpre Hx hj Hb).
Qed.

(* 4. Once a column is marked converged (has_converged, i.e. its masked residual norm fell below
      stop_updating_after) it is never changed again: in every later state it is still marked, and its
      iterate and residual entries are the same.  Any closure, any preconditioner.                        *)
Theorem cg_frozen_stays :
  forall (F : rcfType) (S : cg_settings F) (g : cg_args F) (u : cg_setup F),
  cg_prepare (FA F) S g = Ok u ->
  forall j, (j < size (g_rhs g))%N ->
  forall i1 i2, let sts := run_states (FA F) S g u in
  (i1 <= i2 < size sts)%N ->
  let a := num_ (nth (u_s0 u) sts i1) in let b := num_ (nth (u_s0 u) sts i2) in
  bget (conv_ a) j ->
  [/\ bget (conv_ b) j,
      cv (g_n g) (cget (x_ b) j) = cv (g_n g) (cget (x_ a) j) &
      cv (g_n g) (cget (r_ b) j) = cv (g_n g) (cget (r_ a) j)].
Proof. move=> F S g u Hp j hj i1 i2 sts Hi; exact: (frozen_pair Hp hj Hi). Qed.

(* 5. linear_cg (c * rhs, c * initial_guess) = c * linear_cg (rhs, initial_guess) for c > 0 — same raise,
      same t_mat, same warning, same iteration count — provided no column is below eps before or after. *)
Theorem cg_scaling :
  forall (F : rcfType) (c : F), 0 < c ->
  forall (S : cg_settings F) (g : cg_args F),
  (forall j, (j < size (g_rhs g))%N -> (norm2 (FA F) (g_n g) (cget (g_rhs g) j) < g_eps g) = false) ->
  (forall j, (j < size (g_rhs g))%N -> (c * norm2 (FA F) (g_n g) (cget (g_rhs g) j) < g_eps g) = false) ->
  linear_cg (FA F) S (scale_args c g)
  = match linear_cg (FA F) S g with Ok o => Ok (scale_out c o) | Err e => Err e end.
Proof. move=> F c Hc S g H1 H2; exact: scaling. Qed.

(* 6. The raises (any arithmetic, including binary64): linear_cg raises "tridiagonalization larger than the
      number of CG iterations" iff max_tridiag_iter > max_iter; otherwise "must be a tensor or callable" iff the
      closure is neither; otherwise "NaNs encountered" iff the first residual has an entry x with x != x;
      otherwise it returns.                                                                              *)
Theorem cg_guards :
  forall (F : Type) (A : Arith F) (S : cg_settings F) (g : cg_args F),
  match linear_cg A S g with
  | Err ErrTridiagLimit => (eff_max_iter S g < eff_max_tridiag_iter S g)%N
  | Err ErrNotCallable => (eff_max_tridiag_iter S g <= eff_max_iter S g)%N /\ closure_fun A (g_nc g) (g_mc g) = None
  | Err ErrNaN => (eff_max_tridiag_iter S g <= eff_max_iter S g)%N /\
                  exists2 mm, closure_fun A (g_nc g) (g_mc g) = Some mm & ~~ no_nan A (residual0 A g mm)
  | Ok _ => (eff_max_tridiag_iter S g <= eff_max_iter S g)%N /\
            exists2 mm, closure_fun A (g_nc g) (g_mc g) = Some mm & no_nan A (residual0 A g mm)
  end.
Proof. move=> F A S g; exact: (guards A S g). Qed.

(* 7. With n_tridiag > 0 one matrix per tridiagonalised column is returned; each is square of size
      min(last_tridiag_iter + 1, n_tridiag_iter), symmetric, and zero outside the three central diagonals.
      Without n_tridiag nothing is returned.  Any arithmetic.                                            *)
Theorem cg_tmat_shape :
  forall (F : Type) (A : Arith F) (S : cg_settings F) (g : cg_args F) (u : cg_setup F),
  cg_prepare A S g = Ok u ->
  let sf := cg_final A S g u in
  let o := cg_finish A g u sf in
  if (0 < g_n_tridiag g)%N then
    exists Ts, [/\ o_tmat o = Some Ts,
                   size Ts = size (tri_cols (size (g_rhs g)) (g_nc g) (g_n_tridiag g)) &
                   forall q, (q < size Ts)%N ->
                     sym_tridiag A (minn (last_ (tri_ sf)).+1 (u_nti u)) (nth [::] Ts q)]
  else o_tmat o = None.
Proof.
move=> F A S g u Hp sf o; case: ifP => Hn.
  have [Ts [H1 H2 H3]] := tmat_shape Hp Hn.
  by exists Ts; split => // q; rewrite H2; apply: H3.
by apply: tmat_none; move: Hn; case: (g_n_tridiag g).
Qed.

(* 8. ... and its entries are the CG-to-Lanczos conversion of the coefficients of the run: with
      ar k = 1 / (alpha_k, exact zeros replaced by 1) and bt k = beta_k of the tridiagonalised column after loop
      body k, row i >= 1 holds  ar i + bt (i-1) * ar (i-1)  on the diagonal and  sqrt (bt (i-1)) * ar (i-1)  next
      to it (the matrix is symmetric by 7), and T[0,0] = ar 0 as soon as a second row exists.  The returned
      matrix is the leading m x m block of the accumulated one.  Any arithmetic.                           *)
Theorem cg_tmat_entries :
  forall (F : Type) (A : Arith F) (S : cg_settings F) (g : cg_args F) (u : cg_setup F),
  cg_prepare A S g = Ok u ->
  let sf := cg_final A S g u in
  let h := fun k => num_ (nth (u_s0 u) (cg_states A S g u) k) in
  forall q, (q < size (tri_cols (size (g_rhs g)) (g_nc g) (g_n_tridiag g)))%N ->
  let M := nth [::] (tmat_ (tri_ sf)) q in
  let col := nth 0%N (tri_cols (size (g_rhs g)) (g_nc g) (g_n_tridiag g)) q in
  let ar := fun k => adiv A (a1 A) (let a := sget A (alpha_ (h k)) col in
                                    if aeqb A a (a0 A) then a1 A else a) in
  let bt := fun k => sget A (beta_ (h k)) col in
  (forall i, (0 < i <= last_ (tri_ sf))%N ->
     mget A M i i = aadd A (ar i) (amul A (bt i.-1) (ar i.-1)) /\
     mget A M i i.-1 = amul A (asqrt A (bt i.-1)) (ar i.-1)) /\
  ((0 < last_ (tri_ sf))%N -> mget A M 0 0 = ar 0%N).
Proof. move=> F A S g u Hp sf h q hq; exact: (final_tri_filled Hp hq). Qed.

Theorem cg_tmat_returned :
  forall (F : Type) (A : Arith F) (g : cg_args F) (u : cg_setup F) (sf : cg_state F),
  (0 < g_n_tridiag g)%N ->
  let m := minn (last_ (tri_ sf)).+1 (u_nti u) in
  o_tmat (cg_finish A g u sf) = Some [seq mtab m m (fun i j => mget A M i j) | M <- tmat_ (tri_ sf)].
Proof. by move=> F A g u sf Hn m; rewrite /cg_finish /= Hn. Qed.

(* 9. The A-norm of the error never increases (SPD not even needed: symmetric A_j, and the run never hits the
      p^T A p < eps safe division on a column that is still being updated).  e_k = x* - x_k for any x* with
      A_j x* = normalised rhs;  E(s) = e^T A_j e.                                                           *)
Theorem cg_anorm_monotone :
  forall (F : rcfType) (S : cg_settings F) (g : cg_args F) (u : cg_setup F) (Am : nat -> 'M[F]_(g_n g)),
  cg_prepare (FA F) S g = Ok u ->
  col_linear (size (g_rhs g)) Am (u_mm u) ->
  forall j, (j < size (g_rhs g))%N ->
  forall xs : 'cV[F]_(g_n g),
  (Am j)^T = Am j -> Am j *m xs = cv (g_n g) (cget (u_rhs u) j) ->
  0 < g_eps g ->
  no_breakdown (g_n g) (u_mm u) (g_eps g) j (num_ (u_s0 u) :: map (@num_ F) (cg_states (FA F) S g u)) ->
  forall i1 i2, let sts := run_states (FA F) S g u in
  (i1 <= i2 < size sts)%N ->
  energy (Am j) xs (cv (g_n g) (cget (x_ (num_ (nth (u_s0 u) sts i2))) j))
  <= energy (Am j) xs (cv (g_n g) (cget (x_ (num_ (nth (u_s0 u) sts i1))) j)).
Proof. move=> F S g u Am Hp Hl j hj xs Hs Hx He Hnb i1 i2 sts Hi; exact: (energy_pair Hp Hl hj Hs Hx He Hnb Hi). Qed.

(* the dense closure of a tensor argument (line 164) multiplies column j by the matrix of its batch member *)
Theorem cg_dense_closure_linear :
  forall (R : comRingType) (dv : R -> R -> R) (sq ab : R -> R) (lt le eq : R -> R -> bool)
         (n C nc : nat) (Ms : seq (mat R)),
  (forall j, (j < C)%N -> wf_mat n (nth [::] Ms (j %/ nc))) ->
  col_linear C (fun j => mx_of n (nth [::] Ms (j %/ nc))) (tensor_mm (RA dv sq ab lt le eq) nc Ms).
Proof. move=> R dv sq ab lt le eq n C nc Ms H; exact: tensor_mm_linear. Qed.

(* in exact arithmetic the NaN guard cannot fire: with consistent limits and a tensor / callable closure the
   preparation succeeds (so the hypotheses `cg_prepare A S g = Ok u` above are satisfiable for every such input) *)
Theorem cg_prepare_succeeds :
  forall (R : comRingType) (dv : R -> R -> R) (sq ab : R -> R) (lt le : R -> R -> bool),
  let A := RA dv sq ab lt le (fun x y => x == y) in
  forall (S : cg_settings R) (g : cg_args R) mm,
  (eff_max_tridiag_iter S g <= eff_max_iter S g)%N ->
  closure_fun A (g_nc g) (g_mc g) = Some mm ->
  exists2 u, cg_prepare A S g = Ok u & u_mm u = mm.
Proof. move=> R dv sq ab lt le A S g mm; exact: prepare_succeeds. Qed.

(* ------------------------------------------------------------------------------------------------ *)
(* Non-vacuity: the hypotheses of the theorems above are satisfiable.                                *)

(* a 2 x 2 system with two columns (the second one zero), dense tensor closure, Jacobi-like callable
   preconditioner, over any real closed field: preparation succeeds, both closures are column-wise linear, the
   second column is a zero column, and there is no initial guess *)
Section Examples.
Variable F : rcfType.
Let A := FA F.
Let Ms : seq (mat F) := [:: [:: [:: 2%:R; 1]; [:: 1; 2%:R]]].
Let Ps : seq (mat F) := [:: [:: [:: 2%:R^-1; 0]; [:: 0; 2%:R^-1]]].
Let S0 : cg_settings F := MkSettings 1000 20 1 false (1 / 1000000%:R).
Let g0 : cg_args F :=
  MkArgs (ClTensor Ms) 2 2 false [:: [:: 1; 2%:R]; [:: 0; 0]] 1 None (1 / 10%:R) (1 / 10%:R) (Some 5%N) (Some 2%N) None
         (Some (tensor_mm A 2 Ps)).

Example cg_hypotheses_satisfiable :
  exists u,
  [/\ cg_prepare A S0 g0 = Ok u,
      col_linear (size (g_rhs g0)) (fun j => mx_of 2 (nth [::] Ms (j %/ 2))) (u_mm u),
      col_linear (size (g_rhs g0)) (fun j => mx_of 2 (nth [::] Ps (j %/ 2))) (u_pre u),
      g_x0 g0 = None &
      forall i, (i < g_n g0)%N -> vget A (cget (g_rhs g0) 1) i = 0].
Proof.
have [u Hu Hm] : exists2 u, cg_prepare A S0 g0 = Ok u & u_mm u = tensor_mm A 2 Ms.
  exact: (@prepare_succeeds _ _ _ _ _ _ S0 g0).
exists u; split => //.
- by rewrite Hm; apply: tensor_mm_linear => j; rewrite /= => hj; rewrite divn_small //= !eqxx.
- have [_ [-> _ _ _ _] _ _ _] := prepare_inv Hu.
  by apply: tensor_mm_linear => j; rewrite /= => hj; rewrite divn_small //= !eqxx.
- by case=> [|[|i]].
Qed.

(* the no-column-is-zero hypotheses of cg_scaling: rhs = (1), eps = 1/10, scaling by any c >= 1 *)
Example cg_scaling_hypotheses_satisfiable (c : F) :
  1 <= c ->
  let g := MkArgs (ClTensor [:: [:: [:: 2%:R : F]]]) 1 1 false [:: [:: 1]] 0 None (1 / 10%:R) (1 / 10%:R)
                  None None None None in
  0 < c /\
  (forall j, (j < size (g_rhs g))%N -> (norm2 A (g_n g) (cget (g_rhs g) j) < g_eps g) = false) /\
  (forall j, (j < size (g_rhs g))%N -> (c * norm2 A (g_n g) (cget (g_rhs g) j) < g_eps g) = false).
Proof.
move=> Hc g.
have H10 : (1 / 10%:R : F) < 1.
  by rewrite div1r invf_lt1 ?ltr0n // ltr1n.
have Hn : norm2 A 1 [:: 1] = 1 by rewrite /norm2 /dot /= mulr1 add0r sqrtr1.
split; first exact: lt_le_trans ltr01 Hc.
split=> [] [|j] // _; rewrite [g_n g]/= [cget _ _]/= [g_eps g]/= Hn ?mulr1; apply/negbTE; rewrite -leNgt; apply: ltW => //.
exact: lt_le_trans H10 Hc.
Qed.

End Examples.
