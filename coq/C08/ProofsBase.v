(* C08 — bridge between the list model (Model.v) and MathComp vectors/matrices, and the generic
   "an invariant of num_step holds for every state of the run" lemma. *)
From mathcomp Require Import all_ssreflect all_algebra.
Require Import C08.Model.
Set Implicit Arguments.
Unset Strict Implicit.
Unset Printing Implicit Defensive.
Import GRing.Theory.
Local Open Scope ring_scope.

(* ---------------------------------------------------------------------------------------- *)
(* list accessors, any arithmetic                                                            *)
Section Access.
Variables (F : Type) (A : Arith F).

Lemma vget_mkseq n (f : nat -> F) i : (i < n)%N -> vget A (mkseq f n) i = f i.
Proof. by move=> hi; rewrite /vget nth_mkseq. Qed.

Lemma sget_mkseq n (f : nat -> F) i : (i < n)%N -> sget A (mkseq f n) i = f i.
Proof. by move=> hi; rewrite /sget nth_mkseq. Qed.

Lemma bget_mkseq n (f : nat -> bool) i : (i < n)%N -> bget (mkseq f n) i = f i.
Proof. by move=> hi; rewrite /bget nth_mkseq. Qed.

Lemma cget_ctab C n (f : nat -> nat -> F) j : (j < C)%N -> cget (ctab C n f) j = mkseq (f j) n.
Proof. by move=> hj; rewrite /cget /ctab nth_mkseq. Qed.

Lemma get_ctab C n (f : nat -> nat -> F) j i :
  (j < C)%N -> (i < n)%N -> vget A (cget (ctab C n f) j) i = f j i.
Proof. by move=> hj hi; rewrite cget_ctab // vget_mkseq. Qed.

Lemma size_ctab C n (f : nat -> nat -> F) : size (ctab C n f) = C.
Proof. by rewrite /ctab size_mkseq. Qed.

Lemma ctab_ext C n (f f' : nat -> nat -> F) :
  (forall j i, (j < C)%N -> (i < n)%N -> f j i = f' j i) -> ctab C n f = ctab C n f'.
Proof.
move=> H; rewrite /ctab; apply/eq_in_map => j; rewrite mem_iota /= add0n => hj.
by apply/eq_in_map => i; rewrite mem_iota /= add0n => hi; apply: H.
Qed.

Lemma mkseq_ext (T : Type) n (f f' : nat -> T) :
  (forall i, (i < n)%N -> f i = f' i) -> mkseq f n = mkseq f' n.
Proof. by move=> H; apply/eq_in_map => i; rewrite mem_iota /= add0n; apply: H. Qed.

End Access.

(* ---------------------------------------------------------------------------------------- *)
(* every state of the trace satisfies an invariant of the loop body                          *)
Section TraceInv.
Variables (F : Type) (A : Arith F).
Variables (n C nc : nat) (mm pre : cols F -> cols F) (precond : bool).
Variables (eps stop_after tolerance tri_thresh : F) (rhs_is_zero : seq bool).
Variables (n_tridiag max_iter nti : nat).

Local Notation step := (num_step A n C mm pre precond eps stop_after rhs_is_zero).
Local Notation trace := (cg_trace A n C nc mm pre precond eps stop_after tolerance tri_thresh rhs_is_zero
                                  n_tridiag max_iter nti).

(* lines 298-300: the norms the stopping rule looks at are the masked norms of the residual just computed *)
Lemma rnorm_step s : rnorm_ (step s) = norms_masked A n C rhs_is_zero (r_ (step s)).
Proof. by rewrite /num_step; case: precond. Qed.

Lemma conv_step s : conv_ (step s) = lt_all A C (rnorm_ (step s)) stop_after.
Proof. by rewrite /num_step; case: precond. Qed.

(* the loop body, field by field (lines 248-300) *)
Lemma alpha_step s : alpha_ (step s) = next_alpha A n C eps s (mm (p_ s)).
Proof. by rewrite /num_step; case: precond. Qed.

Lemma x_step s :
  x_ (step s) = ctab C n (fun j i => aadd A (vget A (cget (x_ s) j) i)
                                          (amul A (sget A (alpha_ (step s)) j) (vget A (cget (p_ s) j) i))).
Proof. by rewrite /num_step; case: precond. Qed.

Lemma r_step s :
  r_ (step s) = ctab C n (fun j i =>
     if precond then aadd A (vget A (cget (r_ s) j) i)
                            (amul A (aopp A (a1 A)) (amul A (sget A (alpha_ (step s)) j) (vget A (cget (mm (p_ s)) j) i)))
     else aadd A (vget A (cget (r_ s) j) i)
                 (amul A (aopp A (sget A (alpha_ (step s)) j)) (vget A (cget (mm (p_ s)) j) i))).
Proof. by rewrite /num_step; case: precond. Qed.

Lemma z_step s : z_ (step s) = if precond then pre (r_ (step s)) else r_ (step s).
Proof. by rewrite /num_step; case: precond. Qed.

Lemma rz_step s : rz_ (step s) = mkseq (fun j => dot A n (cget (r_ (step s)) j) (cget (z_ (step s)) j)) C.
Proof. by rewrite /num_step; case: precond. Qed.

Lemma beta_step s :
  beta_ (step s) = mkseq (fun j => safe_div A eps (sget A (rz_ (step s)) j) (sget A (rz_ s) j)) C.
Proof. by rewrite /num_step; case: precond. Qed.

Lemma p_step s :
  p_ (step s) = ctab C n (fun j i => aadd A (amul A (vget A (cget (p_ s) j) i) (sget A (beta_ (step s)) j))
                                          (vget A (cget (z_ (step s)) j) i)).
Proof. by rewrite /num_step; case: precond. Qed.

Lemma trace_inv (P : cg_num F -> Prop) :
  (forall s, P s -> P (step s)) ->
  forall fuel k s, P (num_ s) -> forall s', List.In s' (trace fuel k s) -> P (num_ s').
Proof.
move=> Hstep; elim=> [|f IH] k s Ps s' //=.
case: ifP => _ /=.
  by case=> [<-|//] /=; apply: Hstep.
case=> [<-|] /=; first exact: Hstep.
by apply: IH => /=; apply: Hstep.
Qed.

(* a relation between consecutive numeric states holds between any earlier and any later state *)
Lemma trace_rel (P : cg_num F -> Prop) (Rl : cg_num F -> cg_num F -> Prop) :
  (forall s, P s -> P (step s) /\ Rl s (step s)) ->
  (forall s, Rl s s) -> (forall a b c, Rl a b -> Rl b c -> Rl a c) ->
  forall fuel k s, P (num_ s) -> forall s', List.In s' (trace fuel k s) -> Rl (num_ s) (num_ s').
Proof.
move=> Hstep Hrefl Htrans; elim=> [|f IH] k s Ps s' //=.
have [P1 R1] := Hstep _ Ps.
case: ifP => _ /=.
  by case=> [<-|//] /=.
case=> [<-|] //= Hin.
apply: Htrans R1 _.
by have := IH k.+1 _ (_ : P (num_ (MkSt _ _ _ _))) _ Hin; apply.
Qed.

Lemma In_nth (T : Type) (d : T) (l : seq T) i : (i < size l)%N -> List.In (nth d l i) l.
Proof. by elim: l i => [|x l IH] [|i] //= hi; [left | right; apply: IH]. Qed.

(* ... and between any two states of the run, the earlier one first *)
Lemma trace_rel_pair (P : cg_num F -> Prop) (Rl : cg_num F -> cg_num F -> Prop) :
  (forall s, P s -> P (step s) /\ Rl s (step s)) ->
  (forall s, Rl s s) -> (forall a b c, Rl a b -> Rl b c -> Rl a c) ->
  forall fuel k s, P (num_ s) -> forall i1 i2, (i1 <= i2 < size (s :: trace fuel k s))%N ->
  Rl (num_ (nth s (s :: trace fuel k s) i1)) (num_ (nth s (s :: trace fuel k s) i2)).
Proof.
move=> Hstep Hrefl Htrans; elim=> [|f IH] k s Ps i1 i2.
  by case: i1 i2 => [|i1] [|i2] //=; rewrite ?andbF // => _; apply: Hrefl.
case: i1 => [|i1].
  case: i2 => [|i2] // /andP [_ hi2]; rewrite [nth _ _ 0]/=.
  by apply: (trace_rel Hstep Hrefl Htrans (fuel := f.+1) (k := k) Ps); apply: (@In_nth _ s (trace f.+1 k s) i2).
case: i2 => [|i2] //; rewrite [size _]/= !ltnS [nth s (s :: _) _.+1]/= [nth s (s :: _) i2.+1]/=.
have [P1 R1] := Hstep _ Ps.
rewrite [trace _ _ _]/=; case: ifP => _.
  by case: i1 i2 => [|i1] [|i2] //=; rewrite ?andbF // => _; apply: Hrefl.
set s2 := MkSt _ _ _ _ => /andP [h12 h2].
have h1 : (i1 < size (s2 :: trace f k.+1 s2))%N by apply: leq_ltn_trans h12 h2.
rewrite (set_nth_default s2 s h1) (set_nth_default s2 s h2).
by apply: IH => //; rewrite h12.
Qed.

(* the same when the loop body preserves the invariant only from states satisfying a side condition G:
   G is then required of every state a loop body is executed from (all states of the run but the last) *)
Lemma trace_rel_pair_cond (P G : cg_num F -> Prop) (Rl : cg_num F -> cg_num F -> Prop) :
  (forall s, P s -> G s -> P (step s) /\ Rl s (step s)) ->
  (forall s, Rl s s) -> (forall a b c, Rl a b -> Rl b c -> Rl a c) ->
  forall fuel k s, P (num_ s) ->
  (forall i, (i < size (trace fuel k s))%N -> G (num_ (nth s (s :: trace fuel k s) i))) ->
  forall i1 i2, (i1 <= i2 < size (s :: trace fuel k s))%N ->
  Rl (num_ (nth s (s :: trace fuel k s) i1)) (num_ (nth s (s :: trace fuel k s) i2)).
Proof.
move=> Hstep Hrefl Htrans; elim=> [|f IH] k s Ps HG i1 i2.
  by case: i1 i2 => [|i1] [|i2] //=; rewrite ?andbF // => _; apply: Hrefl.
have G0 : G (num_ s).
  by have := HG 0%N; rewrite /=; case: ifP => _ /=; apply.
have [P1 R1] := Hstep _ Ps G0.
move: HG; rewrite [trace _ _ _]/=; case: ifP => _ HG.
  case: i1 i2 => [|[|i1]] [|[|i2]] //=; rewrite ?andbF // => _; by [apply: Hrefl | apply: Hrefl].
set s2 := MkSt _ _ _ _ in HG *.
have HG2 i : (i < size (trace f k.+1 s2))%N -> G (num_ (nth s2 (s2 :: trace f k.+1 s2) i)).
  move=> hi; have := HG i.+1; rewrite [size _]/= ltnS => /(_ hi) /=.
  by rewrite (set_nth_default s2 s) //= ltnS ltnW.
have P2 : P (num_ s2) by [].
case: i1 => [|i1].
  case: i2 => [|i2] /=; first by move=> _; apply: Hrefl.
  rewrite ltnS => hi2; apply: Htrans R1 _.
  have := IH k.+1 s2 P2 HG2 0%N i2; rewrite /= hi2 => /(_ isT).
  by rewrite (set_nth_default s2 s).
case: i2 => [|i2] // /andP [h12 h2].
have {}h2 : (i2 < size (s2 :: trace f k.+1 s2))%N by [].
have {}h12 : (i1 <= i2)%N by [].
have h1 : (i1 < size (s2 :: trace f k.+1 s2))%N by apply: leq_ltn_trans h12 h2.
rewrite [nth s (s :: _) i1.+1]/= [nth s (s :: _) i2.+1]/=.
rewrite (set_nth_default s2 s h1) (set_nth_default s2 s h2).
by apply: IH => //; rewrite h12.
Qed.

(* consecutive states of the trace (with the starting state in front) are related by the loop body *)
Lemma trace_consecutive fuel k s i :
  (i < size (trace fuel k s))%N ->
  num_ (nth s (trace fuel k s) i) = step (num_ (nth s (s :: trace fuel k s) i)).
Proof.
elim: fuel k s i => [|f IH] k s i //=.
case: ifP => _ /=.
  by case: i.
case: i => [|i] //=; rewrite ltnS => hi.
set s2 := MkSt _ _ _ _.
have := IH k.+1 s2 i hi.
rewrite (set_nth_default s2 s) //.
move=> ->; congr (step (num_ _)).
by case: i hi => [|i] //= hi; apply: set_nth_default; apply: ltnW.
Qed.

(* every state of the trace is the result of a loop body *)
Lemma trace_is_step fuel k s s' : List.In s' (trace fuel k s) -> exists t, num_ s' = step t.
Proof.
elim: fuel k s => [|f IH] k s //=.
case: ifP => _ /=.
  by case=> [<-|//] /=; exists (num_ s).
case=> [<-|] /=; first by exists (num_ s).
exact: IH.
Qed.

(* tolerance_reached is only ever set by the stopping rule, evaluated on the state the loop is left with *)
Lemma trace_tolr fuel k s :
  let s' := last s (trace fuel k s) in
  tolr_ s' -> tolr_ s \/ (exists k', stop_rule A C tolerance n_tridiag max_iter nti k' (num_ s') /\
                                     List.In s' (trace fuel k s)).
Proof.
elim: fuel k s => [|f IH] k s /=; first by left.
case: ifP => Hs /=.
  by move=> _; right; exists k; split => //; left.
set s2 := MkSt _ _ _ _ => Ht.
case: (IH k.+1 s2 Ht) => [//|[k' [H1 H2]]].
by right; exists k'; split => //; right.
Qed.

(* ... and when it is not set, the loop ran through all of its fuel *)
Lemma trace_iters fuel k s s' : List.In s' (trace fuel k s) -> (k < iters_ s' <= k + fuel)%N.
Proof.
elim: fuel k s => [|f IH] k s //=.
case: ifP => _ /=.
  by case=> [<-|//] /=; rewrite ltnSn addnS ltnS leq_addr.
case=> [<-|] /=; first by rewrite ltnSn addnS ltnS leq_addr.
by move/IH => /andP [h1 h2]; rewrite (ltn_trans (ltnSn k) h1) /= addnS -addSn.
Qed.

Lemma trace_size fuel k s : (size (trace fuel k s) <= fuel)%N.
Proof.
elim: fuel k s => [|f IH] k s //=.
by case: ifP => _ //=; rewrite ltnS.
Qed.

End TraceInv.

(* ---------------------------------------------------------------------------------------- *)
(* what a successful cg_prepare (lines 134-242) has established                               *)
Section Prepare.
Variables (F : Type) (A : Arith F).

Lemma prepare_inv S g u : cg_prepare A S g = Ok u ->
  let n := g_n g in let C := size (g_rhs g) in
  let r0 := residual0 A g (u_mm u) in
  let rn0 := mkseq (fun j => norm2 A n (cget r0 j)) C in
  let conv0 := mkseq (fun j => altb A (sget A rn0 j) (g_stop_after g)) C in
  let z0 := if u_skip u then r0 else u_pre u r0 in
  [/\ [/\ (eff_max_iter S g < eff_max_tridiag_iter S g)%N = false,
          closure_fun A (g_nc g) (g_mc g) = Some (u_mm u) & no_nan A r0],
      [/\ u_pre u = (if g_pre g is Some f then f else id), u_precond u = isSome (g_pre g),
          u_max_iter u = eff_max_iter S g, u_tolerance u = odflt (s_cg_tolerance S) (g_tolerance g) &
          u_nti u = minn (eff_max_tridiag_iter S g) n],
      [/\ u_rhs_norm u = rhs_norm A g, u_rhs_is_zero u = rhs_zero A g, u_rhs u = rhs_hat A g & u_x0 u = x0_hat A g],
      [/\ u_skip u = all id conv0 && (g_n_tridiag g == 0)%N,
          u_n_iter u = (if u_skip u then 0%N
                        else if s_terminate_cg_by_size S then minn (eff_max_iter S g) n else eff_max_iter S g) &
          u_is_vector u = (if g_x0 g is Some (v, _) then v else g_rhs_is_vec g)] &
      [/\ num_ (u_s0 u) = MkNum (x0_hat A g) r0 z0 z0 (mkseq (fun j => dot A n (cget z0 j) (cget r0 j)) C)
                                (mkseq (fun _ => a0 A) C) (mkseq (fun _ => a0 A) C) rn0 conv0,
          tolr_ (u_s0 u) = false /\ iters_ (u_s0 u) = 0%N, upd_ (tri_ (u_s0 u)) = true, last_ (tri_ (u_s0 u)) = 0%N &
          tmat_ (tri_ (u_s0 u)) = mkseq (fun _ => mtab (u_nti u) (u_nti u) (fun _ _ => a0 A))
                                        (size (tri_cols C (g_nc g) (g_n_tridiag g)))]].
Proof.
rewrite /cg_prepare.
case: ifP => // Hlim.
case Hc: (closure_fun _ _ _) => [mm|] //; rewrite /cg_prepare_tail.
by case: ifP => // /negbFE Hnan [<-] /=; split => //; split => //; case: (g_pre g).
Qed.

End Prepare.

(* ---------------------------------------------------------------------------------------- *)
(* the exact-arithmetic instance: a commutative ring; division, square root, absolute value
   and the three comparisons are ARBITRARY functions here (the ring-only theorems do not depend on
   what they compute).  The field instance FA below fixes them to the real ones.               *)
Section RingInst.
Variable R : comRingType.
Variables (dv : R -> R -> R) (sq ab : R -> R) (lt le eq : R -> R -> bool).

Definition RA : Arith R :=
  MkArith 0 1 +%R (fun x y => x - y) *%R dv -%R sq ab lt le eq.

Definition cv (n : nat) (v : seq R) : 'cV[R]_n := \col_i nth 0 v i.

Lemma cvE n v (i : 'I_n) : cv n v i 0 = vget RA v i.
Proof. by rewrite mxE. Qed.

Lemma cv_mkseq n (f : nat -> R) : cv n (mkseq f n) = \col_i f i.
Proof. by apply/colP => i; rewrite !mxE nth_mkseq. Qed.

Lemma cv_ctab C n (f : nat -> nat -> R) j : (j < C)%N -> cv n (cget (ctab C n f) j) = \col_i f j i.
Proof. by move=> hj; rewrite cget_ctab // cv_mkseq. Qed.

Lemma cv_eq0 n v : (forall i, (i < n)%N -> nth 0 v i = 0) -> cv n v = 0.
Proof. by move=> H; apply/colP => i; rewrite !mxE H. Qed.

Lemma cv0_get n v i : cv n v = 0 -> (i < n)%N -> vget RA v i = 0.
Proof. by move=> H hi; have := congr1 (fun M : 'cV_n => M (Ordinal hi) 0) H; rewrite !mxE. Qed.

Lemma sumn_big (f : nat -> R) k : sumn_ RA f k = \sum_(l < k) f l.
Proof. by elim: k => [|k IH] /=; [rewrite big_ord0 | rewrite big_ord_recr /= IH]. Qed.

Lemma dotE n x y : dot RA n x y = \sum_(i < n) nth 0 x i * nth 0 y i.
Proof. by rewrite /dot sumn_big. Qed.

(* dot as a 1 x 1 matrix product *)
Lemma dot_mx n x y : dot RA n x y = ((cv n x)^T *m cv n y) 0 0.
Proof. by rewrite dotE mxE; apply: eq_bigr => i _; rewrite !mxE. Qed.

Lemma dotC n x y : dot RA n x y = dot RA n y x.
Proof. by rewrite !dotE; apply: eq_bigr => i _; rewrite mulrC. Qed.

(* a closure that multiplies flat column j by the matrix Am j *)
Definition col_linear (n C : nat) (Am : nat -> 'M[R]_n) (f : cols R -> cols R) : Prop :=
  forall X j, (j < C)%N -> cv n (cget (f X) j) = Am j *m cv n (cget X j).

(* the dense closure of line 164 (matmul_closure.matmul) is such a closure *)
Definition wf_mat (n : nat) (M : mat R) : bool := (size M == n) && all (fun row => size row == n) M.
Definition mx_of (n : nat) (M : mat R) : 'M[R]_n := \matrix_(i, j) nth 0 (nth [::] M i) j.

Lemma foldl_rowdot (a : R) (row x : seq R) :
  foldl (fun acc (rx : R * R) => acc + rx.1 * rx.2) a (zip row x)
  = a + \sum_(l < size row) nth 0 row l * nth 0 x l.
Proof.
elim: row a x => [|r row IH] a [|y x] /=.
- by rewrite big_ord0 addr0.
- by rewrite big_ord0 addr0.
- by rewrite big1 ?addr0 // => l _; rewrite nth_nil mulr0.
- by rewrite IH big_ord_recl /= addrA.
Qed.

Lemma matvec_mx n (M : mat R) (x : seq R) :
  wf_mat n M -> cv n (matvec RA M x) = mx_of n M *m cv n x.
Proof.
case/andP => /eqP sM /allP rM; apply/colP => i; rewrite !mxE /matvec.
rewrite (nth_map [::]) ?sM // /rowdot foldl_rowdot add0r.
have -> : size (nth [::] M i) = n by apply/eqP/rM/mem_nth; rewrite sM.
by apply: eq_bigr => l _; rewrite !mxE.
Qed.

Lemma tensor_mm_linear n C nc (Ms : seq (mat R)) :
  (forall j, (j < C)%N -> wf_mat n (nth [::] Ms (j %/ nc))) ->
  col_linear C (fun j => mx_of n (nth [::] Ms (j %/ nc))) (tensor_mm RA nc Ms).
Proof.
move=> Hwf X j hj; rewrite /tensor_mm /cget.
case: (ltnP j (size X)) => hX.
  by rewrite nth_mkseq // matvec_mx // Hwf.
rewrite (nth_default _ hX) [nth [::] (mkseq _ _) j]nth_default ?size_mkseq //.
have -> : cv n [::] = 0 :> 'cV[R]_n by apply/colP => i; rewrite !mxE nth_nil.
by rewrite mulmx0.
Qed.

End RingInst.

Arguments cv {R} n v.

Lemma last_in (T : Type) (x : T) (s : seq T) : List.In (last x s) (x :: s).
Proof. by elim: s x => [|y s IH] x /=; [left | right; apply: IH]. Qed.

(* ---------------------------------------------------------------------------------------- *)
(* the real instance: a real closed field with its own division, square root, absolute value, order *)
Section FieldInst.
Variable F : rcfType.

Definition FA : Arith F :=
  RA (fun x y : F => x / y) Num.sqrt Num.norm (fun x y => x < y) (fun x y => x <= y) (fun x y => x == y).

Lemma dot_cv n (v w v' w' : seq F) : cv n v = cv n v' -> cv n w = cv n w' -> dot FA n v w = dot FA n v' w'.
Proof. by move=> H1 H2; rewrite !dot_mx H1 H2. Qed.

Lemma norm2_cv n (v w : seq F) : cv n v = cv n w -> norm2 FA n v = norm2 FA n w.
Proof. by move=> H; rewrite /norm2 (dot_cv H H). Qed.

Lemma norm2_ge0 n (v : seq F) : 0 <= norm2 FA n v.
Proof. exact: Num.Theory.sqrtr_ge0. Qed.

Lemma dot_ge0 n (v : seq F) : 0 <= dot FA n v v.
Proof. by rewrite dotE; apply: Num.Theory.sumr_ge0 => i _; rewrite -expr2 Num.Theory.sqr_ge0. Qed.

End FieldInst.
