#!/usr/bin/env python3
"""Build, in a scratch worktree, a linear history on top of /repo's HEAD with one `fix:` commit per proposed fix
(tools/fix_order.json), so that it can be verified as a whole and then fast-forwarded into /repo.
usage: tools/build_fix_branch.py <worktree-dir> [base-commit]      (prints which diffs needed fuzz / failed)"""
import json, os, subprocess, sys
V = os.path.dirname(os.path.dirname(os.path.abspath(__file__)))
wt = sys.argv[1]
def sh(cmd, cwd=None):
    p = subprocess.run(cmd, shell=True, cwd=cwd, stdout=subprocess.PIPE, stderr=subprocess.STDOUT, text=True)
    return p.returncode, p.stdout
sh("git -C /repo worktree remove --force %s" % wt)
base = sys.argv[2] if len(sys.argv) > 2 else "HEAD"
rc, out = sh("git -C /repo worktree add --detach %s %s" % (wt, base))
assert rc == 0, out
res = []
for name, subject in json.load(open(os.path.join(V, "tools", os.environ.get("FIX_ORDER", "fix_order.json")))):
    d = os.path.join(V, "proposed_fixes", name + ".diff")
    if not os.path.exists(d):
        res.append((name, "NO FILE")); continue
    how = "apply"
    rc, out = sh("git apply %s" % d, cwd=wt)
    if rc != 0:
        how = "patch -F3"
        rc, out = sh("patch -p1 -F3 --no-backup-if-mismatch < %s" % d, cwd=wt)
        sh("find . -name '*.orig' -delete; find . -name '*.rej' -delete", cwd=wt)
    if rc != 0:
        sh("git checkout -- . && git clean -fdq", cwd=wt)
        res.append((name, "FAILED: " + out[-300:])); continue
    open("/tmp/_fix_commit_msg.txt", "w").write(subject + "\n")     # -F: no shell interpretation of backticks in the subject
    rc, out = sh("git add -A && git -c user.name=builder -c user.email=builder@localhost commit -q -F /tmp/_fix_commit_msg.txt", cwd=wt)
    res.append((name, how if rc == 0 else "COMMIT FAILED " + out[-200:]))
for n, r in res:
    print("%-42s %s" % (n, r))
print(sh("git log --oneline | head -70 | wc -l", cwd=wt)[1])
