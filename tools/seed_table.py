#!/usr/bin/env python3
"""Rewrite the table between <!-- SEED-TABLE-BEGIN --> and <!-- SEED-TABLE-END --> in DESIGN.md from
seeded/<ID>/<k>/{meta.json,result.json} (result.json is written by tools/seedtest.py)."""
import json
import os
import re

VERIF = os.path.dirname(os.path.dirname(os.path.abspath(__file__)))


def short(s, n):
    s = " ".join(str(s).split())
    return s if len(s) <= n else s[: n - 1] + "…"


def main():
    rows = []
    sd = os.path.join(VERIF, "seeded")
    for p in sorted(os.listdir(sd)):
        for k in sorted(os.listdir(os.path.join(sd, p)), key=lambda x: int(x) if x.isdigit() else 0):
            d = os.path.join(sd, p, k)
            mp, rp = os.path.join(d, "meta.json"), os.path.join(d, "result.json")
            if not os.path.exists(mp):
                continue
            m = json.load(open(mp))
            r = json.load(open(rp)) if os.path.exists(rp) else {}
            if not r:
                verdict = "not run yet"
            elif r.get("apply_rc") not in (0, None):
                verdict = "patch does not apply to the current HEAD"
            elif r.get("demo_clean_rc") != 0 or not r.get("demo_mut_rc"):
                verdict = ("obsolete on the repaired tree: the demonstration passes with and without the change (a later fix: commit removed the mechanism it relied on)" if r.get("demo_clean_rc") == 0 and r.get("demo_mut_rc") == 0 else "seed not confirmed (demo clean rc %s, changed rc %s)" % (r.get("demo_clean_rc"), r.get("demo_mut_rc")))
            elif r.get("check_rc") == 1 and r.get("n_violation_lines"):
                verdict = "caught: broken obligation, no-failing-input-found" if r.get("no_input_only") else "caught with failing input (%d VIOLATION lines)" % r["n_violation_lines"]
            else:
                verdict = "MISSED (check exit %s)" % r.get("check_rc")
            by = m.get("caught_by") or r.get("caught_by") or ""
            rows.append("| %s/%s | %s | %s | %s%s |" % (p, k, short(m.get("summary", ""), 230).replace("|", "/"),
                                                     short(m.get("needs_to_manifest", ""), 160).replace("|", "/"), verdict,
                                                     (" — " + by) if by else ""))
    table = "\n".join(["| seed | change | needs to manifest | `./check <ID> quick` on the changed tree |", "|---|---|---|---|"] + rows)
    path = os.path.join(VERIF, "DESIGN.md")
    s = open(path).read()
    s2 = re.sub(r"(<!-- SEED-TABLE-BEGIN -->\n).*?(<!-- SEED-TABLE-END -->)", lambda mo: mo.group(1) + table + "\n" + mo.group(2), s, flags=re.S)
    open(path, "w").write(s2)
    print("%d seeds; %d caught, %d missed, %d pending" % (len(rows), sum("caught" in r for r in rows), sum("MISSED" in r for r in rows),
                                                          sum("not run" in r for r in rows)))


if __name__ == "__main__":
    main()
