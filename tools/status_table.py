#!/usr/bin/env python3
"""Rewrite the STATUS-TABLE and FIX-LIST blocks of DESIGN.md from evidence/*.json, harness/manifest.d/*.json,
coq/<ID>/Property.v and `git -C /repo log`."""
import json
import os
import re
import subprocess

VERIF = os.path.dirname(os.path.dirname(os.path.abspath(__file__)))


def sub_block(s, name, body):
    return re.sub(r"(<!-- %s-BEGIN -->\n).*?(<!-- %s-END -->)" % (name, name), lambda mo: mo.group(1) + body + "\n" + mo.group(2), s, flags=re.S)


def main():
    props = [json.loads(l) for l in open(os.path.join(VERIF, "properties.jsonl"))]
    rows = ["| id | claimed | theorems in Property.v (partial / refuted) | tie | quick run: evaluations / distinct non-trivial / wall s | known findings |",
            "|---|---|---|---|---|---|"]
    kf = {}
    d = os.path.join(VERIF, "known_findings.d")
    for f in os.listdir(d):
        if f.endswith(".json"):
            try:
                j = json.load(open(os.path.join(d, f)))
            except ValueError:
                continue
            e = j[0] if isinstance(j, list) else j
            st = "fixed" if all(x.get("status") == "fixed" for x in (j if isinstance(j, list) else [j])) else "known"
            kf.setdefault(e["property"], {"known": 0, "fixed": 0})[st] += 1
    kj = os.path.join(VERIF, "known_findings.json")
    if os.path.exists(kj):
        for e in json.load(open(kj)).get("findings", []):
            kf.setdefault(e["property"], {"known": 0, "fixed": 0})["fixed" if e.get("status") == "fixed" else "known"] += 1
    for p in props:
        pid = p["id"]
        frag = os.path.join(VERIF, "harness", "manifest.d", pid + ".json")
        claimed = os.path.exists(frag) or pid == "C17"
        tech = json.load(open(frag)).get("technique", "") if os.path.exists(frag) else ("translator settings.py → Gallina + correspondence" if pid == "C17" else "")
        pv = os.path.join(VERIF, "coq", pid, "Property.v")
        names = re.findall(r"^\s*(?:Theorem|Corollary)\s+([A-Za-z0-9_']+)", open(pv).read(), re.M) if os.path.exists(pv) else []
        npart = sum("partial" in n for n in names)
        nref = sum("refuted" in n or n.endswith("_pinned") for n in names)
        ev = os.path.join(VERIF, "evidence", pid + ".json")
        evs = ""
        if os.path.exists(ev):
            e = json.load(open(ev))
            c = e.get("coverage", {})
            evs = "%s / %s / %s" % (c.get("evaluations"), c.get("distinct_nontrivial"), int(e.get("wall_s", 0)))
        tie = "translator" if re.search(r"translat|regenerat", tech, re.I) else "hand model"
        tie += " + correspondence"
        k = kf.get(pid, {"known": 0, "fixed": 0})
        rows.append("| %s | %s | %d (%d / %d) | %s | %s | %d known, %d fixed |" % (pid, "yes" if claimed else "no", len(names), npart, nref, tie, evs, k["known"], k["fixed"]))
    s = open(os.path.join(VERIF, "DESIGN.md")).read()
    s = sub_block(s, "STATUS-TABLE", "\n".join(rows))
    log = subprocess.run(["git", "-C", "/repo", "log", "--format=%h %s"], stdout=subprocess.PIPE, text=True).stdout.split("\n")
    fixes = ["* `%s`" % l for l in log if re.match(r"[0-9a-f]+ fix:", l)]
    s = sub_block(s, "FIX-LIST", "\n".join(fixes) if fixes else "(none yet)")
    tot = 0
    axs = set()
    per = []
    for p in props:
        ev = os.path.join(VERIF, "evidence", p["id"] + ".json")
        if os.path.exists(ev):
            c = json.load(open(ev)).get("coverage", {})
            tot += c.get("obligations", 0) or 0
            axs |= set(c.get("axioms", []) or [])
            per.append("%s %s/%s" % (p["id"], c.get("discharged"), c.get("obligations")))
    s = sub_block(s, "TB", "Across the latest evidence files: **%d theorems** in the `Property.v` files (discharged/obligations per property: %s); "
                  "axioms reported by `Print Assumptions` over all of them: **%s**." % (tot, ", ".join(per), ", ".join(sorted(axs)) if axs else "none (every theorem is closed under the global context)"))
    fa = []
    for p in props:
        pid = p["id"]
        dn = os.path.join(VERIF, "design_notes", pid + ".md")
        if not os.path.exists(dn):
            continue
        txt = open(dn).read()
        m = re.search(r"^(#+)[^\n]*False alarms[^\n]*\n(.*?)(?=^#{1,6} |\Z)", txt, re.S | re.M | re.I)
        if m and m.group(2).strip():
            fa.append("**%s**\n\n%s\n" % (pid, m.group(2).strip()))
    s = sub_block(s, "FALSE-ALARMS", "\n".join(fa) if fa else "(none recorded)")
    open(os.path.join(VERIF, "DESIGN.md"), "w").write(s)
    print("status table: %d rows, %d fix commits" % (len(rows) - 2, len(fixes)))


if __name__ == "__main__":
    main()
