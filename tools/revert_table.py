#!/usr/bin/env python3
"""Rewrite the table between <!-- REVERT-TABLE-BEGIN/END --> in DESIGN.md from tools/revert_sweep.json (+ revert_notes.json)."""
import json
import os
import re

V = os.path.dirname(os.path.dirname(os.path.abspath(__file__)))


def main():
    rs = json.load(open(os.path.join(V, "tools", "revert_sweep.json")))
    np_ = os.path.join(V, "tools", "revert_notes.json")
    notes = json.load(open(np_)) if os.path.exists(np_) else {}
    rows = ["| `fix:` commit reverted alone | property checked | `./check <ID> quick` on that tree |", "|---|---|---|"]
    for r in rs:
        v = r["verdict"]
        if v == "caught":
            v = ("caught: broken obligation / harness stop, no-failing-input-found" if r.get("no_input_only")
                 else "caught with failing input (%d VIOLATION lines)" % r["n_violation_lines"])
        if r["commit"] in notes:
            v += " — " + notes[r["commit"]]
        rows.append("| %s %s | %s | %s |" % (r["commit"], r["subject"][5:140].replace("|", "/"), r["property"], v))
    path = os.path.join(V, "DESIGN.md")
    s = open(path).read()
    s2 = re.sub(r"(<!-- REVERT-TABLE-BEGIN -->\n).*?(<!-- REVERT-TABLE-END -->)", lambda mo: mo.group(1) + "\n".join(rows) + "\n" + mo.group(2), s, flags=re.S)
    open(path, "w").write(s2)
    print("%d reverts: %d caught, %d missed, %d conflicts" % (len(rs), sum(r["verdict"] == "caught" for r in rs),
          sum(r["verdict"].startswith("MISSED") for r in rs), sum("conflict" in r["verdict"] for r in rs)))


if __name__ == "__main__":
    main()
