#!/usr/bin/env python3
"""After `fix:` commits have landed in /repo: mark the known findings they repair as fixed.

A known-finding entry (known_findings.d/*.json; a file may hold a list of keyed cells) is marked
  status=fixed, commit=<sha>, line="fixed: property=<id> <sha> <what failed>"
iff (1) a proposed fix names it (proposed_fixes/<fix>.md mentions the finding id, or has the same name), (2) that fix is a
commit of /repo (subject from tools/fix_order.json), and (3) the latest evidence of its property — written by a run of
./check <ID> on the CURRENT /repo HEAD (pass --require-head to enforce via evidence mtime > HEAD commit time) — does not
list the entry among known_findings_reproduced.  Never run by a check; run by hand, then tools/kf_index.py.
usage: tools/mark_fixed.py [--dry-run]"""
import json
import os
import re
import subprocess
import sys

V = os.path.dirname(os.path.dirname(os.path.abspath(__file__)))
DRY = "--dry-run" in sys.argv


def main():
    order = json.load(open(os.path.join(V, "tools", "fix_order.json")))
    log = subprocess.run(["git", "-C", "/repo", "log", "--format=%h\t%ct\t%s"], stdout=subprocess.PIPE, text=True).stdout.strip().split("\n")
    subj2sha = {l.split("\t", 2)[2]: l.split("\t", 2)[0] for l in log}
    head_time = int(log[0].split("\t")[1])
    fix2sha = {n: subj2sha.get(s) for n, s in order}
    mds = {n: (open(os.path.join(V, "proposed_fixes", n + ".md")).read() if os.path.exists(os.path.join(V, "proposed_fixes", n + ".md")) else "") for n, _ in order}
    d = os.path.join(V, "known_findings.d")
    repro, fresh = {}, {}
    for f in os.listdir(os.path.join(V, "evidence")):
        if f.endswith(".json"):
            p = os.path.join(V, "evidence", f)
            e = json.load(open(p))
            repro[e["property_id"]] = set(e.get("known_findings_reproduced", []))
            fresh[e["property_id"]] = os.path.getmtime(p) > head_time
    n_fixed = n_still = n_stale = 0
    for f in sorted(os.listdir(d)):
        if not f.endswith(".json"):
            continue
        fid = f[:-5]
        slug = fid.split("-", 1)[1] if "-" in fid else fid
        fixes = [n for n in mds if fix2sha.get(n) and (n == fid or n.split("-", 1)[1] == slug or re.search(re.escape(fid) + r"(?![\w-])", mds[n]))]
        # a rationale that names a finding only to say it is NOT repaired must not count
        fixes = [n for n in fixes if n == fid or n.split("-", 1)[1] == slug
                 or not re.search(r"(?i)(not repaired|remains? a known finding|still a known finding)[^\n]*" + re.escape(fid), mds[n])]
        if not fixes:
            continue
        path = os.path.join(d, f)
        j = json.load(open(path))
        entries = j if isinstance(j, list) else [j]
        changed = False
        for e in entries:
            if e.get("status") == "fixed":
                continue
            prop = e["property"]
            if not fresh.get(prop):
                n_stale += 1
                continue
            kid = e.get("id", json.dumps(e.get("key"), sort_keys=True))
            if kid in repro.get(prop, set()):
                n_still += 1
                print("still reproduces:", fid, kid if kid != fid else "")
                continue
            sha = fix2sha[fixes[0]]
            e["status"] = "fixed"
            e["commit"] = sha
            e["fixed_by"] = fixes
            e["line"] = "fixed: property=%s %s %s" % (prop, sha, " ".join(str(e.get("what_fails", "")).split()))
            changed = True
            n_fixed += 1
        if changed and not DRY:
            json.dump(j, open(path, "w"), indent=1)
    print("%d entries marked fixed, %d still reproduce, %d skipped (evidence older than /repo HEAD)%s" % (n_fixed, n_still, n_stale, " [dry run]" if DRY else ""))


if __name__ == "__main__":
    main()
