#!/usr/bin/env python3
"""Confirm a seeded property-breaking change and run a check against it.

usage: tools/seedtest.py <PROPERTY> <dir-with-patch.diff-and-demo.py> [--tests] [--tier quick|thorough] [--no-check]

Works on a scratch COPY of /repo under /tmp (never edits /repo, so that concurrently running checks are not
disturbed); the copy is removed afterwards.  Prints a JSON summary and writes it to <dir>/result.json:
  demo_clean_rc (must be 0), demo_mut_rc (must be != 0), tests (tail of pytest, with --tests),
  check_rc (1 = the check raised an alarm), violation_lines, wall_s.
"""
import json
import os
import shutil
import subprocess
import sys
import time

VERIF = os.path.dirname(os.path.dirname(os.path.abspath(__file__)))
PY = "/venv/bin/python"


def sh(cmd, cwd=None, env=None, timeout=3600):
    e = dict(os.environ)
    if env:
        e.update(env)
    try:
        p = subprocess.run(cmd, shell=True, cwd=cwd, env=e, timeout=timeout, stdout=subprocess.PIPE, stderr=subprocess.STDOUT, text=True)
        return p.returncode, p.stdout
    except subprocess.TimeoutExpired as ex:
        return 124, (ex.stdout.decode(errors="replace") if isinstance(ex.stdout, bytes) else (ex.stdout or "")) + "\nTIMEOUT"


def main():
    args = [a for a in sys.argv[1:] if not a.startswith("--")]
    flags = [a for a in sys.argv[1:] if a.startswith("--")]
    prop, d = args[0], os.path.abspath(args[1])
    tier = "quick"
    if "--tier" in sys.argv:
        tier = sys.argv[sys.argv.index("--tier") + 1]
        args = [a for a in args if a != tier]
    scratch = "/tmp/mut-%s-%d" % (prop, os.getpid())
    res = {"property": prop, "seed_dir": d, "tier": tier}
    t0 = time.time()
    try:
        # a scratch git worktree of /repo's HEAD (so that patches written against an older HEAD can be 3-way merged)
        # SEED_BASE: commit to base the scratch tree on (default: /repo's HEAD), e.g. the head of a not-yet-landed fix branch
        base = os.environ.get("SEED_BASE", "HEAD")
        res["base"] = sh("git -C /repo rev-parse --short %s" % base)[1].strip()
        rc, out = sh("git -C /repo worktree add -q --detach %s %s" % (scratch, base))
        demo = os.path.join(d, "demo.py")
        if os.path.exists(demo):   # the demonstration on the unchanged base tree
            rc, out = sh("%s -W ignore %s" % (PY, demo), cwd="/tmp", env={"PYTHONPATH": scratch, "OMP_NUM_THREADS": "1"}, timeout=900)
            res["demo_clean_rc"], res["demo_clean_out"] = rc, out[-600:]
        rc, out = sh("git apply %s" % os.path.join(d, "patch.diff"), cwd=scratch)
        if rc != 0:
            rc, out = sh("git apply -3 %s" % os.path.join(d, "patch.diff"), cwd=scratch)
            res["applied_by"] = "3way"
        if rc != 0:
            sh("git checkout -- . ", cwd=scratch)
            rc, out = sh("patch -p1 -F3 < %s" % os.path.join(d, "patch.diff"), cwd=scratch)
            res["applied_by"] = "patch-fuzz"
        res["apply_rc"] = rc
        if rc != 0:
            res["apply_out"] = out[-1500:]
            print(json.dumps(res, indent=1))
            return 2
        demo = os.path.join(d, "demo.py")
        if os.path.exists(demo):
            rc, out = sh("%s -W ignore %s" % (PY, demo), cwd="/tmp", env={"PYTHONPATH": scratch, "OMP_NUM_THREADS": "1"}, timeout=900)
            res["demo_mut_rc"], res["demo_mut_out"] = rc, out[-1200:]
        if "--tests" in flags:
            rc, out = sh("%s -m pytest -q -p no:cacheprovider --timeout=900 -x 2>&1 | tail -4" % PY, cwd=scratch, env={"PYTHONPATH": scratch}, timeout=3000)
            res["tests"] = out[-600:]
        if "--no-check" not in flags:
            t1 = time.time()
            rc, out = sh("./check %s %s" % (prop, tier), cwd=VERIF, env={"VERIF_REPO": scratch}, timeout=5400)
            res["check_rc"] = rc
            res["check_wall_s"] = round(time.time() - t1, 1)
            lines = [l for l in out.split("\n") if l.startswith(("VIOLATION", "KNOWN-FINDING"))]
            res["violation_lines"] = lines[:12]
            res["n_violation_lines"] = len([l for l in lines if l.startswith("VIOLATION")])
            res["no_input_only"] = bool(lines) and all(l.endswith("no-failing-input-found") for l in lines if l.startswith("VIOLATION"))
            res["check_tail"] = out[-1500:]
            # the first replay, for the record
            for l in lines:
                if l.startswith("VIOLATION") and "replay=" in l:
                    rp = l.split("replay=")[1].split()[0]
                    try:
                        res["first_replay"] = json.load(open(rp))
                    except Exception:
                        pass
                    break
    finally:
        sh("git -C /repo worktree remove --force %s" % scratch)
        shutil.rmtree(scratch, ignore_errors=True)
        sh("git -C /repo worktree prune")
    res["wall_s"] = round(time.time() - t0, 1)
    with open(os.path.join(d, "result.json"), "w") as f:
        json.dump(res, f, indent=1, default=str)
    brief = {k: v for k, v in res.items() if k not in ("check_tail", "first_replay", "demo_clean_out")}
    print(json.dumps(brief, indent=1, default=str)[:4000])
    return 0


if __name__ == "__main__":
    sys.exit(main())
