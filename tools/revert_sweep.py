#!/usr/bin/env python3
"""Revert-a-fix sweep: every `fix:` commit of /repo, reverted alone on a scratch worktree of HEAD, must make the check of the
property it repaired raise an alarm again ("a fixed entry suppresses nothing: the check reports the violation again if it
ever returns").  Run by hand; never by a registered check.  Results: tools/revert_sweep.json and the table in DESIGN.md 8.5b.

usage: tools/revert_sweep.py [jobs=3] [ID ...]     (scratch worktrees /tmp/revert-<ID>, removed afterwards)
"""
import json
import os
import re
import subprocess
import sys
import time
from concurrent.futures import ThreadPoolExecutor

V = os.path.dirname(os.path.dirname(os.path.abspath(__file__)))
EARLY = {"settings contexts": "C17", "psd_safe_cholesky": "C16", "toeplitz_matmul": "C20", "sparse_repeat": "C20", "sparse_getitem": "C20"}


def sh(cmd, cwd=None, env=None, timeout=3000):
    e = dict(os.environ)
    e.update(env or {})
    p = subprocess.run(cmd, shell=True, cwd=cwd, env=e, stdout=subprocess.PIPE, stderr=subprocess.STDOUT, text=True, timeout=timeout)
    return p.returncode, p.stdout


def prop_of(subject, order):
    for name, subj in order:
        if subj == subject:
            return name.split("-", 1)[0], name
    for k, p in EARLY.items():
        if k in subject:
            return p, None
    return None, None


def chain(prop, items):
    wt = "/tmp/revert-%s" % prop
    sh("git -C /repo worktree remove --force %s" % wt)
    sh("git -C /repo worktree add -q --detach %s HEAD" % wt)
    out = []
    try:
        for sha, subject, name in items:
            r = {"property": prop, "commit": sha, "subject": subject, "fix": name}
            sh("git reset -q --hard HEAD && git clean -qfd", cwd=wt)
            rc, o = sh("git revert --no-commit %s" % sha, cwd=wt)
            if rc != 0:
                r["verdict"] = "revert conflicts with later fixes (not run)"
                sh("git revert --abort; git reset -q --hard HEAD", cwd=wt)
                out.append(r)
                continue
            t0 = time.time()
            rc, o = sh("./check %s quick" % prop, cwd=V, env={"VERIF_REPO": wt, "OMP_NUM_THREADS": "2"})
            vl = [l for l in o.split("\n") if l.startswith("VIOLATION")]
            r.update(check_rc=rc, n_violation_lines=len(vl), wall_s=int(time.time() - t0),
                     no_input_only=bool(vl) and all(l.rstrip().endswith("no-failing-input-found") for l in vl),
                     first=vl[0][:200] if vl else "")
            r["verdict"] = ("caught" if rc == 1 and vl else "MISSED (exit %s)" % rc)
            out.append(r)
            print(prop, sha, r["verdict"], len(vl), flush=True)
    finally:
        sh("git -C /repo worktree remove --force %s" % wt)
    return out


def main():
    args = sys.argv[1:]
    jobs = int(args[0]) if args and args[0].isdigit() else 3
    only = [a for a in args if not a.isdigit()]
    order = json.load(open(os.path.join(V, "tools", "fix_order.json")))
    log = sh("git -C /repo log --format='%h\t%s'")[1].strip().split("\n")
    chains = {}
    for l in log:
        sha, subject = l.split("\t", 1)
        if not subject.startswith("fix:"):
            continue
        p, name = prop_of(subject, order)
        if p and (not only or p in only):
            chains.setdefault(p, []).append((sha, subject, name))
    res = []
    with ThreadPoolExecutor(jobs) as ex:
        for r in ex.map(lambda kv: chain(*kv), sorted(chains.items(), key=lambda kv: -len(kv[1]))):
            res += r
    path = os.path.join(V, "tools", "revert_sweep.json")
    old = []
    if only and os.path.exists(path):
        old = [r for r in json.load(open(path)) if r["property"] not in only]
    json.dump(sorted(old + res, key=lambda r: (r["property"], r["commit"])), open(path, "w"), indent=1)
    print("%d reverts: %d caught, %d missed, %d conflicts" % (len(res), sum(r["verdict"] == "caught" for r in res),
                                                              sum(r["verdict"].startswith("MISSED") for r in res),
                                                              sum("conflict" in r["verdict"] for r in res)))


if __name__ == "__main__":
    main()
