#!/bin/bash
# tools/run_all.sh [quick|thorough] [jobs]  — run every claimed check against $VERIF_REPO (default /repo), summarise.
# Logs: /tmp/verif_run_all/<ID>.log (scratch, not needed by any registered command).
cd "$(dirname "$0")/.."
TIER="${1:-quick}"; JOBS="${2:-3}"
OUT=/tmp/verif_run_all; mkdir -p $OUT
IDS=$(/venv/bin/python -c "import json;print(' '.join(c['property_id'] for c in json.load(open('MANIFEST.json'))['checks']))")
run_one() { p=$1; s=$(date +%s); timeout 5400 ./check $p $2 > $3/$p.log 2>&1; rc=$?; e=$(date +%s)
  echo "$p rc=$rc wall=$((e-s))s violations=$(grep -c '^VIOLATION' $3/$p.log) known=$(grep -c '^KNOWN-FINDING' $3/$p.log)"; }
export -f run_one
echo $IDS | tr ' ' '\n' | xargs -P $JOBS -I{} bash -c "run_one {} $TIER $OUT"
