"""C14: order-preserving encoding of Python keyword-argument names into Coq Z literals.

enc(name) = the name's ASCII bytes, right-padded with NUL to WIDTH bytes, read as a big-endian integer.
For ASCII names of at most WIDTH characters this is injective and monotone w.r.t. Python's string order
(code-point lexicographic; a proper prefix sorts first), which is what `sorted(kwargs.items())` in
LinearOperator.__init__ uses.  Fail-closed on anything else."""
WIDTH = 24

KNOWN = ["batch_repeat", "batch_shape", "block_dim", "covar_func", "device", "diag_shape", "dim", "dtype", "m",
         "num_nonbatch_dimensions", "num_outputs_per_input", "output_device", "preconditioner_override", "upper",
         "validate_args", "alpha", "zeta", "square", "shift", "extra"]


def enc(name):
    b = name.encode("ascii")
    if len(b) > WIDTH or len(b) == 0 or any(c == 0 for c in b):
        raise ValueError("kwarg name %r cannot be encoded" % (name,))
    return int.from_bytes(b + b"\0" * (WIDTH - len(b)), "big")


def dec(z):
    return int(z).to_bytes(WIDTH, "big").rstrip(b"\0").decode("ascii")


def coq_defs():
    return "".join("Definition k_%s : Z := %d%%Z.\n" % (n, enc(n)) for n in KNOWN)


if __name__ == "__main__":
    print(coq_defs())
