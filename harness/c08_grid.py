"""C08: the deterministic grid of structural cells (the seed only picks values) and the
trajectory-comparison policy (DESIGN.md 2.4)."""
import itertools

FAMS = [("uniform", 10.0), ("uniform", 1e3), ("clustered", 1e4), ("geometric", 1e6), ("few3", 1e2), ("few4", 1e3),
        ("geometric", 1e2), ("clustered", 10.0)]
SIZES_Q = [1, 2, 3, 5, 8, 16, 32, 64]
SIZES_T = [1, 2, 3, 4, 5, 6, 8, 11, 16, 24, 32, 48, 64]

# secondary dimensions, combined by rotation with the (family, size) cells
PROFILES = [
    dict(),
    dict(cols="nn"),
    dict(cols="nz"),
    dict(cols="ntnh", tol=1e-6),
    dict(cols="zn", x0="rand"),
    dict(cols="nn", pre="jacobi"),
    dict(cols="n", pre="exact"),
    dict(cols="nzn", pre="lowrank", tol=1e-8),
    dict(cols="nn", batch=[2]),
    dict(cols="nz", batch=[2, 3], pre="jacobi"),
    dict(cols="n", batch=[2], rhs_batch="none"),
    dict(cols="nn", n_tridiag=1, max_tridiag_iter="=", tol=1e-4),
    dict(cols="nn", n_tridiag=2, max_tridiag_iter=3, pre="jacobi"),
    dict(cols="nhn", n_tridiag=3, batch=[2], max_tridiag_iter="="),
    dict(cols="n", rhs_vec=True),
    dict(cols="n", rhs_vec=True, x0="vec"),
    dict(cols="n", rhs_vec=True, x0="mat1"),
    dict(cols="nnn", x0="vec"),
    dict(cols="nn", x0="exact"),
    dict(cols="nn", x0="near", tol=1e-3),
    dict(cols="nn", tcs=True),
    dict(cols="nz", tcs=True, pre="jacobi", n_tridiag=1, max_tridiag_iter="="),
    dict(cols="nn", dtype="float32"),
    dict(cols="nz", dtype="float32", pre="jacobi", batch=[2]),
    dict(cols="nn", mc="tensor"),
    dict(cols="nn", mc="tensor", batch=[2], pre="exact"),
    dict(cols="nn", eps=1e-5, stop=1e-6),
    dict(cols="ns", eps=1e-5, stop=1e-10, pre="jacobi"),
    dict(cols="nn", eps=1e-20, stop=1e-14, tol=1e-12),
    dict(cols="nn", stop=1e-3, tol=1e-2),
    dict(cols="tn", scale=1e-3),
    dict(cols="nh", scale=1e3, pre="lowrank"),
    dict(cols="nn", pre="randspd"),
    dict(cols="nn", pre="identity", pre_alias="fresh"),
    dict(cols="nn", mm_alias="expand", batch=[2], same_batch=True),
    dict(cols="nn", mm_alias="inplace_safe", pre="jacobi", pre_alias="inplace_safe"),
    dict(cols="nn", max_tridiag_iter=">"),
    dict(cols="nn", mc="none"),
    dict(cols="nn", mc="float", max_tridiag_iter=">"),
    dict(cols="nn", poison="rhs_nan"),
    dict(cols="nn", poison="A_nan", pre="jacobi"),
    dict(cols="nn", poison="rhs_inf", batch=[2]),
    dict(cols="nn", x0="nan"),
    dict(cols="nn", max_iter_default=True, set_max_cg=14, tol=1e-3),
    dict(cols="nn", max_iter_default=True, set_max_cg=25, set_max_lq=4, n_tridiag=1, set_tol=1e-2),
    # columns that freeze (residual < stop_updating_after) while p^T A p is still far above eps, and a tolerance the mean
    # never reaches: the has_converged mask of lines 74 / 260 is then the only thing that keeps them frozen
    dict(cols="nn", stop=1e-3, tol=1e-6, pre="jacobi"),
    dict(cols="nnn", stop=1e-2, tol=1e-7, pre="lowrank", batch=[2]),
    dict(cols="nn", stop=1e-3, tol=1e-6),
    dict(cols="nn", stop=1e-2, tol=1e-7, pre="randspd", n_tridiag=2, max_tridiag_iter="="),
    # long tridiagonalisations with a tolerance that is never reached: the off-diagonals decay through the update_tridiag
    # threshold (1e-6) while rows are still being written
    dict(cols="nn", n_tridiag=2, max_tridiag_iter="=", tol=1e-12),
    dict(cols="nn", n_tridiag=1, max_tridiag_iter="=", tol=1e-12, pre="jacobi"),
]

# closure-aliasing cells (identity-like closures: legitimate only for the identity matrix / identical batch members)
ALIAS = [
    dict(fam="identity", kappa=1.0, cols="nn", mm_alias="arg"),
    dict(fam="identity", kappa=1.0, cols="nn", mm_alias="view", pre="jacobi"),
    dict(cols="nn", pre="identity", pre_alias="arg"),
    dict(cols="nn", pre="identity", pre_alias="view"),
    dict(cols="nn", pre="jacobi", pre_alias="expand", batch=[2], same_batch=True),
    dict(cols="n", pre="identity", pre_alias="arg", n_tridiag=1, max_tridiag_iter="="),
]


# heterogeneous cells: ONE column / batch member reaches a threshold early (its Krylov space is exhausted after 2-3 loop
# bodies: rhs spanned by two eigenvectors of the preconditioned operator [column kind e], an operator with few distinct
# eigenvalues or identity + low rank [fam0 = family of batch member 0], an exact initial guess for column 0 only) while
# another column / member is generic and far from convergence.  They separate "any" from "all" and per-column from global
# decisions: the update_tridiag switch (max over all tridiagonalised columns), the stopping rule (mean over all columns), the
# has_converged masks, the early-convergence shortcut (has_converged.all()), terminate_cg_by_size.
HETERO = [
    dict(cols="en", n_tridiag=2, max_tridiag_iter="=", tol=1e-12),
    dict(cols="ne", n_tridiag=2, max_tridiag_iter="=", tol=1e-12),
    dict(cols="nen", n_tridiag=3, max_tridiag_iter="=", tol=1e-12, pre="jacobi"),
    dict(cols="n", batch=[2], fam0=["few2", 3.0], n_tridiag=1, max_tridiag_iter="=", tol=1e-12),
    dict(cols="nn", batch=[2], fam0=["lrid2", 4.0], n_tridiag=2, max_tridiag_iter="=", tol=1e-12, tcs=True),
    dict(cols="en", batch=[2], n_tridiag=2, max_tridiag_iter="=", tol=1e-12, pre="lowrank"),
    dict(cols="en", tol=1e-3),
    dict(cols="ne", tol=1e-2, batch=[2], pre="jacobi"),
    dict(cols="en", stop=1e-3, tol=1e-8),
    dict(cols="dn", stop=1e-3, tol=1e-9),
    dict(cols="nd", stop=1e-3, tol=1e-9, pre="jacobi", batch=[2]),
    dict(cols="nn", x0="exact0"),
    dict(cols="nnn", x0="exact0", pre="jacobi", n_tridiag=2, max_tridiag_iter="="),
]
HETERO_FAMS = [("uniform", 10.0), ("geometric", 1e2)]
# (max_cg_iterations, max_lanczos_quadrature_iterations) asked of the settings contexts; None = context not entered
# (library defaults 1000 / 20).  max_tridiag_iter > max_iter must raise - also when both limits come from the settings.
SETLIMITS = [(5, None), (8, 16), (19, 20), (20, 20), (16, 8), (25, None), (None, 30), (None, None), (12, 11), (None, 1001)]

# tiny-norm columns in both precisions: column norms on the ladder 1e-5 .. 1e-9 (kinds 5..9), between the rhs_is_zero threshold
# eps = 1e-10 and well above float32 machine epsilon 1.2e-7, next to normal / 1e-12 / zero columns.  Such a column is NOT zero:
# it is normalised and solved like any other (scaling law).  Tolerances <= 1e-2 so that an unsolved column cannot hide in
# the mean; the scaling predicate multiplies these systems by 2^12 (across the whole ladder).
TINY = [
    dict(cols="n98", dtype="float32", tol=1e-2),
    dict(cols="76n5", dtype="float32", tol=1e-2, pre="jacobi"),
    dict(cols="9t8n", dtype="float32", tol=1e-2, batch=[2]),
    dict(cols="8z7", dtype="float32", tol=1e-3),
    dict(cols="n987", tol=1e-6),
    dict(cols="5t9", tol=1e-8, pre="jacobi", batch=[2]),
]
# number of rows of t_mat where the exit rule is live: n >= 12, n_tridiag_iter = min(max_tridiag_iter, n) >= 11 (the exit
# test is only evaluated for k >= 10), max_iter > max_tridiag_iter, default (1) and loose tolerances - the mean residual is
# below the tolerance long before the requested number of Lanczos steps is complete, and only the clause
# `k < min(n_tridiag_iter, max_iter - 1)` keeps the loop running.
TRIROWS = [
    dict(cols="nn", n_tridiag=2, max_tridiag_iter=12, budgets=[12, 13, 16, 24]),
    dict(cols="n", n_tridiag=1, max_tridiag_iter=11, tol=0.5, pre="jacobi", budgets=[11, 12, 20]),
    dict(cols="nn", n_tridiag=1, max_tridiag_iter=14, tol=1e-1, batch=[2], budgets=[14, 15, 30]),
    dict(cols="nn", n_tridiag=2, max_iter_default=True, set_max_cg=25, set_max_lq=13),
    dict(cols="n", n_tridiag=1, max_iter_default=True, set_max_cg=40, tcs=True),        # default 20 Lanczos steps
]
TRIROWS_FAMS = [("uniform", 10.0), ("geometric", 1e2), ("uniform", 1e3)]
# operator-level entry points (LinearOperator.solve / ._solve / .inv_quad on the CG path): every limit comes from the
# settings; budgets that cannot reach the tolerance (the NumericalWarning must surface through the operator, with
# settings.debug on and off) and budgets that can (no warning, residual below the tolerance).
OPCELLS = [
    dict(fam="geometric", kappa=1e4, cols="nn", set_max_cg=5, set_max_lq=4, set_tol=1e-4),
    dict(fam="uniform", kappa=1e3, cols="n", set_max_cg=3, set_max_lq=2, set_tol=1e-2, batch=[2]),
    dict(fam="uniform", kappa=10.0, cols="nn", set_max_cg=12, set_max_lq=5, set_tol=1e-8),
    dict(fam="uniform", kappa=10.0, cols="nn", set_max_cg=60, set_max_lq=5, set_tol=1e-3),
    dict(fam="clustered", kappa=1e4, cols="nz", set_max_cg=8, set_max_lq=3, set_tol=1e-5, pre="jacobi"),
    dict(fam="geometric", kappa=1e2, cols="n", set_max_cg=30, set_max_lq=10, rhs_vec=True),   # default tolerance 1
]


def mkspec(fam, kappa, n, prof, vseed, quick):
    sp = {"fam": fam, "kappa": kappa, "n": n, "batch": [], "cols": "n", "vseed": vseed}
    sp.update(prof)
    sp["nc"] = len(sp["cols"])
    if sp.get("dtype") == "float32" and sp["kappa"] > 1e3:
        sp["kappa"] = 1e3
    return sp


def budgets_for(sp, quick):
    n = sp["n"]
    if sp.get("max_iter_default"):
        return [None]
    if sp.get("budgets"):
        return list(sp["budgets"])
    K = min(n + 2, 8 if quick else 12)
    bs = list(range(1, K + 1))
    if full_ok(sp):
        bs += [13, 24] if quick else [11, 13, 17, 24, 40]
    return sorted(set(bs))


def fix_limits(sp, mi):
    """resolve the symbolic max_tridiag_iter values against the budget"""
    sp = dict(sp)
    sp["max_iter"] = mi
    mt = sp.get("max_tridiag_iter")
    eff = mi if mi is not None else (sp.get("set_max_cg") or 1000)
    if mt == "=":
        sp["max_tridiag_iter"] = eff
    elif mt == ">":
        sp["max_tridiag_iter"] = eff + 1
    elif mt is None and mi is not None and sp.get("set_max_lq") is None:
        # the default (20) would exceed small budgets and raise: pass a consistent limit unless the cell is about the default
        sp["max_tridiag_iter"] = min(eff, 20)
    elif isinstance(mt, int) and mt > eff:
        sp["max_tridiag_iter"] = eff
    return sp


def full_ok(sp):
    """whole-run trajectory comparison allowed: the PRECONDITIONED operator is well conditioned (kappa <= 10 with a
    preconditioner that does not spoil it) or has few distinct eigenvalues with moderate kappa (no preconditioner)"""
    pre = sp.get("pre", "none")
    if sp["fam"] == "identity" or sp["n"] == 1:
        return True
    if pre == "randspd":          # a random SPD "preconditioner" makes M^-1 A arbitrarily conditioned
        return False
    if sp["kappa"] <= 10:
        return True
    if sp["fam"].startswith("few") and sp["kappa"] <= 1e2 and pre in ("none", "identity"):
        return True
    return False


def policy(sp):
    """(level, tol) for the Coq comparison of one call"""
    mi = sp.get("max_iter")
    eff = mi if mi is not None else (sp.get("set_max_cg") or 1000)
    if sp.get("tcs"):
        eff = min(eff, sp["n"])
    f32 = sp.get("dtype") == "float32"
    if f32:
        tol = sp.get("tol")
        if eff <= 3 and sp["kappa"] <= 10 and (tol is None or tol >= 1e-2):
            return 1, 1e-3
        return 0, 1e-3
    # beyond n iterations the exact-arithmetic iteration has terminated and the vectors are rounding noise
    # (measured: on a clustered kappa=1e4 spectrum the search directions of model and implementation differ by
    #  4e-16 after 2, 1e-12 after 3 and 4e-5 (relative) after 5 iterations - summation order amplified by the
    #  residual reduction; so whole trajectories are only compared where exact and float arithmetic stay together)
    if full_ok(sp) or eff <= 2:
        return 1, 1e-9
    return 0, 1e-9


def grid(quick, rng):
    """list of (system spec, [budget specs...]) ; deterministic structure, rng picks values"""
    sizes = SIZES_Q if quick else SIZES_T
    systems = []
    cells = list(itertools.product(range(len(FAMS)), range(len(sizes))))
    per_cell = 6 if quick else 24
    pi = 0
    for (fi, si) in cells:
        fam, kappa = FAMS[fi]
        n = sizes[si]
        for r in range(per_cell):
            prof = PROFILES[(pi * 7 + fi * 3 + si * 5 + r * 11) % len(PROFILES)] if False else PROFILES[pi % len(PROFILES)]
            pi += 1
            if n >= 32 and (len(prof.get("batch", [])) > 1):
                prof = dict(prof, batch=[2])
            sp = mkspec(fam, kappa, n, prof, rng.getrandbits(40), quick)
            if sp.get("rhs_vec") and sp["nc"] != 1:
                continue
            systems.append(sp)
    for ai, al in enumerate(ALIAS):
        for n in ([1, 3, 8] if quick else [1, 2, 3, 5, 8, 16]):
            fam, kappa = ("uniform", 10.0)
            sp = mkspec(al.get("fam", fam), al.get("kappa", kappa), n, al, rng.getrandbits(40), quick)
            systems.append(sp)
    hi = 0
    for he in HETERO:
        for n in ([5, 8, 16] if quick else [4, 5, 6, 8, 11, 16, 24]):
            fam, kappa = HETERO_FAMS[hi % len(HETERO_FAMS)]
            hi += 1
            systems.append(mkspec(fam, kappa, n, he, rng.getrandbits(40), quick))
    ti = 0
    for tp in TINY:
        for n in ([3, 8] if quick else [2, 3, 5, 8, 16]):
            fam, kappa = HETERO_FAMS[ti % 2] if tp.get("dtype") != "float32" else ("uniform", 10.0)
            ti += 1
            systems.append(mkspec(fam, kappa, n, tp, rng.getrandbits(40), quick))
    ti = 0
    for tp in TRIROWS:
        for n in ([16, 32] if quick else [12, 13, 16, 24, 32, 48]):
            fam, kappa = TRIROWS_FAMS[ti % len(TRIROWS_FAMS)]
            ti += 1
            systems.append(mkspec(fam, kappa, n, tp, rng.getrandbits(40), quick))
    for oc in OPCELLS:
        for n in ([8, 24] if quick else [3, 8, 16, 24, 40]):
            prof = dict(oc, max_iter_default=True, op=True)
            systems.append(mkspec(prof.pop("fam"), prof.pop("kappa"), n, prof, rng.getrandbits(40), quick))
    # iteration limits taken from the SETTINGS (arguments None): every consistent / inconsistent combination of the two
    # contexts, with and without a tridiagonalisation, through direct calls and through the operator entry points
    for (cg, lq) in SETLIMITS:
        for ntr in (0, 2):
            for n in ([24] if quick else [6, 24, 40]):
                prof = dict(cols="nn", max_iter_default=True, op="limits", set_tol=1e-2)
                if cg is not None:
                    prof["set_max_cg"] = cg
                if lq is not None:
                    prof["set_max_lq"] = lq
                if ntr:
                    prof["n_tridiag"] = ntr
                systems.append(mkspec("uniform", 10.0, n, prof, rng.getrandbits(40), quick))
    out = []
    for sp in systems:
        bs = budgets_for(sp, quick)
        out.append((sp, bs))
    return out
