"""C19 — maintenance tool (NOT part of the check): writes known_findings.d/C19-<slug>.json from a thorough grid run.

Every silent-accept cell (torch refuses on the dense matrix, the operator returns) found on the tree under test is
assigned to a root-cause group by the rules below; a cell matching no rule is an error (it must be triaged by hand
first).  Each group file is a list of entries sharing the group's id / what_fails, one entry per NARROW key
{class, op, shape_class} (the cat group is keyed {op, shape_class}: its site, CatLinearOperator.__init__, is the same
for every class).  Operator (+) operator cells are keyed by the method the call DISPATCHES to instead of the left class
({impl, op, shape_class[, rhs_class]}: the root cause is that method, whatever subclass / composite reaches it).
Usage:  PYTHONPATH=/repo:/verif python -m harness.c19_kf [--write]
"""
import json
import os
import sys

from . import common, c19

DIAG = {"DiagLinearOperator", "ConstantDiagLinearOperator", "KroneckerProductDiagLinearOperator"}
MM = {"matmul", "rmatmul", "solve", "matmul_lo"}
IQL = {"inv_quad_logdet", "inv_quad_logdet_ld"}

GROUPS = [
    ("cat-dim-out-of-range",
     lambda c, o, k: o == "cat" and k == "dim_out_of_range",
     "linear_operator.operators.cat([A, B], dim=A.dim()) concatenates along dim 0 instead of raising (CatLinearOperator.__init__ "
     "maps dim >= 0 to dim - ndims without a range check); torch.cat raises IndexError",
     "cat([DenseLinearOperator(eye(3)), ToeplitzLinearOperator(c)], dim=2).to_dense().shape == (6, 3); torch.cat(..., dim=2) raises"),
    ("diag-matmul-elementwise",
     lambda c, o, k: c in DIAG and o in MM,
     "DiagLinearOperator.matmul (also reached by rmatmul, solve, ConstantDiag / KroneckerProductDiag) multiplies elementwise "
     "without the shape check: a size-1 inner dimension or a 0-d operand is silently broadcast",
     "DiagLinearOperator(tensor([1.,2.,3.])) @ ones(1, 2) has shape (3, 2); diag(d) @ ones(1, 2) raises"),
    ("diag-inv-quad-logdet",
     lambda c, o, k: c in DIAG and o in IQL,
     "DiagLinearOperator.inv_quad_logdet divides the right-hand side elementwise without a shape check: a size-1 inner "
     "dimension / 0-d right-hand side is silently broadcast",
     "DiagLinearOperator(tensor([1.,2.,3.])).inv_quad_logdet(ones(1, 2)) returns a value; diag(d) @ ones(1, 2) raises"),
    ("identity-matmul-returns-rhs",
     lambda c, o, k: c == "IdentityLinearOperator" and o in MM,
     "IdentityLinearOperator.matmul / solve / rmatmul return the operand without comparing its inner dimension with the "
     "operator size",
     "IdentityLinearOperator(3) @ ones(4, 2) returns the (4, 2) operand; eye(3) @ ones(4, 2) raises"),
    ("identity-inv-quad-logdet",
     lambda c, o, k: c == "IdentityLinearOperator" and o in IQL,
     "IdentityLinearOperator.inv_quad_logdet squares and sums the right-hand side whatever its shape",
     "IdentityLinearOperator(3).inv_quad_logdet(ones(4, 2)) returns a value; eye(3) @ ones(4, 2) raises"),
    ("zero-add-returns-other",
     lambda c, o, k: c == "ZeroLinearOperator" and o in ("add", "sub", "add_lo", "add_diag_lo"),
     "ZeroLinearOperator.__add__ returns the other operand without a broadcast check",
     "(ZeroLinearOperator(3, 3) + ones(3, 4)).shape == (3, 4); zeros(3, 3) + ones(3, 4) raises"),
    ("zero-matmul-ignores-batch",
     lambda c, o, k: c == "ZeroLinearOperator" and o in ("matmul", "rmatmul", "matmul_lo"),
     "ZeroLinearOperator.matmul compares the inner dimension only and takes the batch shape from the operand: "
     "non-broadcastable batch shapes are accepted",
     "(ZeroLinearOperator(2, 3, 3) @ ones(5, 3, 2)).shape == (5, 3, 2); zeros(2, 3, 3) @ ones(5, 3, 2) raises"),
    ("zero-logdet-nonsquare",
     lambda c, o, k: c == "ZeroLinearOperator" and o == "logdet",
     "ZeroLinearOperator.logdet returns log(0) for a rectangular operator",
     "ZeroLinearOperator(3, 2).logdet() returns -inf; torch.logdet(zeros(3, 2)) raises"),
    ("get-indices-out-of-range",
     lambda c, o, k: o in ("getitem_tensor", "getitem_alltensor"),
     "tensor indices are not range-checked: _get_indices / _getitem of several classes (modular or interpolation index "
     "arithmetic, ZeroLinearOperator's size computation) return values for indices >= size or < -size",
     "ToeplitzLinearOperator(tensor([4.,1.,0.]))[tensor([0, 3]), tensor([0, 0])] returns 2 values; the dense matrix raises IndexError"),
    ("expand-batch-unchecked",
     lambda c, o, k: o == "expand",
     "LinearOperator.expand does not refuse what Tensor.expand refuses: the base _expand_batch floor-divides the requested "
     "batch by the current one (a non-singleton batch dimension 'expanded' to another size returns an operator of the old "
     "or of the requested shape), -1 for a new leading dimension is accepted",
     "PermutationLinearOperator(perm of shape (2, 3)).expand(3, 3, 3).shape == (2, 3, 3); Tensor.expand raises"),
    ("lowrank-added-diag-solve",
     lambda c, o, k: c == "LowRankRootAddedDiagLinearOperator" and o == "solve",
     "LowRankRootAddedDiagLinearOperator.solve applies the Woodbury formula with elementwise products: a size-1 inner "
     "dimension / 0-d right-hand side is silently broadcast",
     "LowRankRootAddedDiagLinearOperator(LowRankRootLinearOperator(ones(3, 1)), DiagLinearOperator(d)).solve(ones(1, 2)).shape == (3, 2)"),
    ("kron-cholesky-nonsquare",
     lambda c, o, k: c == "KroneckerProductLinearOperator" and o == "cholesky",
     "KroneckerProductLinearOperator.cholesky factorizes the factors of a rectangular Kronecker product instead of raising",
     "KroneckerProductLinearOperator(Dense(ones(2, 1)), Dense(ones(2, 2))).cholesky() returns a (4, 2) operator"),
]


PAIR_GROUPS = [
    # (slug, predicate on the full key, key attributes kept, what_fails, reproduction)  — operator (+) operator cells
    ("zero-add-returns-other",
     lambda k: k["impl"] == "ZeroLinearOperator.__add__",
     ("impl", "op", "shape_class"), None, None),
    ("add-zero-operand-ignored",
     lambda k: k["op"] in ("add_op", "torch_add") and k["rhs_class"] == "ZeroLinearOperator"
     and k["impl"] != "ZeroLinearOperator.__add__",
     ("impl", "op", "rhs_class", "shape_class"),
     "A + ZeroLinearOperator(of an incompatible shape) returns A: LinearOperator.__add__ and SumLinearOperator.__add__ "
     "return self for a ZeroLinearOperator operand without a broadcast check (also reached through the __add__ overrides "
     "that defer to them: Dense, Triangular, Kronecker*, LowRankRoot*, AddedDiag)",
     "(DenseLinearOperator(eye(3)) + ZeroLinearOperator(4, 4)).shape == (3, 3); eye(3) + zeros(4, 4) raises"),
    ("mul-zero-operand-returns-other",
     lambda k: k["op"] in ("mul_op", "torch_mul") and k["rhs_class"] == "ZeroLinearOperator" and k["impl"] == "LinearOperator.mul",
     ("impl", "op", "rhs_class", "shape_class"),
     "A * ZeroLinearOperator(of an incompatible shape) returns the ZeroLinearOperator: LinearOperator.mul returns a "
     "ZeroLinearOperator operand before its broadcast check",
     "(DenseLinearOperator(eye(3)) * ZeroLinearOperator(4, 4)).shape == (4, 4); eye(3) * zeros(4, 4) raises"),
    ("identity-matmul-returns-rhs",
     lambda k: k["impl"] in ("IdentityLinearOperator.matmul", "flipped:IdentityLinearOperator.matmul") and k["op"] in c19.MATMUL_LIKE,
     ("impl", "op", "shape_class"), None, None),
    ("diag-matmul-elementwise",
     lambda k: k["impl"].replace("flipped:", "") in ("DiagLinearOperator.matmul", "ConstantDiagLinearOperator.matmul")
     and k["op"] in c19.MATMUL_LIKE,
     ("impl", "op", "rhs_class", "shape_class"), None, None),
    ("interpolated-matmul-diag",
     lambda k: k["impl"] == "InterpolatedLinearOperator.matmul" and k["op"] in ("matmul_op", "torch_matmul")
     and k["rhs_class"] in c19_kf_DIAG_RHS,
     ("impl", "op", "rhs_class", "shape_class"),
     "InterpolatedLinearOperator.matmul(DiagLinearOperator) scales right_interp_values by the operand's diagonal "
     "elementwise without a shape check: a 1 x 1 diagonal operand is silently broadcast against the inner dimension",
     "(InterpolatedLinearOperator(DenseLinearOperator(eye(3))) @ DiagLinearOperator(ones(1))).shape == (3, 3); eye(3) @ ones(1, 1) raises"),
    ("zero-matmul-ignores-batch",
     lambda k: k["impl"] == "ZeroLinearOperator.matmul" and k["op"] in c19.MATMUL_LIKE,
     ("impl", "op", "shape_class"), None, None),
]
c19_kf_DIAG_RHS = ("DiagLinearOperator", "ConstantDiagLinearOperator", "IdentityLinearOperator",
                   "KroneckerProductDiagLinearOperator")


INV_GROUPS = [
    # inverse-type entry points (solve, inv_quad, inv_quad_logdet, sqrt_inv_matmul, torch.linalg.solve), both solver routes
    ("kron-solve-row-multiples",
     lambda k: k["solve_impl"] == "KroneckerProductLinearOperator._solve" and k["op"] in ("inv_solve", "inv_linalg_solve"),
     ("solve_impl", "op", "shape_class"),
     "KroneckerProductLinearOperator._solve reshapes the right-hand side factor by factor without comparing its row count "
     "with the operator size: a right-hand side with 2N, 3N, N/2 (any count the per-factor reshapes accept) rows is solved "
     "as if it had N rows (both solver routes; also through unsqueeze / expand results and KroneckerProductTriangular)",
     "K = KroneckerProductLinearOperator(DenseLinearOperator(A2x2), DenseLinearOperator(B2x2)); K.solve(ones(8, 2)).shape == (8, 2); "
     "torch.linalg.solve(K.to_dense(), ones(8, 2)) raises"),
    ("identity-sqrt-inv-matmul-returns-rhs",
     lambda k: k["base_class"] == "IdentityLinearOperator" and k["op"] == "inv_sqrt_inv_matmul",
     ("base_class", "op", "shape_class"),
     "IdentityLinearOperator.sqrt_inv_matmul returns the right-hand side without comparing its row count with the operator size",
     "IdentityLinearOperator(3).sqrt_inv_matmul(ones(4, 2)).shape == (4, 2); eye(3) @ ones(4, 2) raises"),
    ("masked-solve-size1-rows",
     lambda k: k["base_class"] == "MaskedLinearOperator" and k["shape_class"] == "rows_1",
     ("base_class", "op", "route", "shape_class"),
     "MaskedLinearOperator._matmul scatters the right-hand side into the unmasked rows by assignment, which broadcasts a "
     "1-row right-hand side; public matmul is guarded, but solve / sqrt_inv_matmul on the CG / Lanczos routes call _matmul "
     "directly (LinearOperator.solve has no shape check for a 2-D right-hand side)",
     "with settings.max_cholesky_size(0): MaskedLinearOperator(DenseLinearOperator(A4x4), mask3of4, mask3of4).solve(ones(1, 2)).shape == (3, 2); "
     "torch.linalg.solve(dense3x3, ones(1, 2)) raises"),
]


class _Ctx:
    seed = 0

    def say(self, *a):
        print(*a)


def collect():
    cells = {}
    for quick in (True, False):
        recs = c19.run_grid(_Ctx(), quick=quick)
        for r in recs:
            if r["torch"][0] == "raise" and r["impl"][0] == "ok":
                cells.setdefault(json.dumps(c19.key_of(r), sort_keys=True), r)
    return cells


def main(write):
    cells = collect()
    texts = {slug: (what, repro) for slug, pred, what, repro in GROUPS}
    for slug, pred, proj, what, repro in PAIR_GROUPS + INV_GROUPS:
        if what is not None:
            texts[slug] = (what, repro)
    files = {}
    unassigned = []
    for sig, r in sorted(cells.items()):
        key = json.loads(sig)
        if "route" in key:
            for slug, pred, proj, what, repro in INV_GROUPS:
                if pred(key):
                    files.setdefault(slug, []).append(({a: key[a] for a in proj}, r))
                    break
            else:
                unassigned.append(key)
            continue
        if "impl" in key:
            for slug, pred, proj, what, repro in PAIR_GROUPS:
                if pred(key):
                    files.setdefault(slug, []).append(({a: key[a] for a in proj}, r))
                    break
            else:
                unassigned.append(key)
            continue
        c, o, k = key["class"], key["op"], key["shape_class"]
        for slug, pred, what, repro in GROUPS:
            if pred(c, o, k):
                pk = {"op": o, "shape_class": k} if slug == "cat-dim-out-of-range" else {"class": c, "op": o, "shape_class": k}
                files.setdefault(slug, []).append((pk, r))
                break
        else:
            unassigned.append(key)
    if unassigned:
        print("UNASSIGNED cells (triage by hand):")
        for u in unassigned:
            print("  ", u)
        return 1
    pref_kind = ("size1_inner", "wrong_inner", "wrong_col", "nonsingleton_batch", "ge_pos-1", "dim_out_of_range", "nonsquare",
                 "bad_batch", "bigger")
    pref_op = ("matmul", "add", "inv_quad_logdet", "getitem_alltensor", "expand", "solve", "cat", "logdet", "cholesky",
               "add_op", "mul_op", "matmul_op")
    total = 0
    for slug in sorted(files):
        what, repro = texts.get(slug) or (None, None)
        if what is None:
            prev = os.path.join(common.VERIF, "known_findings.d", "C19-%s.json" % slug)
            what = json.load(open(prev))[0]["what_fails"] if os.path.exists(prev) else slug
        ents = sorted(files[slug], key=lambda x: ("impl" in x[0], "derive" in x[1]["case"],
                                                  x[0]["shape_class"] not in pref_kind, x[0]["op"] not in pref_op,
                                                  len(x[0].get("class", "")), json.dumps(x[0], sort_keys=True)))
        out = []
        seen = set()
        for pk, r in ents:
            sig = json.dumps(pk, sort_keys=True)
            if sig in seen:
                continue
            seen.add(sig)
            e = {"id": "C19-" + slug, "property": "C19", "status": "known", "key": pk, "what_fails": what}
            if not out:
                e["reproduction"] = repro
                case = dict(r["case"])
                e["replay"] = {"property": "C19", "expr": r["expr"], "case": case, "implementation": r["impl"],
                               "torch_on_dense": r["torch"]}
            else:
                e["replay"] = {"see": "first entry of this file; same root cause, cell %s" % sig}
            out.append(e)
        total += len(out)
        print("%-32s %3d keys" % (slug, len(out)))
        if write and out:
            p = os.path.join(common.VERIF, "known_findings.d", "C19-%s.json" % slug)
            with open(p + ".tmp", "w") as f:
                json.dump(out, f, indent=0, sort_keys=True)
            os.replace(p + ".tmp", p)
    print("total keys", total, "for", len(cells), "silent cells")
    return 0


if __name__ == "__main__":
    sys.exit(main("--write" in sys.argv))
