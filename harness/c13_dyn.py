"""C13 — dynamic search: call the public entry points with caller tensors in four layouts and compare
`_version`, metadata and a bitwise copy of every caller tensor (of its whole underlying buffer, guards included)
before/after, plus to_dense() of every pre-existing operator against an independently built twin.

A *case* is  (entry, variant, builder);  builder(ar, rng) -> thunk, where `ar` is an Arena that lays out every
caller tensor in the arena's layout and remembers it.  run_case() executes the thunk (exceptions are recorded, the
comparison is made anyway) and returns the list of effects (hits).  localise() re-runs a hit under sys.settrace and
finds the library source line during which the caller tensor changed.
"""
import os
import random
import sys
import threading
import traceback
import warnings

import torch

from . import c13_ops, common, opbuild

LAYOUTS = c13_ops.LAYOUTS
LIBROOT = os.path.join(os.path.realpath(common.REPO), "linear_operator") + os.sep


class Watch:
    def __init__(self, name, view, owner):
        self.name, self.view, self.owner = name, view, owner
        self.v0 = view._version
        self.meta0 = c13_ops.meta(view)
        self.bytes0 = c13_ops.raw(owner)
        self.omea0 = c13_ops.meta(owner)

    def effects(self):
        out = []
        try:
            if c13_ops.meta(self.view) != self.meta0:
                out.append("meta")
            if c13_ops.meta(self.owner) != self.omea0 or not c13_ops.same_bytes(c13_ops.raw(self.owner), self.bytes0):
                out.append("values")
            if self.view._version != self.v0:
                out.append("version")
        except Exception as ex:           # e.g. storage resized away
            out.append("broken:" + repr(ex)[:40])
        return out


class SparseWatch:
    def __init__(self, name, sp):
        self.name, self.sp = name, sp
        self.dense0 = sp.to_dense().clone()
        self.i0, self.v0 = sp._indices().clone(), sp._values().clone()
        self.ver0 = sp._values()._version

    def effects(self):
        out = []
        try:
            if not (c13_ops.same_bytes(self.sp._indices(), self.i0) and c13_ops.same_bytes(self.sp._values(), self.v0)):
                out.append("values")
            elif not c13_ops.same_bytes(self.sp.to_dense(), self.dense0):
                out.append("values")
            if self.sp._values()._version != self.ver0:
                out.append("version")
        except Exception as ex:
            out.append("broken:" + repr(ex)[:40])
        return out


class Arena:
    """lays out caller tensors; layout 'expanded' uses stride 0 (batch-expansion or constant last dim)"""

    def __init__(self, layout, watch=True):
        self.layout, self.watching = layout, watch
        self.watches, self.ops = [], []
        self.degenerate = 0          # tensors that could not take the layout (fell back to contiguous)
        self.seq = None              # harness/c13_seq.Tracker of a call-sequence cell (operator-state snapshots)

    def t(self, x, name, expand="last", requires_grad=False):
        x = x.detach().clone()
        lay = self.layout
        if lay == "expanded":
            if expand == "batch":
                own = x.contiguous()
                v = own.unsqueeze(0).expand(2, *own.shape)
            elif expand == "last" and x.dim() >= 1 and x.shape[-1] >= 1:
                own = x[..., :1].contiguous()
                v = own.expand(x.shape)
            else:
                self.degenerate += 1
                v, own = c13_ops.layout(x, "contiguous")
        else:
            v, own = c13_ops.layout(x, lay)
            if lay != "contiguous" and x.dim() == 0:
                self.degenerate += 1
        if requires_grad and v.is_floating_point():
            v.requires_grad_(True)
        if self.watching:
            self.watches.append(Watch(name, v, own))
        return v

    def sparse(self, indices, values, size, name, coalesce=False):
        i = self.t(indices, name + ".indices", expand="none")
        v = self.t(values, name + ".values", expand="none")
        sp = torch.sparse_coo_tensor(i, v, size)
        if coalesce:
            sp = sp.coalesce()
        if self.watching:
            self.watches.append(SparseWatch(name, sp))
        return sp

    def op(self, expr, name="op", dtype=torch.float64, requires_grad=False):
        """the real operator for an opbuild expression, its leaves laid out by this arena; a twin built in an
        independent arena provides the dense matrix the operator represents BEFORE the call"""
        op = self._build(expr, name, dtype, requires_grad)
        if self.watching:
            twin_dense = None
            try:
                tw = Arena(self.layout, watch=False)._build(expr, name, dtype, False)
                with warnings.catch_warnings():
                    warnings.simplefilter("ignore")
                    twin_dense = tw.to_dense().detach().to(torch.float64).clone()
            except Exception:
                twin_dense = None
            self.ops.append((name, op, twin_dense))
        return op

    def _build(self, expr, name, dtype, requires_grad):
        cnt = [0]
        orig = opbuild.tt

        def tt(t, dt=torch.float64):
            x = orig(t, dt)
            cnt[0] += 1
            ex = "batch"
            if x.dtype == torch.bool:
                ex = "none"
            return self.t(x, "%s.leaf%d" % (name, cnt[0]), expand=ex, requires_grad=requires_grad)
        opbuild.tt = tt
        try:
            return opbuild.build(expr, dtype)
        finally:
            opbuild.tt = orig

    def watch_op(self, op, name):
        """an operator created by an earlier step of a history: from now on it is a pre-existing operator"""
        try:
            d = op.to_dense().detach().to(torch.float64).clone()
        except Exception:
            d = None
        self.ops.append((name, op, d))

    def effects(self):
        hits = []
        for w in self.watches:
            e = w.effects()
            if e:
                hits.append({"arg": w.name, "effects": e})
        for name, op, d0 in self.ops:
            if d0 is None:
                continue
            try:
                with warnings.catch_warnings():
                    warnings.simplefilter("ignore")
                    d1 = op.to_dense().detach().to(torch.float64)
                if d1.shape != d0.shape or not c13_ops.same_bytes(d1, d0):
                    hits.append({"arg": name, "effects": ["operator-matrix"]})
            except Exception as ex:
                hits.append({"arg": name, "effects": ["operator-broken:" + repr(ex)[:60]]})
        if self.seq is not None:
            hits += self.seq.effects()
        return hits


# --------------------------------------------------------------------------------------------------
# profile hook: which library functions run, and are the translator's type assumptions true?

def _is_plain(v, depth=0):
    if v is None or isinstance(v, (bool, int, float, str, torch.Tensor, torch.Size, torch.dtype, torch.device, slice, type(Ellipsis))):
        return True
    if isinstance(v, (tuple, list)) and depth < 3:
        return all(_is_plain(x, depth + 1) for x in v)
    return False


class Profiler:
    def __init__(self, types):
        self.tp = types.get("tensor_params", {})
        self.tr = set(types.get("tensor_result_functions", []))
        self.executed = set()
        self.type_violations = []
        self.type_checks = 0

    def __call__(self, frame, event, arg):
        if event not in ("call", "return"):
            return
        co = frame.f_code
        fn = co.co_filename
        if not fn.startswith(LIBROOT):
            return
        rel = "linear_operator/" + fn[len(LIBROOT):]
        qual = co.co_qualname.replace(".<locals>", "")
        if event == "call":
            self.executed.add((rel, qual))
            ps = self.tp.get(rel + "::" + qual)
            if ps:
                for p in ps:
                    if p in frame.f_locals:
                        self.type_checks += 1
                        if not _is_plain(frame.f_locals[p]):
                            self.type_violations.append((rel, qual, p, type(frame.f_locals[p]).__name__))
        elif co.co_name in self.tr and "." not in qual:
            self.type_checks += 1
            if not _is_plain(arg):
                self.type_violations.append((rel, qual, "<return>", type(arg).__name__))


# --------------------------------------------------------------------------------------------------
# running one case

def run_case(case, layout, seed, profiler=None):
    """-> dict(status, hits, degenerate, executed)"""
    entry, variant, builder = case
    rng = random.Random("%s|%s|%s|%d" % (entry, variant, layout, seed))
    torch.manual_seed(rng.randrange(1 << 30))
    ar = Arena(layout)
    with warnings.catch_warnings():
        warnings.simplefilter("ignore")
        try:
            thunk = builder(ar, rng)
        except Exception as ex:
            return {"status": "build-failed", "error": repr(ex)[:200], "hits": [], "degenerate": ar.degenerate}
        # re-snapshot: building the operator may itself legitimately touch nothing, but take the snapshot as late as possible
        err = None
        if profiler is not None:
            sys.setprofile(profiler)
            threading.setprofile(profiler)
        try:
            thunk()
        except Exception as ex:
            err = repr(ex)[:200]
        finally:
            if profiler is not None:
                sys.setprofile(None)
                threading.setprofile(None)
        hits = ar.effects()
    out = {"status": "raised" if err else "ok", "error": err, "hits": hits, "degenerate": ar.degenerate}
    if ar.seq is not None:
        tr = ar.seq
        out["seq"] = {"calls": list(tr.done), "errors": sum(1 for d in tr.done if " !" in d), "tensors": len(tr.tw), "operators": len(tr.ops),
                      "where": dict(tr.where)}
        if err and err.startswith("HistoryHit"):
            for h in hits:
                h.setdefault("call", tr.done[-1] if tr.done else None)
                h.setdefault("step", len(tr.done) - 1)
    return out


def localise(case, layout, seed):
    """re-run under a line tracer; returns (relative file, function, line number, source text) of the library line
    during which the first caller tensor changed, or None"""
    entry, variant, builder = case
    rng = random.Random("%s|%s|%s|%d" % (entry, variant, layout, seed))
    torch.manual_seed(rng.randrange(1 << 30))
    ar = Arena(layout)
    found = []
    last = [None]

    def changed():
        for w in ar.watches:
            if w.effects():
                return True
        return ar.seq is not None and ar.seq.changed()

    def tracer(frame, event, arg):
        fn = frame.f_code.co_filename
        if not fn.startswith(LIBROOT):
            return None
        if not found and last[0] is not None and changed():
            found.append(last[0])
        if event == "line":
            last[0] = (fn, frame.f_code.co_qualname.replace(".<locals>", ""), frame.f_lineno)
        elif event == "return":
            # back in the caller: what executes next (e.g. the `+=` of `S += self.f()`) belongs to the caller's current line
            b = frame.f_back
            if b is not None and b.f_code.co_filename.startswith(LIBROOT):
                last[0] = (b.f_code.co_filename, b.f_code.co_qualname.replace(".<locals>", ""), b.f_lineno)
        return tracer
    with warnings.catch_warnings():
        warnings.simplefilter("ignore")
        try:
            thunk = builder(ar, rng)
        except Exception:
            return None
        sys.settrace(tracer)
        try:
            thunk()
        except Exception:
            pass
        finally:
            sys.settrace(None)
        if not found and last[0] is not None and changed():
            found.append(last[0])
    if not found:
        return None
    fn, qual, line = found[0]
    try:
        text = open(fn).read().split("\n")[line - 1].strip()
    except Exception:
        text = ""
    return ("linear_operator/" + fn[len(LIBROOT):], qual, line, text)
