"""Translator  linear_operator/utils/memoize.py  ->  coq/C12/gen/Memoize.v

Fail-closed: any construct outside the supported subset raises Untranslatable; the check then reports
the broken obligation (and searches the real objects for a history that violates the property).

The generated file is a SHALLOW embedding: one Gallina definition `py_<f>` per module-level function,
written with the combinators of coq/C12/MemoBase.v (state-and-error monad over the attribute
`obj._memoize_cache`).  coq/C12/MemoLaws.v proves the memoize protocol laws about these definitions,
coq/C12/Model.v builds every cached method of the operator model from `py_cached`.

Supported subset
  module level : imports, def
  plain function  f(obj|module|self, <params>, *args, **kwargs | kwargs_pkl=)   body:
      docstring | x = e | obj._memoize_cache = {} | obj._memoize_cache[K] = e | if e: ... [else: ...]
      | return e | try: ... except (E1, E2): raise E(...) | raise E(...)
  expressions  : names, str constants, K = (a, b, c) | a      (cache keys)
      hasattr(obj, "_memoize_cache") | K in obj._memoize_cache | obj._memoize_cache[K]
      | obj._memoize_cache.pop(K) | n in [x[0] for x in obj._memoize_cache.keys()]
      | a and b | not a | pickle.dumps(kwargs) | g(obj, ...)  (module function, *args / **kwargs / keywords)
      | name if name is not None else method | method(self, *args, **kwargs)
  decorator factories  d(method=None, name=None):  `if method is None: return functools.partial(d, name=name)`,
      one inner  @functools.wraps(method) def g(self, *args, **kwargs): <body>,  `return g`
  dispatcher   cached(method=None, name=None, ignore_args=False): if ignore_args: return A(...) else: return B(...)
"""
import ast
import os

ATTR = "_memoize_cache"
STATE_PARAMS = ("obj", "module", "self")
EXNS = {"CachingError", "KeyError", "AttributeError", "TypeError", "IndexError", "RuntimeError",
        "NotImplementedError", "ValueError"}
PTYPES = {"name": "name", "val": "V", "args": "list pyv", "kwargs": "kwargs", "kwargs_pkl": "kwargs",
          "ignore_args": "bool"}


class Untranslatable(Exception):
    pass


def U(msg, node=None):
    where = " (line %d)" % node.lineno if node is not None and hasattr(node, "lineno") else ""
    return Untranslatable(msg + where)


class Fn:
    def __init__(self, node):
        self.node = node
        self.name = node.name
        a = node.args
        if a.posonlyargs:
            raise U("positional-only parameters in %s" % node.name, node)
        self.pos = [x.arg for x in a.args]
        self.vararg = a.vararg.arg if a.vararg else None
        self.kwonly = [x.arg for x in a.kwonlyargs]
        self.kwarg = a.kwarg.arg if a.kwarg else None
        self.defaults = a.defaults
        self.kind = None      # plain | decorator | dispatcher
        self.params = None    # Gallina parameters, in order (python names)
        self.inner = None


class Translator:
    def __init__(self, src):
        self.tree = ast.parse(src)
        self.fns = {}
        self.order = []
        self.n = 0
        for node in self.tree.body:
            if isinstance(node, (ast.Import, ast.ImportFrom)):
                continue
            if isinstance(node, ast.Expr) and isinstance(node.value, ast.Constant) and isinstance(node.value.value, str):
                continue
            if isinstance(node, ast.FunctionDef):
                if node.decorator_list:
                    raise U("decorated module-level function %s" % node.name, node)
                if node.name in self.fns:
                    raise U("function %s defined twice" % node.name, node)
                self.fns[node.name] = Fn(node)
                continue
            raise U("module-level statement %s" % type(node).__name__, node)
        for f in self.fns.values():
            self.classify(f)

    # ------------------------------------------------------------------ classification
    def classify(self, f):
        if f.pos and f.pos[0] in STATE_PARAMS:
            f.kind = "plain"
            f.state = f.pos[0]
            f.params = f.pos[1:] + ([f.vararg] if f.vararg else []) + f.kwonly + ([f.kwarg] if f.kwarg else [])
            for p in f.params:
                if p not in PTYPES:
                    raise U("parameter %s of %s has no known type" % (p, f.name), f.node)
            if f.name == "clear_cache_hook":
                # registered as a torch hook: (module, *args, **kwargs) are ignored by contract
                f.params = []
            return
        if f.pos[:2] == ["method", "name"] and not f.vararg and not f.kwarg and not f.kwonly:
            if len(f.defaults) != len(f.pos) or any(not (isinstance(d, ast.Constant) and d.value in (None, False))
                                                     for d in f.defaults):
                raise U("defaults of %s" % f.name, f.node)
            inner = [s for s in f.node.body if isinstance(s, ast.FunctionDef)]
            if f.pos == ["method", "name"] and len(inner) == 1:
                f.kind = "decorator"
                f.inner = inner[0]
                f.params = ["method", "name", "body", "args", "kwargs"]
                return
            if f.pos == ["method", "name", "ignore_args"] and not inner:
                f.kind = "dispatcher"
                f.params = ["method", "name", "ignore_args"]
                return
        raise U("function %s has an unsupported signature" % f.name, f.node)

    def fresh(self, base="t"):
        self.n += 1
        return "%s%d" % (base, self.n)

    # ------------------------------------------------------------------ expressions
    # an expression translates to (binds, term): binds = [(var, monadic term)] evaluated left to right
    def is_attr(self, e, st):
        return isinstance(e, ast.Attribute) and e.attr == ATTR and isinstance(e.value, ast.Name) and e.value.id == st

    def key(self, e, env):
        """a dict key expression -> Gallina key"""
        if isinstance(e, ast.Tuple):
            if len(e.elts) != 3:
                raise U("cache key tuple of length %d" % len(e.elts), e)
            parts = []
            for x in e.elts:
                b, t = self.expr(x, env)
                if b:
                    raise U("effectful key component", x)
                parts.append(t)
            return "(KFull %s %s %s)" % tuple(parts)
        if isinstance(e, ast.Name):
            b, t = self.expr(e, env)
            return "(KName %s)" % t
        raise U("cache key expression %s" % type(e).__name__, e)

    def var(self, e, env):
        if e.id not in env["vars"]:
            raise U("unknown name %s" % e.id, e)
        return "v_" + e.id

    def expr(self, e, env):
        st = env["state"]
        if isinstance(e, ast.Name):
            return [], self.var(e, env)
        if isinstance(e, ast.Constant):
            if isinstance(e.value, str):
                return [], '"%s"%%string' % e.value.replace('"', '""')
            if e.value is True or e.value is False:
                return [], "true" if e.value else "false"
            raise U("constant %r" % (e.value,), e)
        if isinstance(e, ast.UnaryOp) and isinstance(e.op, ast.Not):
            b, t = self.expr(e.operand, env)
            return b, "(negb %s)" % t
        if isinstance(e, ast.BoolOp) and isinstance(e.op, ast.And):
            b0, t0 = self.expr(e.values[0], env)
            cur_b, cur_t = b0, t0
            for nxt in e.values[1:]:
                b1, t1 = self.expr(nxt, env)
                if not b1:
                    cur_t = "(andb %s %s)" % (cur_t, t1)
                    continue
                # short circuit: the right operand is only evaluated when the left one is true
                x = self.fresh("b")
                m = "(mand (ret %s) (%s))" % (cur_t, self.seq(b1, "ret %s" % t1))
                cur_b = cur_b + [(x, m)]
                cur_t = x
            return cur_b, cur_t
        if isinstance(e, ast.IfExp):
            # name if name is not None else method
            t = e.test
            if (isinstance(t, ast.Compare) and len(t.ops) == 1 and isinstance(t.ops[0], ast.IsNot)
                    and isinstance(t.left, ast.Name) and t.left.id == "name"
                    and isinstance(t.comparators[0], ast.Constant) and t.comparators[0].value is None
                    and isinstance(e.body, ast.Name) and e.body.id == "name"
                    and isinstance(e.orelse, ast.Name) and e.orelse.id == "method"
                    and env.get("decorator")):
                return [], "(name_of_opt v_name v_method)"
            raise U("conditional expression", e)
        if isinstance(e, ast.Compare):
            if len(e.ops) != 1 or not isinstance(e.ops[0], ast.In):
                raise U("comparison other than `in`", e)
            rhs = e.comparators[0]
            if self.is_attr(rhs, st):
                x = self.fresh("b")
                return [(x, "memo_contains %s" % self.key(e.left, env))], x
            if isinstance(rhs, ast.ListComp):
                lb, lt = self.listcomp(rhs, env)
                b, t = self.expr(e.left, env)
                return b + lb, "(name_in %s %s)" % (t, lt)
            raise U("`in` over %s" % type(rhs).__name__, e)
        if isinstance(e, ast.Subscript):
            if self.is_attr(e.value, st):
                x = self.fresh("x")
                return [(x, "memo_getitem %s" % self.key(e.slice, env))], x
            raise U("subscript", e)
        if isinstance(e, ast.Call):
            return self.call(e, env)
        raise U("expression %s" % type(e).__name__, e)

    def listcomp(self, e, env):
        st = env["state"]
        g = e.generators
        ok = (len(g) == 1 and not g[0].ifs and not g[0].is_async and isinstance(g[0].target, ast.Name)
              and isinstance(e.elt, ast.Subscript) and isinstance(e.elt.value, ast.Name)
              and e.elt.value.id == g[0].target.id and isinstance(e.elt.slice, ast.Constant) and e.elt.slice.value == 0
              and isinstance(g[0].iter, ast.Call) and isinstance(g[0].iter.func, ast.Attribute)
              and g[0].iter.func.attr == "keys" and self.is_attr(g[0].iter.func.value, st)
              and not g[0].iter.args and not g[0].iter.keywords)
        if not ok:
            raise U("list comprehension other than [x[0] for x in obj.%s.keys()]" % ATTR, e)
        ks, l = self.fresh("ks"), self.fresh("l")
        return [(ks, "memo_keys"), (l, "lift (listcomp key_index0 %s)" % ks)], l

    def call(self, e, env):
        st = env["state"]
        f = e.func
        # hasattr(obj, "_memoize_cache")
        if isinstance(f, ast.Name) and f.id == "hasattr":
            if (len(e.args) == 2 and isinstance(e.args[0], ast.Name) and e.args[0].id == st
                    and isinstance(e.args[1], ast.Constant) and e.args[1].value == ATTR and not e.keywords):
                x = self.fresh("h")
                return [(x, "hasattr_memo")], x
            raise U("hasattr on something else than the cache attribute", e)
        # pickle.dumps(kwargs)
        if isinstance(f, ast.Attribute) and isinstance(f.value, ast.Name) and f.value.id == "pickle" and f.attr == "dumps":
            if len(e.args) != 1 or e.keywords:
                raise U("pickle.dumps arguments", e)
            b, t = self.expr(e.args[0], env)
            return b, "(pickle_dumps %s)" % t
        # obj._memoize_cache.pop(K)
        if isinstance(f, ast.Attribute) and f.attr == "pop" and self.is_attr(f.value, st):
            if len(e.args) != 1 or e.keywords:
                raise U("dict.pop with a default", e)
            x = self.fresh("x")
            return [(x, "memo_pop %s" % self.key(e.args[0], env))], x
        # method(self, *args, **kwargs)
        if isinstance(f, ast.Name) and f.id == "method" and env.get("decorator"):
            a = e.args
            ok = (len(a) == 2 and isinstance(a[0], ast.Name) and a[0].id == st and isinstance(a[1], ast.Starred)
                  and isinstance(a[1].value, ast.Name) and a[1].value.id == "args" and len(e.keywords) == 1
                  and e.keywords[0].arg is None and isinstance(e.keywords[0].value, ast.Name)
                  and e.keywords[0].value.id == "kwargs")
            if not ok:
                raise U("the decorated method must be called as method(self, *args, **kwargs)", e)
            x = self.fresh("r")
            return [(x, "v_body v_args v_kwargs")], x
        # module function
        if isinstance(f, ast.Name) and f.id in self.fns:
            callee = self.fns[f.id]
            if callee.kind != "plain":
                raise U("call of decorator %s inside a function body" % f.id, e)
            if not e.args or not (isinstance(e.args[0], ast.Name) and e.args[0].id == st):
                raise U("call of %s on another object" % f.id, e)
            binds, actual = [], {}
            pos = [p for p in callee.pos[1:]]
            rest = list(e.args[1:])
            i = 0
            for a in rest:
                if isinstance(a, ast.Starred):
                    if callee.vararg is None or i != len(pos):
                        raise U("*args does not line up with the callee's *%s" % callee.vararg, e)
                    b, t = self.expr(a.value, env)
                    binds += b
                    actual[callee.vararg] = t
                    i += 1
                else:
                    if i >= len(pos):
                        raise U("too many positional arguments for %s" % f.id, e)
                    b, t = self.expr(a, env)
                    binds += b
                    actual[pos[i]] = t
                    i += 1
            for kw in e.keywords:
                b, t = self.expr(kw.value, env)
                binds += b
                if kw.arg is None:
                    if callee.kwarg is None:
                        raise U("**kwargs passed to %s which takes none" % f.id, e)
                    actual[callee.kwarg] = t
                else:
                    if kw.arg not in callee.kwonly and kw.arg not in pos:
                        raise U("unknown keyword %s for %s" % (kw.arg, f.id), e)
                    actual[kw.arg] = t
            if callee.vararg and callee.vararg not in actual:
                actual[callee.vararg] = "[]"
            if callee.kwarg and callee.kwarg not in actual:
                actual[callee.kwarg] = "[]"
            missing = [p for p in callee.params if p not in actual]
            if missing:
                raise U("call of %s misses %s" % (f.id, missing), e)
            env["calls"].add(f.id)
            x = self.fresh("r")
            return binds + [(x, "py_%s %s" % (f.id, " ".join(actual[p] for p in callee.params)) if callee.params
                             else "py_%s" % f.id)], x
        raise U("call of %s" % ast.dump(f)[:60], e)

    def seq(self, binds, last):
        out = ""
        for v, m in binds:
            out += "%s <- %s ;; " % (v, m)
        return out + last

    # ------------------------------------------------------------------ statements
    def returns(self, stmts):
        """does every path through stmts end in return/raise?"""
        if not stmts:
            return False
        s = stmts[-1]
        if isinstance(s, (ast.Return, ast.Raise)):
            return True
        if isinstance(s, ast.If):
            return self.returns(s.body) and self.returns(s.orelse)
        if isinstance(s, ast.Try):
            return self.returns(s.body) and all(self.returns(h.body) for h in s.handlers)
        return False

    def exn_of(self, e):
        if isinstance(e, ast.Call) and isinstance(e.func, ast.Name) and e.func.id in EXNS:
            return e.func.id
        if isinstance(e, ast.Name) and e.id in EXNS:
            return e.id
        raise U("raise of %s" % ast.dump(e)[:60], e)

    def block(self, stmts, env, unit=False):
        """translate a statement list to a monadic term; unit=True: a block that falls through (M unit)"""
        st = env["state"]
        if not stmts:
            if unit:
                return "ret tt"
            raise U("function may fall off its end")
        s, rest = stmts[0], stmts[1:]
        if isinstance(s, ast.Expr) and isinstance(s.value, ast.Constant) and isinstance(s.value.value, str):
            return self.block(rest, env, unit)
        if isinstance(s, ast.Pass):
            return self.block(rest, env, unit)
        if isinstance(s, ast.Return):
            if unit or s.value is None:
                raise U("return in a fall-through block", s)
            b, t = self.expr(s.value, env)
            # tail call: `x <- m ;; ret x`  is  m
            if b and b[-1][0] == t:
                return "(" + self.seq(b[:-1], b[-1][1]) + ")"
            return "(" + self.seq(b, "ret %s" % t) + ")"
        if isinstance(s, ast.Raise):
            if s.exc is None or s.cause is not None:
                raise U("re-raise", s)
            return "(raise %s)" % self.exn_of(s.exc)
        if isinstance(s, ast.Assign):
            if len(s.targets) != 1:
                raise U("multiple assignment", s)
            tg = s.targets[0]
            if self.is_attr(tg, st):
                if not (isinstance(s.value, ast.Dict) and not s.value.keys):
                    raise U("the cache attribute may only be assigned {}", s)
                return "(setattr_memo [] ;;; %s)" % self.block(rest, env, unit)
            if isinstance(tg, ast.Subscript) and self.is_attr(tg.value, st):
                k = self.key(tg.slice, env)
                b, t = self.expr(s.value, env)
                return "(" + self.seq(b, "memo_setitem %s %s ;;; %s" % (k, t, self.block(rest, env, unit))) + ")"
            if isinstance(tg, ast.Name):
                b, t = self.expr(s.value, env)
                env2 = dict(env)
                env2["vars"] = env["vars"] | {tg.id}
                return "(" + self.seq(b, "let v_%s := %s in %s" % (tg.id, t, self.block(rest, env2, unit))) + ")"
            raise U("assignment target", s)
        if isinstance(s, ast.If):
            b, t = self.expr(s.test, env)
            if self.returns(s.body):
                then = self.block(s.body, env)
                els = self.block(list(s.orelse) + rest, env, unit)
                return "(" + self.seq(b, "if %s then %s else %s" % (t, then, els)) + ")"
            if s.orelse:
                raise U("if/else where the branches fall through", s)
            then = self.block(s.body, env, unit=True)
            return "(" + self.seq(b, "when %s %s ;;; %s" % (t, then, self.block(rest, env, unit))) + ")"
        if isinstance(s, ast.Try):
            if s.orelse or s.finalbody or len(s.handlers) != 1 or rest:
                raise U("try statement shape", s)
            h = s.handlers[0]
            if h.name is not None:
                raise U("except ... as", s)
            if isinstance(h.type, ast.Tuple):
                exs = [self.exn_of(x) for x in h.type.elts]
            elif h.type is not None:
                exs = [self.exn_of(h.type)]
            else:
                raise U("bare except", s)
            body = self.block(s.body, env)
            hb = self.block(h.body, env)
            return "(catch %s [%s] %s)" % (body, "; ".join(exs), hb)
        raise U("statement %s" % type(s).__name__, s)

    # ------------------------------------------------------------------ functions
    def plain(self, f):
        env = {"state": f.state, "vars": set(f.params), "calls": set()}
        body = [s for s in f.node.body]
        if f.name == "clear_cache_hook":
            term = self.block(body, env, unit=True)
        else:
            term = self.block(body, env)
        ps = " ".join("(v_%s : %s)" % (p, PTYPES[p]) for p in f.params)
        return "Definition py_%s %s : M S _ :=\n  %s." % (f.name, ps, term), env["calls"]

    def decorator(self, f):
        body = list(f.node.body)
        body = [s for s in body if not (isinstance(s, ast.Expr) and isinstance(s.value, ast.Constant))]
        # if method is None: return functools.partial(<f>, name=name)
        ok = (len(body) == 3 and isinstance(body[0], ast.If) and not body[0].orelse
              and isinstance(body[0].test, ast.Compare) and isinstance(body[0].test.ops[0], ast.Is)
              and isinstance(body[0].test.left, ast.Name) and body[0].test.left.id == "method"
              and isinstance(body[0].test.comparators[0], ast.Constant) and body[0].test.comparators[0].value is None
              and len(body[0].body) == 1 and isinstance(body[0].body[0], ast.Return))
        if ok:
            r = body[0].body[0].value
            ok = (isinstance(r, ast.Call) and isinstance(r.func, ast.Attribute) and r.func.attr == "partial"
                  and len(r.args) == 1 and isinstance(r.args[0], ast.Name) and r.args[0].id == f.name
                  and len(r.keywords) == 1 and r.keywords[0].arg == "name" and isinstance(r.keywords[0].value, ast.Name)
                  and r.keywords[0].value.id == "name")
        ok = ok and body[1] is f.inner and isinstance(body[2], ast.Return) and isinstance(body[2].value, ast.Name) \
            and body[2].value.id == f.inner.name
        if not ok:
            raise U("decorator factory %s does not have the partial / wraps / return shape" % f.name, f.node)
        g = Fn(f.inner)
        decs = f.inner.decorator_list
        okd = (len(decs) == 1 and isinstance(decs[0], ast.Call) and isinstance(decs[0].func, ast.Attribute)
               and decs[0].func.attr == "wraps" and len(decs[0].args) == 1 and isinstance(decs[0].args[0], ast.Name)
               and decs[0].args[0].id == "method")
        if not okd or g.pos != ["self"] or g.vararg != "args" or g.kwarg != "kwargs" or g.kwonly:
            raise U("inner function of %s must be @functools.wraps(method) def g(self, *args, **kwargs)" % f.name, f.inner)
        env = {"state": "self", "vars": {"method", "name", "args", "kwargs"}, "calls": set(), "decorator": True}
        term = self.block(list(f.inner.body), env)
        return ("Definition py_%s (v_method : string) (v_name : option string) (v_body : list pyv -> kwargs -> M S V)\n"
                "    (v_args : list pyv) (v_kwargs : kwargs) : M S V :=\n  %s." % (f.name, term)), env["calls"]

    def dispatcher(self, f):
        body = [s for s in f.node.body if not (isinstance(s, ast.Expr) and isinstance(s.value, ast.Constant))]
        ok = (len(body) == 1 and isinstance(body[0], ast.If) and isinstance(body[0].test, ast.Name)
              and body[0].test.id == "ignore_args" and len(body[0].body) == 1 and len(body[0].orelse) == 1
              and isinstance(body[0].body[0], ast.Return) and isinstance(body[0].orelse[0], ast.Return))
        if not ok:
            raise U("dispatcher %s shape" % f.name, f.node)
        calls = set()

        def tgt(r):
            c = r.value
            okc = (isinstance(c, ast.Call) and isinstance(c.func, ast.Name) and c.func.id in self.fns
                   and self.fns[c.func.id].kind == "decorator" and not c.args
                   and sorted(k.arg for k in c.keywords) == ["method", "name"]
                   and all(isinstance(k.value, ast.Name) and k.value.id == k.arg for k in c.keywords))
            if not okc:
                raise U("dispatcher %s must forward method=method, name=name" % f.name, r)
            calls.add(c.func.id)
            return "py_%s v_method v_name" % c.func.id
        a, b = tgt(body[0].body[0]), tgt(body[0].orelse[0])
        return ("Definition py_%s (v_method : string) (v_name : option string) (v_ignore_args : bool)\n"
                "    : (list pyv -> kwargs -> M S V) -> list pyv -> kwargs -> M S V :=\n"
                "  if v_ignore_args then %s else %s." % (f.name, a, b)), calls

    def emit(self):
        defs, deps = {}, {}
        for f in self.fns.values():
            d, c = {"plain": self.plain, "decorator": self.decorator, "dispatcher": self.dispatcher}[f.kind](f)
            defs[f.name], deps[f.name] = d, c
        order, seen, stack = [], set(), set()

        def visit(n):
            if n in seen:
                return
            if n in stack:
                raise Untranslatable("recursive function %s" % n)
            stack.add(n)
            for m in sorted(deps[n]):
                visit(m)
            stack.discard(n)
            seen.add(n)
            order.append(n)
        for n in self.fns:
            visit(n)
        out = ["(* GENERATED by harness/c12_memo_tr.py from linear_operator/utils/memoize.py - do not edit *)",
               "From Coq Require Import List String Bool ZArith.", "Import ListNotations.",
               "Require Import C12.MemoBase.", "", "Section Memoize.", "Context {S V : Type} {L : lens S V}.", ""]
        for n in order:
            out.append(defs[n])
            out.append("")
        out.append("End Memoize.")
        meta = {"functions": order, "kinds": {n: self.fns[n].kind for n in order},
                "params": {n: self.fns[n].params for n in order}}
        return "\n".join(out) + "\n", meta


REQUIRED = ["cached", "_cached", "_cached_ignore_args", "add_to_cache", "get_from_cache", "pop_from_cache",
            "pop_from_cache_ignore_args", "clear_cache_hook", "_add_to_cache", "_get_from_cache", "_is_in_cache",
            "_add_to_cache_ignore_args", "_get_from_cache_ignore_args", "_is_in_cache_ignore_args",
            "_is_in_cache_ignore_all_args"]


def translate(repo):
    p = os.path.join(repo, "linear_operator", "utils", "memoize.py")
    try:
        src = open(p).read()
        tr = Translator(src)
        code, meta = tr.emit()
    except SyntaxError as ex:
        raise Untranslatable("syntax error in memoize.py: %s" % ex)
    missing = [f for f in REQUIRED if f not in meta["functions"]]
    if missing:
        raise Untranslatable("memoize.py no longer defines %s" % missing)
    return code, meta


# --------------------------------------------------------------------------------------------------------------
# the three defect sites of linear_operator/operators/_linear_operator.py the model depends on (gen/SourceFlags.v)

def _method(tree, cls, name):
    for node in tree.body:
        if isinstance(node, ast.ClassDef) and node.name == cls:
            for st in node.body:
                if isinstance(st, ast.FunctionDef) and st.name == name:
                    return st
    raise Untranslatable("%s.%s not found" % (cls, name))


def _pop_branch_return(fn):
    """the `return` of   try: evals, evecs = pop_from_cache(self, "symeig", eigenvectors=True); return <X>"""
    tries = [s for s in fn.body if isinstance(s, ast.Try)]
    if len(tries) != 1:
        raise Untranslatable("%s: expected exactly one try statement" % fn.name)
    t = tries[0]
    ok = (len(t.body) == 2 and isinstance(t.body[0], ast.Assign) and isinstance(t.body[0].value, ast.Call)
          and isinstance(t.body[0].value.func, ast.Name) and t.body[0].value.func.id == "pop_from_cache"
          and len(t.body[0].value.args) == 2 and isinstance(t.body[0].value.args[1], ast.Constant)
          and t.body[0].value.args[1].value == "symeig"
          and [k.arg for k in t.body[0].value.keywords] == ["eigenvectors"]
          and isinstance(t.body[1], ast.Return)
          and len(t.handlers) == 1 and isinstance(t.handlers[0].type, ast.Name) and t.handlers[0].type.id == "CachingError")
    if not ok:
        raise Untranslatable("%s: the pop_from_cache(self, \"symeig\", eigenvectors=True) branch changed shape" % fn.name)
    tg = t.body[0].targets[0]
    if not (isinstance(tg, ast.Tuple) and [getattr(x, "id", None) for x in tg.elts] == ["evals", "evecs"]):
        raise Untranslatable("%s: pop target" % fn.name)
    return t.body[1].value


def source_flags(repo):
    p = os.path.join(repo, "linear_operator", "operators", "_linear_operator.py")
    try:
        tree = ast.parse(open(p).read())
    except SyntaxError as ex:
        raise Untranslatable("syntax error in _linear_operator.py: %s" % ex)
    # add_low_rank:  if return_triangular: updated_root = TriangularLinearOperator(updated_root)
    alr = _method(tree, "LinearOperator", "add_low_rank")
    wraps = False
    for node in ast.walk(alr):
        if isinstance(node, ast.If) and isinstance(node.test, ast.Name) and node.test.id == "return_triangular":
            for st in node.body:
                if (isinstance(st, ast.Assign) and isinstance(st.targets[0], ast.Name) and st.targets[0].id == "updated_root"
                        and isinstance(st.value, ast.Call) and isinstance(st.value.func, ast.Name)
                        and st.value.func.id == "TriangularLinearOperator"):
                    wraps = True
    names = {n.id for n in ast.walk(alr) if isinstance(n, ast.Name)}
    if not {"updated_root", "updated_inv_root", "current_root", "current_inv_root"} <= names:
        raise Untranslatable("add_low_rank no longer has the update structure the model transcribes")
    r1 = _pop_branch_return(_method(tree, "LinearOperator", "eigh"))
    r2 = _pop_branch_return(_method(tree, "LinearOperator", "eigvalsh"))

    def shape(r):
        if isinstance(r, ast.Name):
            return r.id
        if isinstance(r, ast.Tuple) and len(r.elts) == 2:
            return tuple(x.id if isinstance(x, ast.Name) else (None if isinstance(x, ast.Constant) and x.value is None else "?")
                         for x in r.elts)
        return "?"
    s1, s2 = shape(r1), shape(r2)
    if s1 not in (("evals", None), ("evals", "evecs")):
        raise Untranslatable("eigh: unexpected return %r in the pop branch" % (s1,))
    if s2 not in (("evals", None), "evals"):
        raise Untranslatable("eigvalsh: unexpected return %r in the pop branch" % (s2,))
    fl = {"lr_wraps": wraps, "eigh_none": s1 == ("evals", None), "eigvalsh_tuple": s2 != "evals",
          "kron_rootinv_noargs": _kron_rootinv_noargs(repo)}
    code = ("(* GENERATED by harness/c12_memo_tr.py from linear_operator/operators/_linear_operator.py and "
            "kronecker_product_linear_operator.py - do not edit *)\n"
            "Require Import C12.Model.\n"
            "Definition flags : srcflags := {| fl_lr_wraps := %s; fl_eigh_none := %s; fl_eigvalsh_tuple := %s; "
            "fl_kron_rootinv_noargs := %s |}.\n"
            % tuple("true" if fl[k] else "false" for k in ("lr_wraps", "eigh_none", "eigvalsh_tuple", "kron_rootinv_noargs")))
    return code, fl


def _kron_rootinv_noargs(repo):
    """KroneckerProductLinearOperator.root_inv_decomposition, small branch:
         return super().root_inv_decomposition()                                            -> True  (pinned: arguments dropped)
         return super().root_inv_decomposition(initial_vectors=initial_vectors,
                                               test_vectors=test_vectors, method=method)    -> False (repaired)
       anything else is outside what the model transcribes"""
    p = os.path.join(repo, "linear_operator", "operators", "kronecker_product_linear_operator.py")
    try:
        tree = ast.parse(open(p).read())
    except SyntaxError as ex:
        raise Untranslatable("syntax error in kronecker_product_linear_operator.py: %s" % ex)
    f = _method(tree, "KroneckerProductLinearOperator", "root_inv_decomposition")
    calls = []
    for node in ast.walk(f):
        if (isinstance(node, ast.Call) and isinstance(node.func, ast.Attribute) and node.func.attr == "root_inv_decomposition"
                and isinstance(node.func.value, ast.Call) and isinstance(node.func.value.func, ast.Name)
                and node.func.value.func.id == "super"):
            calls.append(node)
    if len(calls) != 1:
        raise Untranslatable("KroneckerProductLinearOperator.root_inv_decomposition: expected one super() call, found %d" % len(calls))
    c = calls[0]
    if not c.args and not c.keywords:
        return True
    kws = [(k.arg, k.value.id if isinstance(k.value, ast.Name) else None) for k in c.keywords]
    if not c.args and kws == [("initial_vectors", "initial_vectors"), ("test_vectors", "test_vectors"), ("method", "method")]:
        return False
    raise Untranslatable("KroneckerProductLinearOperator.root_inv_decomposition: super() call with arguments the model does not transcribe")


def cache_sites(repo):
    """two finite tables read from linear_operator/operators/*.py (ast):
       cached_sites   (class, method, cache name or "", ignore_args, number of parameters besides self) for every @cached
       handover_sites (module, function, target expression, cache name) for every add_to_cache(<target>, "<name>", ...)
    They are emitted as coq/C12/gen/CacheSites.v; Property.v states over them that ignore_args is used on a method with
    arguments only where its soundness is proved, that a cache name belongs to one method name, and that the hand-over
    sites (add_to_cache onto ANOTHER object) are exactly the ones the model transcribes."""
    d = os.path.join(repo, "linear_operator", "operators")
    cached, hand = [], []
    for fn in sorted(os.listdir(d)):
        if not fn.endswith(".py"):
            continue
        try:
            tree = ast.parse(open(os.path.join(d, fn)).read())
        except SyntaxError as ex:
            raise Untranslatable("syntax error in %s: %s" % (fn, ex))
        mod = fn[:-3]
        for cls in [n for n in ast.walk(tree) if isinstance(n, ast.ClassDef)]:
            for f in [n for n in cls.body if isinstance(n, ast.FunctionDef)]:
                for dec in f.decorator_list:
                    name, ign, is_c = "", False, False
                    if isinstance(dec, ast.Name) and dec.id == "cached":
                        is_c = True
                    elif isinstance(dec, ast.Call) and isinstance(dec.func, ast.Name) and dec.func.id == "cached":
                        is_c = True
                        for kw in dec.keywords:
                            if kw.arg == "name":
                                if not (isinstance(kw.value, ast.Constant) and isinstance(kw.value.value, str)):
                                    raise Untranslatable("%s.%s: @cached name is not a string literal" % (cls.name, f.name))
                                name = kw.value.value
                            elif kw.arg == "ignore_args":
                                if not isinstance(kw.value, ast.Constant):
                                    raise Untranslatable("%s.%s: @cached ignore_args is not a literal" % (cls.name, f.name))
                                ign = bool(kw.value.value)
                            else:
                                raise Untranslatable("%s.%s: @cached with keyword %s" % (cls.name, f.name, kw.arg))
                        if dec.args:
                            raise Untranslatable("%s.%s: @cached with positional arguments" % (cls.name, f.name))
                    if is_c:
                        a = f.args
                        npar = len(a.args) - 1 + len(a.kwonlyargs) + (1 if a.vararg else 0) + (1 if a.kwarg else 0)
                        cached.append((cls.name, f.name, name, ign, npar))
        for f in [n for n in ast.walk(tree) if isinstance(n, ast.FunctionDef)]:
            for c in ast.walk(f):
                if isinstance(c, ast.Call) and isinstance(c.func, ast.Name) and c.func.id == "add_to_cache" and len(c.args) >= 2:
                    tgt = c.args[0].id if isinstance(c.args[0], ast.Name) else ast.dump(c.args[0])[:40]
                    nm = c.args[1].value if isinstance(c.args[1], ast.Constant) else "?"
                    hand.append((mod, f.name, tgt, str(nm)))
    q = lambda x: '"%s"' % x.replace('"', '""')                                                                    # noqa: E731
    code = ("(* GENERATED by harness/c12_memo_tr.py from linear_operator/operators/*.py - do not edit *)\n"
            "From Coq Require Import List String.\nImport ListNotations.\nOpen Scope string_scope.\n"
            "Definition cached_sites : list (string * string * string * bool * nat) := [\n  %s].\n"
            "Definition handover_sites : list (string * string * string * string) := [\n  %s].\n"
            % (";\n  ".join("(%s, %s, %s, %s, %d)" % (q(a_), q(b_), q(c_), "true" if d_ else "false", e_) for (a_, b_, c_, d_, e_) in cached),
               ";\n  ".join("(%s, %s, %s, %s)" % (q(a_), q(b_), q(c_), q(d_)) for (a_, b_, c_, d_) in hand)))
    return code, {"cached": cached, "handover": hand}


if __name__ == "__main__":
    import sys
    print(translate(sys.argv[1] if len(sys.argv) > 1 else "/repo")[0])
