"""Translator  linear_operator/settings.py (+ beta_features.py)  ->  coq/C17/gen/Settings.v

Fail-closed: any construct outside the supported subset raises Untranslatable; the check then
reports the broken obligation (and searches the real classes for a leaking history).

Supported subset (see DESIGN.md C17): classes deriving (single inheritance) from a base that
defines __init__/__enter__/__exit__; class-body constants; classmethods whose bodies consist of
  cls.A = e | if e is [not] None: ... | if cond: ... elif ... else ... | return e | raise ...
  | super().m(...) | cls.m(...) ;
instance methods additionally  self.F = e | self.F.append(e) | self.F += [e] | self.F = self.F + [e] | x = self.F.pop()
  | self.__class__.m(...) | type(self).m(...) | k = self.__class__ (a local alias of the class; never stored)
expressions: constants, torch dtypes, names, attribute reads, `a if c else b`, `a or b`, `a and b`, `not a`,
  `x is [not] None`, `a == b`, calls of the class methods.  Truthiness follows Python: None, False, numeric zero
  (token 0 is RESERVED for 0 / 0.0 / -0.0) and the empty list are false, everything else is true.
composite classes whose __init__ builds part contexts  self.P = Cls(e)  and whose
__enter__/__exit__ call self.P.__enter__() / self.P.__exit__().
"""
import ast
import os

SLOTS = {"_state": "s_state", "_global_value": "s_gv", "_global_float_value": "s_fv",
         "_global_double_value": "s_dv", "_global_half_value": "s_hv"}
SLOT_ORDER = ["s_state", "s_gv", "s_fv", "s_dv", "s_hv"]
DTYPES = {"float": "float", "float32": "float", "double": "double", "float64": "double", "half": "half",
          "float16": "half"}


class Untranslatable(Exception):
    pass


CLS = "@cls"     # pseudo value: a reference to the class object (self.__class__ / type(self) / cls); never emitted


def canon_num(v):
    """canonical text of a number: Python compares numbers by value (0 == 0.0 == -0.0, 1 == 1.0), and every zero is
    falsy; all zeros share token 0"""
    if v == 0:
        return "0"
    if float(v) == int(v) and abs(v) < 2 ** 53:
        return repr(int(v))
    return repr(v)


class ClassInfo:
    def __init__(self, name, node, base):
        self.name, self.node, self.base = name, node, base
        self.consts = {}      # class-body  NAME = constant
        self.methods = {}     # name -> (FunctionDef, is_classmethod)
        self.other_attrs = []


class Translator:
    def __init__(self, sources):
        self.classes = {}
        self.consts_table = ["0"]  # canonical text of every literal constant -> token index; 0 = numeric zero (falsy)
        self.resets = {}
        self.path_resets = {}      # (class, method) -> list over execution paths of the set of non-slot attributes reset to None
        for src in sources:
            self.load(src)
        self.n = 0

    # ------------------------------------------------------------------ loading
    def load(self, src):
        tree = ast.parse(src)
        for node in tree.body:
            if not isinstance(node, ast.ClassDef):
                continue
            if len(node.bases) > 1:
                raise Untranslatable("multiple inheritance in %s" % node.name)
            base = None
            if node.bases:
                b = node.bases[0]
                if isinstance(b, ast.Name):
                    base = b.id
                else:
                    raise Untranslatable("base of %s" % node.name)
            ci = ClassInfo(node.name, node, base)
            for st in node.body:
                if isinstance(st, ast.FunctionDef):
                    iscm = any(isinstance(d, ast.Name) and d.id == "classmethod" for d in st.decorator_list)
                    if any(not (isinstance(d, ast.Name) and d.id == "classmethod") for d in st.decorator_list):
                        raise Untranslatable("decorator in %s.%s" % (node.name, st.name))
                    ci.methods[st.name] = (st, iscm)
                elif isinstance(st, ast.Assign) and len(st.targets) == 1 and isinstance(st.targets[0], ast.Name):
                    nm = st.targets[0].id
                    try:
                        ci.consts[nm] = self.const_of(st.value)
                    except Untranslatable:
                        if nm in SLOTS or nm == "_default":
                            raise
                        ci.other_attrs.append(nm)
                elif isinstance(st, ast.Expr):
                    pass   # docstring or logger set-up calls (verbose_linalg); not a settings slot
                elif isinstance(st, ast.Pass):
                    pass
                else:
                    raise Untranslatable("class body statement in %s: %s" % (node.name, ast.dump(st)[:80]))
            self.classes[node.name] = ci

    def const_of(self, e):
        """python constant expression -> Gallina val"""
        if isinstance(e, ast.Constant):
            v = e.value
            if v is None:
                return "VNone"
            if v is True or v is False:
                return "(VBool %s)" % ("true" if v else "false")
            if isinstance(v, (int, float)):
                return self.tok(canon_num(v))
            raise Untranslatable("constant %r" % (v,))
        if isinstance(e, ast.UnaryOp) and isinstance(e.op, ast.USub) and isinstance(e.operand, ast.Constant) and \
                isinstance(e.operand.value, (int, float)) and not isinstance(e.operand.value, bool):
            return self.tok(canon_num(-e.operand.value))
        if isinstance(e, ast.Attribute) and isinstance(e.value, ast.Name) and e.value.id == "torch" and e.attr in DTYPES:
            return self.tok("torch." + DTYPES[e.attr])
        raise Untranslatable("not a constant: %s" % ast.dump(e)[:80])

    def tok(self, rep):
        if rep not in self.consts_table:
            self.consts_table.append(rep)
        i = self.consts_table.index(rep)
        if rep.startswith("-") and rep[1:2].isdigit():
            return "(VTok (-%d)%%Z)" % i        # negative numbers carry negative tokens (vsign)
        return "(VTok %d%%Z)" % i

    def mro(self, name):
        out = []
        while name is not None:
            if name not in self.classes:
                if name == "object":
                    break
                raise Untranslatable("unknown base %s" % name)
            out.append(name)
            name = self.classes[name].base
        return out

    def find_method(self, start_mro, m):
        for c in start_mro:
            if m in self.classes[c].methods:
                return c, self.classes[c].methods[m]
        return None, None

    def class_const(self, cls, attr):
        for c in self.mro(cls):
            if attr in self.classes[c].consts:
                return self.classes[c].consts[attr]
        raise Untranslatable("class attribute %s.%s is not a constant" % (cls, attr))

    def is_prim(self, name):
        m = self.mro(name)
        return all(self.find_method(m, x)[0] for x in ("__init__", "__enter__", "__exit__")) and \
            any(a in SLOTS for c in m for a in self.classes[c].consts)

    def kind_of(self, name):
        has = {a for c in self.mro(name) for a in self.classes[c].consts}
        if "_state" in has:
            return "KFlag"
        if "_global_value" in has:
            return "KValue"
        if "_global_float_value" in has:
            return "KDtype"
        raise Untranslatable("kind of %s" % name)

    def fresh(self, p="x"):
        self.n += 1
        return "%s%d" % (p, self.n)

    # ------------------------------------------------------------------ symbolic execution
    # env: dict(cls, mro_from (list for method lookup), sv {slot: expr}, fields [expr], fieldnames [str],
    #           locals {name: expr}, self_ok bool)
    # expressions are Gallina terms of type val ; emit returns a Gallina term of type option (...)

    def expr(self, e, env, k):
        """CPS: evaluate python expression e in env, call k(gallina_val_expr, env)."""
        if isinstance(e, ast.Constant) or (isinstance(e, ast.UnaryOp) and isinstance(e.op, ast.USub)) or \
                (isinstance(e, ast.Attribute) and isinstance(e.value, ast.Name) and e.value.id == "torch"):
            return k(self.const_of(e), env)
        if isinstance(e, ast.Name):
            if e.id in env["locals"]:
                return k(env["locals"][e.id], env)
            if e.id == "cls" and env.get("cls_ok"):
                return k(CLS, env)
            raise Untranslatable("unknown name %s" % e.id)
        if self.is_class_ref(e, env):
            return k(CLS, env)
        if isinstance(e, ast.List) and not e.elts:
            return k("(VList [])", env)
        if isinstance(e, ast.BoolOp) and isinstance(e.op, (ast.Or, ast.And)):
            # Python: `a or b` is a if a is true else b ; `a and b` is a if a is false else b (value, not bool)
            is_or = isinstance(e.op, ast.Or)

            def go(i, en):
                if i == len(e.values) - 1:
                    return self.expr(e.values[i], en, k)

                def kk(v, en2):
                    self.no_cls(v)
                    keep = lambda: k(v, self.copy(en2))
                    more = lambda: go(i + 1, self.copy(en2))
                    if v in ("(VBool false)", "VNone", "(VTok 0%Z)", "(VList [])"):
                        return more() if is_or else keep()
                    if v == "(VBool true)" or (v.startswith("(VTok ") and v != "(VTok 0%Z)"):
                        return keep() if is_or else more()
                    return "(if truthy %s then %s else %s)" % ((v, keep(), more()) if is_or else (v, more(), keep()))
                return self.expr(e.values[i], en, kk)
            return go(0, env)
        if isinstance(e, ast.BinOp) and isinstance(e.op, ast.Add) and isinstance(e.right, ast.List) and len(e.right.elts) == 1:
            # l + [x]  (a NEW list; the model's lists are values, stack top = head, see vappend/vpop)
            def kl(l, en):
                self.no_cls(l)

                def kx(x, en2):
                    self.no_cls(x)
                    r = self.fresh("l")
                    return "match vappend %s %s with None => None | Some %s => %s end" % (l, x, r, k(r, en2))
                return self.expr(e.right.elts[0], en, kx)
            return self.expr(e.left, env, kl)
        if isinstance(e, ast.UnaryOp) and isinstance(e.op, ast.Not):
            return self.expr(e.operand, env, lambda v, en: k("(vnot %s)" % v, en))
        if isinstance(e, ast.IfExp):
            return self.cond(e.test, env,
                             lambda en: self.expr(e.body, en, k),
                             lambda en: self.expr(e.orelse, en, k))
        if isinstance(e, ast.Attribute):
            tgt = self.target_kind(e.value, env)
            if tgt == "self":
                if e.attr in env["fieldnames"]:
                    return k(env["fields"][env["fieldnames"].index(e.attr)], env)
                raise Untranslatable("read of unknown field self.%s" % e.attr)
            if tgt == "cls":
                if e.attr in SLOTS:
                    return k(env["sv"][SLOTS[e.attr]], env)
                return k(self.class_const(env["cls"], e.attr), env)
            raise Untranslatable("attribute read %s" % ast.dump(e)[:80])
        if isinstance(e, ast.Call):
            f = e.func
            if isinstance(f, ast.Attribute) and f.attr == "pop" and not e.args and \
                    isinstance(f.value, ast.Attribute) and self.target_kind(f.value.value, env) == "self":
                fld = f.value.attr
                if fld not in env["fieldnames"]:
                    raise Untranslatable("pop on unknown field")
                i = env["fieldnames"].index(fld)
                x, r = self.fresh("p"), self.fresh("l")
                en = self.copy(env)
                en["dirty"] = "self.%s.pop" % fld
                en["fields"][i] = r
                return "match vpop %s with None => None | Some (%s, %s) => %s end" % (env["fields"][i], x, r, k(x, en))
            if isinstance(f, ast.Attribute) and f.attr == "is_tensor" and isinstance(f.value, ast.Name) and f.value.id == "torch":
                # torch.is_tensor(x): the harness only passes dtypes / python scalars
                return k("(VBool false)", env)
            if isinstance(f, ast.Attribute):
                tk = self.call_target(f, env)
                if tk is not None:
                    return self.call_method(tk, f.attr, e, env, k, want_value=True)
            raise Untranslatable("call %s" % ast.dump(e)[:100])
        if isinstance(e, ast.Compare) and len(e.ops) == 1 and isinstance(e.ops[0], (ast.Is, ast.IsNot)) and \
                isinstance(e.comparators[0], ast.Constant) and e.comparators[0].value is None:
            pos = isinstance(e.ops[0], ast.Is)
            return self.expr(e.left, env, lambda v, en: k("(VBool (%sis_none %s))" % ("" if pos else "negb (", v) + ("" if pos else ")"), en))
        if isinstance(e, ast.Compare) and len(e.ops) == 1 and isinstance(e.ops[0], (ast.Eq,)):
            return self.expr(e.left, env, lambda a, en: self.expr(e.comparators[0], en, lambda b, en2: k(self.fold_eq(a, b), en2)))
        raise Untranslatable("expression %s" % ast.dump(e)[:100])

    def fold_eq(self, a, b):
        import re as _re
        ta, tb = _re.fullmatch(r"\(VTok (\d+)%Z\)", a), _re.fullmatch(r"\(VTok (\d+)%Z\)", b)
        if ta and tb:
            return "(VBool %s)" % ("true" if ta.group(1) == tb.group(1) else "false")
        return "(VBool (val_eqb %s %s))" % (a, b)

    def is_class_ref(self, e, env):
        """self.__class__ | type(self)   (in an instance method)"""
        if not env.get("self_ok"):
            return False
        if isinstance(e, ast.Attribute) and e.attr == "__class__" and isinstance(e.value, ast.Name) and e.value.id == "self" \
                and "self" not in env["locals"]:
            return True
        if isinstance(e, ast.Call) and isinstance(e.func, ast.Name) and e.func.id == "type" and "type" not in env["locals"] and \
                len(e.args) == 1 and not e.keywords and isinstance(e.args[0], ast.Name) and e.args[0].id == "self" \
                and "self" not in env["locals"]:
            return True
        return False

    def no_cls(self, v):
        if v == CLS:
            raise Untranslatable("the class object is used as a value (stored, compared or returned)")
        return v

    def target_kind(self, e, env):
        if isinstance(e, ast.Name) and env["locals"].get(e.id) == CLS:
            return "cls"
        if isinstance(e, ast.Name) and e.id in env["locals"]:
            return None
        if isinstance(e, ast.Name) and e.id == "self" and env.get("self_ok"):
            return "self"
        if isinstance(e, ast.Name) and e.id == "cls" and env.get("cls_ok"):
            return "cls"
        if self.is_class_ref(e, env):
            return "cls"
        return None

    def call_target(self, f, env):
        """f = ast.Attribute (callee).  returns the mro list to search, or None"""
        v = f.value
        if self.target_kind(v, env) == "cls":
            return self.mro(env["cls"])
        if isinstance(v, ast.Call) and isinstance(v.func, ast.Name) and v.func.id == "super" and not v.args:
            m = self.mro(env["cls"])
            return m[m.index(env["defcls"]) + 1:]
        return None

    def call_method(self, mro_from, mname, call, env, k, want_value):
        dc, (fn, iscm) = self.find_method(mro_from, mname)
        if dc is None:
            raise Untranslatable("method %s not found" % mname)
        if not iscm:
            raise Untranslatable("call of non-classmethod %s" % mname)
        params = [a.arg for a in fn.args.args][1:]
        if fn.args.vararg or fn.args.kwarg or fn.args.kwonlyargs:
            raise Untranslatable("signature of %s" % mname)
        defaults = fn.args.defaults
        given = {}
        for i, a in enumerate(call.args):
            given[params[i]] = a
        for kw in call.keywords:
            if kw.arg not in params:
                raise Untranslatable("keyword %s" % kw.arg)
            given[kw.arg] = kw.value
        ndef = len(defaults)
        for j, d in enumerate(defaults):
            given.setdefault(params[len(params) - ndef + j], d)
        if set(given) != set(params):
            raise Untranslatable("arguments of %s" % mname)

        def bind(i, en, acc):
            if i == len(params):
                inner = self.copy(en)
                inner["locals"] = dict(acc)
                inner["defcls"] = dc
                inner["self_ok"] = False
                inner["cls_ok"] = True
                caller = en

                def ret(v, en2):
                    out = self.copy(en2)
                    out["locals"] = caller["locals"]
                    out["defcls"] = caller["defcls"]
                    out["self_ok"] = caller["self_ok"]
                    out["cls_ok"] = caller["cls_ok"]
                    return k(v, out)
                return self.stmts(fn.body, inner, ret)
            return self.expr(given[params[i]], en, lambda v, en2: bind(i + 1, en2, acc + [(params[i], v)]))
        return bind(0, env, [])

    def cond(self, t, env, kt, kf):
        if isinstance(t, ast.Compare) and len(t.ops) == 1 and isinstance(t.ops[0], (ast.Is, ast.IsNot)) and \
                isinstance(t.comparators[0], ast.Constant) and t.comparators[0].value is None:
            pos = isinstance(t.ops[0], ast.Is)
            return self.expr(t.left, env, lambda v, en: "(if is_none %s then %s else %s)" % (
                v, (kt if pos else kf)(self.copy(en)), (kf if pos else kt)(self.copy(en))))
        def kk(v, en):
            if v == "(VBool false)":
                return kf(self.copy(en))
            if v == "(VBool true)":
                return kt(self.copy(en))
            return "(if truthy %s then %s else %s)" % (v, kt(self.copy(en)), kf(self.copy(en)))
        return self.expr(t, env, kk)

    def copy(self, env):
        e = dict(env)
        e["sv"] = dict(env["sv"])
        e["fields"] = list(env["fields"])
        e["locals"] = dict(env["locals"])
        return e

    def stmts(self, body, env, ret):
        """ret(value_expr, env): continuation at `return` (or at fall-through with VNone)."""
        if not body:
            return ret("VNone", env)
        st, rest = body[0], body[1:]
        nxt = lambda en: self.stmts(rest, en, ret)
        if isinstance(st, ast.Pass) or (isinstance(st, ast.Expr) and isinstance(st.value, ast.Constant)):
            return nxt(env)
        if isinstance(st, ast.Return):
            if st.value is None:
                return ret("VNone", env)
            if isinstance(st.value, ast.Name) and st.value.id == "self" and env.get("self_ok") and env.get("top") == "__enter__":
                return ret("VNone", env)      # `with ctx as x`: the model does not use the value of __enter__
            return self.expr(st.value, env, ret)
        if isinstance(st, ast.Raise):
            # the model treats a raising construct / enter / exit as ALL-OR-NOTHING (None = nothing happened); that is only
            # faithful when no class slot, cache or (inside __enter__/__exit__) object field was written before on this path
            if env.get("dirty"):
                raise Untranslatable("raise after an assignment on the same path (%s): a refused construct/enter/exit would "
                                     "leave settings half-changed" % env["dirty"])
            return "None"
        if isinstance(st, ast.If):
            return self.cond(st.test, env,
                             lambda en: self.stmts(st.body + rest, en, ret),
                             lambda en: self.stmts(st.orelse + rest, en, ret))
        if isinstance(st, ast.AugAssign) and isinstance(st.op, ast.Add) and isinstance(st.target, ast.Attribute) and \
                self.target_kind(st.target.value, env) == "self" and isinstance(st.value, ast.List) and len(st.value.elts) == 1:
            # self.F += [x]  on a field that __init__ (or another method) initialises by plain assignment: in-place
            # extension of the object's own list = self.F = self.F + [x] for the value semantics of the model
            load = ast.Attribute(value=st.target.value, attr=st.target.attr, ctx=ast.Load())
            st = ast.Assign(targets=[st.target], value=ast.BinOp(left=load, op=ast.Add(), right=st.value))
        if isinstance(st, ast.Assign) and len(st.targets) == 1:
            t = st.targets[0]
            if isinstance(t, ast.Name):
                if t.id in ("self", "type", "super", "torch"):
                    raise Untranslatable("rebinding of %s" % t.id)

                def k(v, en):
                    en = self.copy(en)
                    if v == CLS:            # local alias of the class object
                        en["locals"][t.id] = CLS
                        return nxt(en)
                    x = self.fresh("v")
                    en["locals"][t.id] = x
                    return "(let %s := %s in %s)" % (x, v, nxt(en))
                return self.expr(st.value, env, k)
            if isinstance(t, ast.Attribute):
                tk = self.target_kind(t.value, env)
                if tk == "self":
                    if t.attr not in env["fieldnames"]:
                        raise Untranslatable("assignment to undeclared field self.%s" % t.attr)
                    if isinstance(st.value, ast.Attribute) and self.target_kind(st.value.value, env) == "self":
                        # self.A = self.B would alias a mutable list; the model's lists are values
                        raise Untranslatable("field self.%s initialised from another field (possible aliasing)" % t.attr)
                    i = env["fieldnames"].index(t.attr)

                    def k(v, en):
                        x = self.fresh("f")
                        en = self.copy(en)
                        if en.get("top") in ("__enter__", "__exit__"):
                            en["dirty"] = "self.%s written" % t.attr
                        en["fields"][i] = x
                        return "(let %s := %s in %s)" % (x, v, nxt(en))
                    return self.expr(st.value, env, k)
                if tk == "cls":
                    if t.attr in SLOTS:
                        def k(v, en):
                            x = self.fresh("s")
                            en = self.copy(en)
                            en["dirty"] = "class attribute %s written" % t.attr
                            en["sv"][SLOTS[t.attr]] = x
                            return "(let %s := %s in %s)" % (x, v, nxt(en))
                        return self.expr(st.value, env, k)
                    # a non-slot class attribute (cache): only resets to None are accepted
                    if isinstance(st.value, ast.Constant) and st.value.value is None:
                        self.resets.setdefault(env["cls"], set()).add(t.attr)
                        en = self.copy(env)
                        en["resets"] = frozenset(env.get("resets", frozenset()) | {t.attr})
                        en["dirty"] = "class attribute %s written" % t.attr
                        return nxt(en)
                    raise Untranslatable("write to non-slot class attribute %s" % t.attr)
            raise Untranslatable("assignment %s" % ast.dump(st)[:100])
        if isinstance(st, ast.Expr) and isinstance(st.value, ast.Call):
            c = st.value
            f = c.func
            if isinstance(f, ast.Attribute) and f.attr == "append" and len(c.args) == 1 and \
                    isinstance(f.value, ast.Attribute) and self.target_kind(f.value.value, env) == "self":
                fld = f.value.attr
                if fld not in env["fieldnames"]:
                    raise Untranslatable("append on unknown field")
                i = env["fieldnames"].index(fld)

                def k(v, en):
                    x = self.fresh("l")
                    en2 = self.copy(en)
                    en2["dirty"] = "self.%s.append" % fld
                    en2["fields"][i] = x
                    return "match vappend %s %s with None => None | Some %s => %s end" % (en["fields"][i], v, x, nxt(en2))
                return self.expr(c.args[0], env, k)
            if isinstance(f, ast.Attribute):
                tk = self.call_target(f, env)
                if tk is not None:
                    return self.call_method(tk, f.attr, c, env, lambda v, en: nxt(en), want_value=False)
            # expression statement with a value we can evaluate (e.g. self.F.pop())
            return self.expr(c, env, lambda v, en: nxt(en))
        raise Untranslatable("statement %s" % ast.dump(st)[:100])

    # ------------------------------------------------------------------ per class
    def field_names(self, cls):
        names = []
        for c in reversed(self.mro(cls)):
            for mname, (fn, iscm) in self.classes[c].methods.items():
                if iscm:
                    continue
                for node in ast.walk(fn):
                    if isinstance(node, ast.Assign):
                        for t in node.targets:
                            if isinstance(t, ast.Attribute) and isinstance(t.value, ast.Name) and t.value.id == "self" \
                                    and t.attr not in names:
                                names.append(t.attr)
        return names

    def init_params(self, cls):
        dc, (fn, _) = self.find_method(self.mro(cls), "__init__")
        params = [a.arg for a in fn.args.args][1:]
        if fn.args.vararg or fn.args.kwarg or fn.args.kwonlyargs:
            raise Untranslatable("__init__ signature of %s" % cls)
        defaults = [None] * (len(params) - len(fn.args.defaults)) + [self.const_of(d) for d in fn.args.defaults]
        return dc, fn, params, defaults

    def base_env(self, cls, defcls, fieldnames, fields, svnames):
        return {"cls": cls, "defcls": defcls, "sv": dict(svnames), "fields": list(fields), "fieldnames": fieldnames,
                "locals": {}, "self_ok": True, "cls_ok": False}

    def sv_term(self, sv):
        return "(SV %s)" % " ".join(sv[s] for s in SLOT_ORDER)

    def gen_prim(self, cls):
        fn_names = self.field_names(cls)
        svn = {s: "(%s sv)" % s for s in SLOT_ORDER}
        out = []
        # __init__
        dc, fn, params, defaults = self.init_params(cls)
        env = self.base_env(cls, dc, fn_names, ["VNone"] * len(fn_names), svn)
        env["locals"] = {p: "a_%s" % p for p in params}
        body = self.stmts(fn.body, env, lambda v, en: "Some [%s]" % "; ".join(en["fields"]))
        pat = "[%s]" % "; ".join("a_%s" % p for p in params)
        out.append("Definition init_%s (args : list val) (sv : slotvec) : option (list val) :=\n  match args with %s => %s\n  | _ => None end." % (cls, pat, body))
        # __enter__/__exit__
        for m, nm in (("__enter__", "enter"), ("__exit__", "exit")):
            dcm, (fnm, _) = self.find_method(self.mro(cls), m)
            if m == "__enter__":
                if [a.arg for a in fnm.args.args] != ["self"] or fnm.args.vararg or fnm.args.kwarg:
                    raise Untranslatable("__enter__ signature")
            else:
                if [a.arg for a in fnm.args.args] != ["self"] or fnm.args.vararg is None or fnm.args.kwarg:
                    raise Untranslatable("__exit__ signature")
                for node in ast.walk(fnm):
                    if isinstance(node, ast.Name) and node.id == fnm.args.vararg.arg:
                        raise Untranslatable("__exit__ inspects its exception arguments")
            fvars = ["o_%d" % i for i in range(len(fn_names))]
            env = self.base_env(cls, dcm, fn_names, fvars, svn)
            env["top"] = m

            def ret(v, en, m=m, nm=nm):
                if m == "__exit__" and v not in ("(VBool false)", "VNone", "(VTok 0%Z)"):
                    raise Untranslatable("__exit__ may suppress exceptions (returns %s)" % v)
                self.path_resets.setdefault((cls, nm), []).append(en.get("resets", frozenset()))
                return "Some (%s, [%s])" % (self.sv_term(en["sv"]), "; ".join(en["fields"]))
            body = self.stmts(fnm.body, env, ret)
            out.append("Definition %s_%s (sv : slotvec) (o : list val) : option (slotvec * list val) :=\n  match o with [%s] => %s\n  | _ => None end." % (nm, cls, "; ".join(fvars), body))
        # observers
        kind = self.kind_of(cls)
        obs = []
        if kind == "KFlag":
            obs = [("on", "on", []), ("off", "off", [])]
        elif kind == "KValue":
            obs = [("value", "value", [])]
        else:
            obs = [("value_float", "value", ["torch.float"]), ("value_double", "value", ["torch.double"]),
                   ("value_half", "value", ["torch.half"])]
        for oname, mname, args in obs:
            call = ast.parse("cls.%s(%s)" % (mname, ", ".join(args))).body[0].value
            env = self.base_env(cls, cls, [], [], svn)
            env["self_ok"], env["cls_ok"] = False, True
            body = self.expr(call, env, lambda v, en: "Some %s" % v)
            out.append("Definition obs_%s_%s (sv : slotvec) : option val := %s." % (oname, cls, body))
        init_sv = {}
        for a, s in SLOTS.items():
            try:
                init_sv[s] = self.class_const(cls, a)
            except Untranslatable:
                init_sv[s] = "VNone"
        out.append("Definition sv0_%s : slotvec := %s." % (cls, self.sv_term(init_sv)))
        return "\n".join(out), params, defaults, [o[0] for o in obs]

    def gen_composite(self, cls, prims):
        ci = self.classes[cls]
        fn, _ = ci.methods["__init__"]
        params = [a.arg for a in fn.args.args][1:]
        defaults = [None] * (len(params) - len(fn.args.defaults)) + [self.const_of(d) for d in fn.args.defaults]
        parts = []   # (field, class, [arg exprs])
        env = {"cls": cls, "defcls": cls, "sv": {}, "fields": [], "fieldnames": [], "locals": {p: "a_%s" % p for p in params},
               "self_ok": False, "cls_ok": False}
        # __init__: local rebinding + self.P = Cls(args)
        lets = []
        for st in fn.body:
            if isinstance(st, ast.Expr) and isinstance(st.value, ast.Constant):
                continue
            if isinstance(st, ast.Assign) and len(st.targets) == 1 and isinstance(st.targets[0], ast.Name):
                x = self.fresh("v")
                v = self.expr(st.value, env, lambda v, en: v)
                lets.append((x, v))
                env["locals"][st.targets[0].id] = x
                continue
            if isinstance(st, ast.Assign) and len(st.targets) == 1 and isinstance(st.targets[0], ast.Attribute) and \
                    isinstance(st.targets[0].value, ast.Name) and st.targets[0].value.id == "self" and \
                    isinstance(st.value, ast.Call) and isinstance(st.value.func, ast.Name) and st.value.func.id in prims:
                pc = st.value.func.id
                pparams, pdefaults = prims[pc]
                given = {}
                for i, a in enumerate(st.value.args):
                    given[pparams[i]] = self.expr(a, env, lambda v, en: v)
                for kw in st.value.keywords:
                    given[kw.arg] = self.expr(kw.value, env, lambda v, en: v)
                args = []
                for p, d in zip(pparams, pdefaults):
                    if p in given:
                        args.append(given[p])
                    elif d is not None:
                        args.append(d)
                    else:
                        raise Untranslatable("missing argument for part %s" % pc)
                parts.append((st.targets[0].attr, pc, args))
                continue
            raise Untranslatable("composite __init__ statement %s" % ast.dump(st)[:100])
        orders = {}
        for m, callee in (("__enter__", "__enter__"), ("__exit__", "__exit__")):
            fnm, _ = ci.methods[m]
            order = []
            for st in fnm.body:
                if isinstance(st, ast.Expr) and isinstance(st.value, ast.Constant):
                    continue
                if isinstance(st, ast.Return) and (st.value is None or (isinstance(st.value, ast.Constant) and st.value.value in (False, None))):
                    break
                if isinstance(st, ast.Expr) and isinstance(st.value, ast.Call) and isinstance(st.value.func, ast.Attribute) \
                        and st.value.func.attr == callee and not st.value.args and \
                        isinstance(st.value.func.value, ast.Attribute) and isinstance(st.value.func.value.value, ast.Name) \
                        and st.value.func.value.value.id == "self":
                    fld = st.value.func.value.attr
                    idx = [i for i, p in enumerate(parts) if p[0] == fld]
                    if not idx:
                        raise Untranslatable("composite calls unknown part %s" % fld)
                    order.append(idx[0])
                    continue
                raise Untranslatable("composite %s statement %s" % (m, ast.dump(st)[:100]))
            orders[m] = order
        return params, defaults, lets, parts, orders["__enter__"], orders["__exit__"]

    # ------------------------------------------------------------------ whole file
    def generate(self):
        prim = [c for c in self.classes if self.is_prim(c) and not any(
            o.base == c for o in self.classes.values())]
        prim.sort()
        comp = [c for c in self.classes if not self.is_prim(c) and self.classes[c].base is None and
                all(m in self.classes[c].methods for m in ("__init__", "__enter__", "__exit__"))]
        comp.sort()
        chunks = []
        primsig = {}
        obsnames = {}
        for c in prim:
            code, params, defaults, obs = self.gen_prim(c)
            chunks.append(code)
            primsig[c] = (params, defaults)
            obsnames[c] = obs
        L = []
        A = L.append
        A("(* GENERATED by harness/settings_tr.py from linear_operator/settings.py and beta_features.py — do not edit *)")
        A("From Coq Require Import List ZArith Bool.\nImport ListNotations.\nRequire Import C17.Generic.\n")
        A("Fixpoint val_eqb (a b : val) : bool := match a, b with VNone, VNone => true | VBool x, VBool y => Bool.eqb x y | VTok x, VTok y => Z.eqb x y | _, _ => false end.\n")
        A("Inductive cid := %s." % " | ".join("c_" + c for c in prim))
        A("Definition all_cids : list cid := [%s]." % "; ".join("c_" + c for c in prim))
        A("Record gs := GS { %s }." % "; ".join("g_%s : slotvec" % c for c in prim))
        A("Definition get (c : cid) (g : gs) : slotvec := match c with %s end." % " | ".join("c_%s => g_%s g" % (c, c) for c in prim))
        A("Definition set (c : cid) (v : slotvec) (g : gs) : gs := match c with\n%s end." % "\n".join(
            "  | c_%s => GS %s" % (c, " ".join("v" if d == c else "(g_%s g)" % d for d in prim)) for c in prim))
        A("Definition kind_of (c : cid) : kind := match c with %s end." % " | ".join("c_%s => %s" % (c, self.kind_of(c)) for c in prim))
        A("\n".join(chunks))
        A("Definition gs0 : gs := GS %s." % " ".join("sv0_" + c for c in prim))
        for nm, ty in (("init", "list val -> slotvec -> option (list val)"), ("enter", "slotvec -> list val -> option (slotvec * list val)"),
                       ("exit", "slotvec -> list val -> option (slotvec * list val)")):
            A("Definition p%s (c : cid) : %s := match c with %s end." % (nm, ty, " | ".join("c_%s => %s_%s" % (c, nm, c) for c in prim)))
        # observers: one uniform function  observe c sv : list (option val)
        A("Definition observe (c : cid) (sv : slotvec) : list (option val) := match c with\n%s end." % "\n".join(
            "  | c_%s => [%s]" % (c, "; ".join("obs_%s_%s sv" % (o, c) for o in obsnames[c])) for c in prim))
        # kids
        kids = prim + comp
        A("Inductive kid := %s." % " | ".join("k_" + k for k in kids))
        newcases = []
        orders_ok = []
        compinfo = {}
        for c in prim:
            newcases.append("  | k_%s => match init_%s args (get c_%s g) with Some o => Some [(c_%s, o)] | None => None end" % (c, c, c, c))
        for c in comp:
            params, defaults, lets, parts, eo, xo = self.gen_composite(c, primsig)
            compinfo[c] = (params, defaults, parts, eo, xo)
            # parts in ENTER order; the Coq side requires enter order and exit order to be permutations of all parts
            # (the order itself is irrelevant: Generic.walk_perm)
            body = "Some []"
            seq = [parts[i] for i in eo]
            inner = "Some [%s]" % "; ".join("(c_%s, q%d)" % (p[1], j) for j, p in enumerate(seq))
            for j in reversed(range(len(seq))):
                f, pc, args = seq[j]
                inner = "match init_%s [%s] (get c_%s g) with None => None | Some q%d => %s end" % (pc, "; ".join(args), pc, j, inner)
            for x, v in reversed(lets):
                inner = "(let %s := %s in %s)" % (x, v, inner)
            newcases.append("  | k_%s => match args with [%s] => %s | _ => None end" % (c, "; ".join("a_" + p for p in params), inner))
            orders_ok.append("(is_perm_of_range %d [%s]) && (is_perm_of_range %d [%s])" % (
                len(parts), "; ".join("%d%%nat" % i for i in eo), len(parts), "; ".join("%d%%nat" % i for i in xo)))
        A("Definition new (k : kid) (args : list val) (g : gs) : option (list (cid * list val)) := match k with\n%s end." % "\n".join(newcases))
        A("Definition prim_of (k : kid) : option cid := match k with %s end." % " | ".join(
            ["k_%s => Some c_%s" % (c, c) for c in prim] + ["k_%s => None" % c for c in comp]))
        A("Fixpoint list_nat_eqb (a b : list nat) : bool := match a, b with [], [] => true | x :: r, y :: s => Nat.eqb x y && list_nat_eqb r s | _, _ => false end.")
        A("Definition is_perm_of_range (n : nat) (l : list nat) : bool := Nat.eqb (length l) n && forallb (fun i => existsb (Nat.eqb i) l) (seq 0 n).")
        A("Definition orders_ok : bool := %s." % (" && ".join(["true"] + orders_ok)))
        # non-slot class attributes with a constant initial value (caches such as deterministic_probes.probe_vectors):
        # FINITE TABLE of which of them every path of __enter__ / __exit__ resets to None
        names = []
        cache_of, ent_of, ext_of = {}, {}, {}
        for c in prim:
            ca = [a for d in self.mro(c) for a in self.classes[d].consts if a not in SLOTS and a != "_default"]
            for a in ca:
                if a not in names:
                    names.append(a)
            cache_of[c] = ca
            for nm, tab in (("enter", ent_of), ("exit", ext_of)):
                paths = self.path_resets.get((c, nm), [])
                tab[c] = sorted(frozenset.intersection(*paths)) if paths else []
                for a in tab[c]:
                    if a not in names:
                        names.append(a)
        nl = lambda xs: "[%s]" % "; ".join("%d%%nat" % names.index(a) for a in xs)
        for nm, tab in (("cache_attrs", cache_of), ("enter_resets", ent_of), ("exit_resets", ext_of)):
            special = [c for c in prim if tab[c]]
            A("Definition %s (c : cid) : list nat := match c with %s_ => [] end." % (
                nm, "".join("c_%s => %s | " % (c, nl(tab[c])) for c in special)))
        A("Definition caches_ok : bool := forallb (fun c => forallb (fun a => existsb (Nat.eqb a) (enter_resets c) && "
          "existsb (Nat.eqb a) (exit_resets c)) (cache_attrs c)) all_cids.")
        A("(* cache attribute names: %s *)" % "; ".join("%d=%s" % (i, a) for i, a in enumerate(names)))
        A("(* constant table (token -> python repr): %s *)" % "; ".join("%d=%s" % (i, r) for i, r in enumerate(self.consts_table)))
        A("(* non-slot class attributes reset to None by setters: %s *)" % "; ".join("%s:%s" % (c, sorted(v)) for c, v in sorted(self.resets.items())))
        meta = {"prim": prim, "comp": comp, "kinds": {c: self.kind_of(c) for c in prim},
                "primsig": {c: {"params": primsig[c][0], "defaults": primsig[c][1]} for c in prim},
                "comp_info": {c: {"params": compinfo[c][0], "defaults": compinfo[c][1],
                                  "parts": [[p[0], p[1]] for p in compinfo[c][2]], "enter": compinfo[c][3], "exit": compinfo[c][4]} for c in comp},
                "consts": self.consts_table, "observers": obsnames,
                "resets": {c: sorted(v) for c, v in self.resets.items()},
                "caches": {c: {"attrs": cache_of[c], "enter": ent_of[c], "exit": ext_of[c]} for c in prim if cache_of[c]}}
        code = "\n".join(L) + "\n"
        if CLS in code:
            raise Untranslatable("the class object is used as a value (stored, compared, tested or passed on)")
        if len(self.consts_table) >= 1000:
            raise Untranslatable("too many constants")
        return code, meta


def translate(repo):
    srcs = [open(os.path.join(repo, "linear_operator", f)).read() for f in ("settings.py", "beta_features.py")]
    # beta_features imports _feature_flag from settings: same namespace for our purposes
    tr = Translator(srcs)
    return tr.generate()


if __name__ == "__main__":
    import sys
    code, meta = translate(sys.argv[1] if len(sys.argv) > 1 else "/repo")
    print(code)
