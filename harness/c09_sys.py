"""C09 helpers: build symmetric PSD test matrices and start vectors from a JSON-able spec, run the real
lanczos_tridiag, and evaluate the property's predicates directly on what it returned (plain torch on
dense float64 tensors; never the library)."""
import math

import torch

F64 = torch.float64


def prod(t):
    r = 1
    for x in t:
        r *= int(x)
    return r


# ------------------------------------------------------------------------------------------ spectra
# every family returns (eigenvalues, number of distinct eigenvalues d).  With a generic start vector the
# Krylov space has dimension d (one direction per distinct eigenvalue, the null space counts as one).

FULL_FAMS = ("uniform", "kappa10", "geometric", "wide")
DEGENERATE_FAMS = ("few2", "few3", "few4", "rank1", "rank2", "rank3", "rankhalf", "scalar")


def spectrum(fam, n, g):
    if fam == "uniform":          # kappa = 2
        lam = torch.linspace(1.0, 2.0, n, dtype=F64)
        return lam, n
    if fam == "kappa10":
        lam = torch.tensor([10.0 ** (i / max(n - 1, 1)) for i in range(n)], dtype=F64)
        return lam, n
    if fam == "geometric":        # kappa = 1e4
        lam = torch.tensor([1e4 ** (-i / max(n - 1, 1)) for i in range(n)], dtype=F64)
        return lam, n
    if fam == "wide":             # kappa = 1e8, eigenvalues down to 1e-8 (numerically low rank in float32)
        lam = torch.tensor([1e8 ** (-i / max(n - 1, 1)) for i in range(n)], dtype=F64)
        return lam, n
    if fam.startswith("few"):     # d distinct positive eigenvalues, each repeated
        d = min(n, int(fam[3:]))
        vals = [1.0 + 1.5 * i for i in range(d)]
        lam = torch.tensor([vals[i % d] for i in range(n)], dtype=F64)
        return lam, d
    if fam.startswith("rank"):    # r distinct positive eigenvalues, the rest exactly zero
        r = n // 2 if fam == "rankhalf" else int(fam[4:])
        r = max(1, min(r, n - 1)) if n > 1 else 1
        lam = torch.zeros(n, dtype=F64)
        lam[:r] = torch.tensor([1.0 + 0.75 * i for i in range(r)], dtype=F64)
        return lam, r + (1 if r < n else 0)
    if fam == "scalar":           # c * I : every vector is an eigenvector
        return torch.full((n,), 2.5, dtype=F64), 1
    raise ValueError(fam)


def rand_orth(n, g):
    q, r = torch.linalg.qr(torch.randn(n, n, generator=g, dtype=F64))
    return q * torch.sign(torch.diagonal(r)).unsqueeze(0)


def rbf(n, g, ell):
    x = torch.sort(torch.rand(n, generator=g, dtype=F64))[0]
    d = (x.unsqueeze(0) - x.unsqueeze(1)) / ell
    return torch.exp(-0.5 * d * d)


def build(spec):
    """spec -> dict(A=( *batch, n, n) float64, init=( *batch, n, nvec) float64 or None, d=[Krylov dimension per
    batch member or None]).  Deterministic in spec.  Keys of spec:
      n, batch (list), nvec, fam, vseed, scale (default 1), start: 'random' | 'eigvec' | 'ones' | 'shared',
      same_batch (all members equal)"""
    g = torch.Generator().manual_seed(int(spec["vseed"]))
    n, nvec = int(spec["n"]), int(spec["nvec"])
    batch = tuple(spec["batch"])
    B = prod(batch)
    fam = spec["fam"]
    scale = float(spec.get("scale", 1.0))
    As, ds, evs = [], [], []
    for b in range(B):
        if spec.get("same_batch") and b > 0:
            As.append(As[0].clone()); ds.append(ds[0]); evs.append(evs[0])
            continue
        f = fam[b % len(fam)] if isinstance(fam, (list, tuple)) else fam
        if f == "rbf":
            a = rbf(n, g, 0.3) * scale
            As.append(a); ds.append(None); evs.append(None)
            continue
        if f == "intgram":        # small-integer Gram matrix B B^T (exactly representable, exact arithmetic)
            m = torch.randint(-3, 4, (n, n), generator=g).to(F64)
            a = (m @ m.T) * scale
            As.append(a); ds.append(None); evs.append(None)
            continue
        lam, d = spectrum(f, n, g)
        lam = lam * scale
        if f == "scalar":
            a = torch.diag(lam)
            q = torch.eye(n, dtype=F64)
        else:
            q = rand_orth(n, g)
            a = (q * lam.unsqueeze(0)) @ q.T
            a = (a + a.T) / 2
        As.append(a); ds.append(d); evs.append(q)
    A = torch.stack(As).reshape(*batch, n, n)
    start = spec.get("start", "random")
    if start == "none":
        init = None
    else:
        cols = []
        for b in range(B):
            if start == "shared" and b > 0:
                cols.append(cols[0].clone())
                continue
            v = torch.randn(n, nvec, generator=g, dtype=F64)
            if start == "ones":
                v = torch.ones(n, nvec, dtype=F64) * (1.0 + torch.arange(nvec, dtype=F64))
            elif start == "eigvec" and evs[b] is not None:
                # first start vector is an eigenvector of the matrix (Krylov dimension 1)
                v[:, 0] = evs[b][:, 0] * 1.7
            elif start == "mixed-eig":
                # chosen (batch member, start vector) pairs start in an eigenvector of their member; all others are generic
                for (bb, jj) in spec.get("eig_at", []):
                    if bb == b and evs[b] is not None and jj < nvec:
                        v[:, jj] = evs[b][:, (bb + 2 * jj + 1) % n] * 1.7
            elif start == "scaled":
                v = v * torch.tensor([1e-3, 1e3, 1.0][:nvec] + [1.0] * max(0, nvec - 3), dtype=F64)
            cols.append(v)
        init = torch.stack(cols).reshape(*batch, n, nvec)
    return {"A": A, "init": init, "d": ds}


# ------------------------------------------------------------------------------------------ running

def run_impl(A, init, max_iter, dtype, tol=None, batch_shape=None, matrix_shape=None, closure=None,
             num_init_vecs=1, arg_dtype=None):
    """calls the real lanczos_tridiag; returns ('ok', q, t) or ('err', exception class name, message)"""
    from linear_operator.utils.lanczos import lanczos_tridiag
    Ad = A.to(dtype)
    iv = None if init is None else init.to(dtype)
    mc = closure if closure is not None else (lambda x: Ad.matmul(x))
    kw = {}
    if tol is not None:
        kw["tol"] = tol
    try:
        q, t = lanczos_tridiag(
            mc, max_iter, dtype=(arg_dtype or dtype), device=Ad.device,
            matrix_shape=(matrix_shape if matrix_shape is not None else Ad.shape[-2:]),
            batch_shape=(batch_shape if batch_shape is not None else Ad.shape[:-2]),
            init_vecs=iv, num_init_vecs=num_init_vecs, **kw)
    except Exception as ex:  # noqa
        return ("err", type(ex).__name__, str(ex)[:200])
    return ("ok", q, t)


def err_kind(name, msg):
    if name == "IndexError":
        return "ErrIndex"
    if name == "RuntimeError":
        if "callable" in msg:
            return "ErrNotCallable"
        if "dtype" in msg:
            return "ErrDtype"
        if "batch_shape" in msg:
            return "ErrBatchShape"
        if "matrix_shape" in msg:
            return "ErrMatrixShape"
    return "Other:" + name


# ------------------------------------------------------------------------------------------ predicates

def lead_view(A, q, t, nvec):
    """bring q ( [nvec,] *batch, n, m) and t to explicit (nvec, B, ., .) float64 and A to (B, n, n)"""
    n = A.shape[-1]
    B = prod(A.shape[:-2])
    m = t.shape[-1]
    qq = q.to(F64).reshape(nvec, B, n, m)
    tt = t.to(F64).reshape(nvec, B, m, m)
    return A.to(F64).reshape(B, n, n), qq, tt, m


def predicates(A, q, t, nvec):
    """the quantities C09 talks about, per (start vector j, batch member b):
       orth = max|Q^T Q - I| ; proj = max|Q^T A Q - T| / ||A|| ; supp = max|(A Q - Q T)[:, :m-1]| / ||A|| ;
       last = ||(A Q - Q T)[:, m-1]||_2 ; sym = max|T - T^T| ; band = max|T outside the three diagonals| ;
       nan = any non-finite entry"""
    AA, qq, tt, m = lead_view(A, q, t, nvec)
    out = []
    eye = torch.eye(m, dtype=F64)
    band = (torch.arange(m).unsqueeze(0) - torch.arange(m).unsqueeze(1)).abs() > 1
    for j in range(qq.shape[0]):
        for b in range(qq.shape[1]):
            Q, T, M = qq[j, b], tt[j, b], AA[b]
            na = max(float(M.abs().max()), 1e-300)
            nan = not (bool(torch.isfinite(Q).all()) and bool(torch.isfinite(T).all()))
            R = M @ Q - Q @ T
            out.append({
                "j": j, "b": b, "nan": nan,
                "orth": float((Q.T @ Q - eye).abs().max()),
                "proj": float((Q.T @ M @ Q - T).abs().max()) / na,
                "supp": float(R[:, : m - 1].abs().max()) / na if m > 1 else 0.0,
                "last": float(R[:, m - 1].norm()),
                "sym": float((T - T.T).abs().max()),
                "band": float(T[band].abs().max()) if m > 2 else 0.0,
                "anorm": na,
            })
    return out, m


def prefix_predicates(M, Q, T, w):
    """orth / proj / supp of the first w Lanczos vectors of one (Q, T) (float64 tensors): the part of a run
    that precedes the first breakdown of its column"""
    Qw, Tw = Q[:, :w], T[:w, :w]
    na = max(float(M.abs().max()), 1e-300)
    nan = not (bool(torch.isfinite(Qw).all()) and bool(torch.isfinite(Tw).all()))
    if nan:
        return {"nan": True, "orth": float("nan"), "proj": float("nan"), "supp": float("nan")}
    R = M @ Qw - Qw @ Tw
    return {"nan": False,
            "orth": float((Qw.T @ Qw - torch.eye(w, dtype=F64)).abs().max()),
            "proj": float((Qw.T @ M @ Qw - Tw).abs().max()) / na,
            "supp": float(R[:, : w - 1].abs().max()) / na if w > 1 else 0.0}
