"""C13 translator: Python source of linear_operator  ->  ownership IR  (coq/C13/gen/OwnIR.v)

For every function / method of the package the translator emits a flat list of IR statements

    Let x Param | Let x SelfAttr | Let x Fresh | Let x (AliasOf ys may_fresh) | InPlace x

over definition sites x (every assignment site is its own variable: SSA through a
reaching-definitions pass over the structured control flow).  Control flow itself is dropped: the Coq
semantics executes the statements in ANY order, which over-approximates every real execution.
`InPlace x` is emitted for trailing-underscore tensor methods, `out=` arguments, subscript /
augmented assignment, and for every actual argument bound to a parameter that an internal
in-place helper (module-level private function that writes into its parameters) mutates.

The candidate "may hold caller-owned storage" set is computed here by a worklist but is NOT trusted:
Coq re-checks that it is closed (own_check) and the soundness theorem is proved once in coq/C13.

Fail-closed: statement / expression forms the translator does not know raise Untranslatable.
"""
import ast
import json
import os

HERE = os.path.dirname(os.path.abspath(__file__))
OPS = json.load(open(os.path.join(HERE, "torch_ops.json")))
FRESH_M = set(OPS["fresh_methods"])
VIEW_M = set(OPS["view_methods"])
MAYBE_M = set(OPS["maybe_view_methods"])
META_INPLACE = set(OPS["metadata_inplace_methods"])      # return self, change no values
VALUE_PRESERVING = set(OPS["value_preserving_inplace"])  # detach_, requires_grad_ (explicitly allowed by the property)
FRESH_F = set(OPS["fresh_functions"])
VIEW_F = set(OPS["view_functions"])
NOT_TENSOR_INPLACE = set(OPS["non_tensor_underscore_methods"])
CLOSURE_M = set(OPS["closure_methods"])
CONTAINER_ATTRS = set(OPS["container_attributes"])
RETURNS_FRESH = {}      # bare name of a module-level library function -> True if its results never alias its parameters


class Untranslatable(Exception):
    pass


class Fn:
    def __init__(self, qual, node, module, cls):
        self.qual, self.node, self.module, self.cls = qual, node, module, cls
        self.stmts = []          # ("let", x, kind, ys, may_fresh) | ("inplace", x, lineno, why)
        self.ndefs = 0
        self.def_info = {}       # x -> (name, lineno)
        self.param_defs = {}     # param name -> def id
        self.params = []
        self.obj_stmts = []      # object-identity program: ("let", x, kind, ys) | ("inplace", x, lineno, why)
        self.ret_sets = []       # alias sets of returned expressions
        self.calls = []          # (callee bare name, [alias sets of positional args], {kw: alias set}, lineno)
        self.mutated_params = set()
        self.list_of_lists = set()


class Analyzer(ast.NodeVisitor):
    """one function body"""

    def __init__(self, fn, helpers_known):
        self.fn = fn
        self.env = {}            # name -> frozenset(def ids)
        self.helpers = helpers_known

    # -- definitions
    def new_def(self, name, lineno, kind, ys=(), may_fresh=False, obj=None):
        x = self.fn.ndefs
        self.fn.ndefs += 1
        self.fn.def_info[x] = (name, lineno)
        self.fn.stmts.append(("let", x, kind, sorted(set(ys)), bool(may_fresh)))
        if kind == "param":
            self.fn.obj_stmts.append(("let", x, "param", []))
        elif obj is not None:
            self.fn.obj_stmts.append(("let", x, "alias", sorted(obj[0])))
            if obj[1]:
                self.fn.obj_stmts.append(("let", x, "selfattr", []))
        else:
            self.fn.obj_stmts.append(("let", x, "fresh", []))
        return x

    def objalias(self, e):
        """definition sites whose value may be the very same Python object as the value of e (pure)"""
        E = frozenset()
        if isinstance(e, ast.Name):
            if e.id == "self":
                return (E, True)
            return (self.env.get(e.id, E), False)
        if isinstance(e, ast.Attribute):
            o = self.objalias(e.value)
            return o
        if isinstance(e, ast.Subscript):
            return self.objalias(e.value)
        if isinstance(e, (ast.IfExp,)):
            a, b = self.objalias(e.body), self.objalias(e.orelse)
            return (a[0] | b[0], a[1] or b[1])
        if isinstance(e, ast.BoolOp):
            r = [self.objalias(v) for v in e.values]
            return (frozenset().union(*[x[0] for x in r]), any(x[1] for x in r))
        if isinstance(e, (ast.Tuple, ast.List)):
            r = [self.objalias(v) for v in e.elts] or [(E, False)]
            return (frozenset().union(*[x[0] for x in r]), any(x[1] for x in r))
        if isinstance(e, ast.Starred):
            return self.objalias(e.value)
        if isinstance(e, ast.NamedExpr):
            return self.objalias(e.value)
        if isinstance(e, ast.Call):
            f = e.func
            ops = [self.objalias(a) for a in e.args] + [self.objalias(k.value) for k in e.keywords]
            allo = (frozenset().union(*[x[0] for x in ops]) if ops else E, any(x[1] for x in ops))
            if isinstance(f, ast.Attribute):
                m = f.attr
                if self.is_module(f.value):
                    if m in FRESH_F or self.dotted(f) in FRESH_F or m in VIEW_F:
                        return (E, False)
                    return allo
                recv = self.objalias(f.value)
                if m in FRESH_M or m in VIEW_M:
                    return (E, False)
                if m in MAYBE_M or m in META_INPLACE or m in VALUE_PRESERVING or (m.endswith("_") and not m.endswith("__")):
                    return recv
                if m in OPS.get("fresh_object_methods", []):
                    return (E, False)
                if m in CLOSURE_M:
                    return allo
                return (recv[0] | allo[0], recv[1] or allo[1])
            if isinstance(f, ast.Name):
                if f.id in OPS["pure_builtins"] and f.id not in ("list", "tuple", "reversed", "sorted", "zip", "enumerate", "iter", "next", "dict", "set", "map", "filter", "getattr"):
                    return (E, False)
                if RETURNS_FRESH.get(f.id):
                    return (E, False)
                return allo
            return allo
        return (E, False)

    def bind(self, name, x):
        self.env[name] = frozenset([x])

    def inplace(self, aset, lineno, why):
        ys, self_attr, _ = aset
        t = self.new_def("<target:%s>" % why, lineno, "alias", ys, False)
        if self_attr:
            self.fn.stmts.append(("let", t, "selfattr", [], False))
        self.fn.stmts.append(("inplace", t, lineno, why))

    # -- alias sets: (frozenset of def ids, is_self_attr, may_fresh)
    def alias(self, e):
        E = frozenset()
        if e is None or isinstance(e, (ast.Constant, ast.JoinedStr, ast.FormattedValue)):
            return (E, False, True)
        if isinstance(e, ast.Name):
            if e.id == "self":
                return (E, True, False)
            return (self.env.get(e.id, E), False, e.id not in self.env)
        if isinstance(e, ast.Attribute):
            ys, sa, mf = self.alias(e.value)
            # an attribute of a caller-owned object is caller-owned; .mT/.T/.data/... are views
            return (ys, sa, mf)
        if isinstance(e, ast.Subscript):
            ys, sa, mf = self.alias(e.value)
            self.alias(e.slice)
            return (ys, sa, True)            # view (basic indexing) or copy (advanced indexing)
        if isinstance(e, (ast.BinOp,)):
            self.alias(e.left), self.alias(e.right)
            return (E, False, True)
        if isinstance(e, ast.UnaryOp):
            self.alias(e.operand)
            return (E, False, True)
        if isinstance(e, ast.Compare):
            self.alias(e.left)
            for c in e.comparators:
                self.alias(c)
            return (E, False, True)
        if isinstance(e, ast.BoolOp):
            return self.union([self.alias(v) for v in e.values])
        if isinstance(e, ast.IfExp):
            self.alias(e.test)
            return self.union([self.alias(e.body), self.alias(e.orelse)])
        if isinstance(e, (ast.Tuple, ast.List, ast.Set)):
            return self.union([self.alias(v) for v in e.elts] or [(E, False, True)])
        if isinstance(e, ast.Dict):
            return self.union([self.alias(v) for v in e.values if v is not None] or [(E, False, True)])
        if isinstance(e, ast.Starred):
            return self.alias(e.value)
        if isinstance(e, ast.Slice):
            for p in (e.lower, e.upper, e.step):
                if p is not None:
                    self.alias(p)
            return (E, False, True)
        if isinstance(e, (ast.ListComp, ast.GeneratorExp, ast.SetComp, ast.DictComp)):
            saved = dict(self.env)
            for g in e.generators:
                it = self.alias(g.iter)
                self.assign_target(g.target, it, e.lineno)
                for c in g.ifs:
                    self.alias(c)
            if isinstance(e, ast.DictComp):
                self.alias(e.key)
                r = self.alias(e.value)
            else:
                r = self.alias(e.elt)
            self.env = saved
            return r
        if isinstance(e, ast.Lambda):
            return (E, False, True)          # analysed as a separate function
        if isinstance(e, ast.Call):
            return self.call(e)
        if isinstance(e, ast.NamedExpr):
            v = self.alias(e.value)
            self.assign_target(e.target, v, e.lineno)
            return v
        if isinstance(e, (ast.Await, ast.Yield, ast.YieldFrom)):
            return self.alias(e.value) if e.value is not None else (E, False, True)
        raise Untranslatable("expression %s at line %s" % (type(e).__name__, getattr(e, "lineno", "?")))

    def union(self, sets):
        ys = frozenset().union(*[s[0] for s in sets])
        return (ys, any(s[1] for s in sets), any(s[2] for s in sets))

    def call(self, e):
        f = e.func
        args = [self.alias(a) for a in e.args]
        kws = {k.arg: self.alias(k.value) for k in e.keywords}
        allops = args + list(kws.values())
        E = frozenset()
        out = kws.get("out")
        if out is not None and not (isinstance(next(k.value for k in e.keywords if k.arg == "out"), ast.Constant)):
            if isinstance(f, ast.Name):
                self.fn.calls.append((f.id, args, kws, e.lineno, None))
            self.inplace(out, e.lineno, "out=")
            return (out[0], out[1], False)
        if isinstance(f, ast.Attribute):
            recv = self.alias(f.value)
            m = f.attr
            base_is_torch = self.is_module(f.value)
            if base_is_torch:
                full = self.dotted(f)
                if m in FRESH_F or full in FRESH_F:
                    return (E, False, True)
                if m in VIEW_F or full in VIEW_F:
                    return self.as_view(self.union(allops or [(E, False, True)]), False)
                if m.endswith("_") and not m.startswith("_"):
                    # torch.xxx_(tensor, ...) in-place functional form
                    if args:
                        self.inplace(args[0], e.lineno, "torch.%s" % m)
                        return (args[0][0], args[0][1], False)
                r = self.union(allops or [(E, False, True)])
                return (r[0], r[1], True)        # unknown module function: may alias an operand
            if m in VALUE_PRESERVING or m in META_INPLACE:
                if m in META_INPLACE:
                    self.meta_inplace(f.value, e.lineno, m)
                return (recv[0], recv[1], False)
            if m.endswith("_") and not m.endswith("__") and m not in NOT_TENSOR_INPLACE:
                self.inplace(recv, e.lineno, "." + m)
                return (recv[0], recv[1], False)
            if m in FRESH_M:
                return (E, False, True)
            if m in VIEW_M:
                return self.as_view(recv, False)
            if m in MAYBE_M:
                return self.as_view(recv, True)
            if m in ("append", "extend", "insert", "add", "update", "setdefault", "pop", "remove", "clear", "sort", "reverse"):
                # python container mutation: the container now also holds the operands
                if isinstance(f.value, ast.Name) and f.value.id in self.env and allops:
                    u = self.union([recv] + allops)
                    x = self.new_def(f.value.id, e.lineno, "alias", u[0], u[2])
                    if u[1]:
                        self.fn.stmts.append(("let", x, "selfattr", [], False))
                    self.env[f.value.id] = frozenset([x]) | self.env[f.value.id]
                return (recv[0], recv[1], True)
            if m in CLOSURE_M:
                # operator protocol / closures: the result is fresh or aliases one of the ARGUMENTS (validated dynamically)
                self.fn.calls.append((m, args, kws, e.lineno, recv))
                r = self.union(allops or [(E, False, True)])
                return (r[0], r[1], True)
            # a method of a library object / closure attribute: result may alias receiver or operands
            callee = m
            self.fn.calls.append((callee, args, kws, e.lineno, recv))
            r = self.union([recv] + allops)
            return (r[0], r[1], True)
        if isinstance(f, ast.Name):
            nm = f.id
            if nm in OPS["pure_builtins"]:
                if nm in ("list", "tuple", "reversed", "sorted", "zip", "enumerate", "iter", "next", "dict", "set", "map", "filter"):
                    r = self.union(allops or [(E, False, True)])
                    return (r[0], r[1], True)
                return (E, False, True)
            self.fn.calls.append((nm, args, kws, e.lineno, None))
            if nm not in self.env and RETURNS_FRESH.get(nm):
                return (E, False, True)
            if nm in self.env:
                # a local callable (closure parameter such as matmul_closure / preconditioner):
                # its result is fresh or aliases one of its arguments
                r = self.union(allops or [(E, False, True)])
                return (r[0], r[1], True)
            r = self.union(allops or [(E, False, True)])
            return (r[0], r[1], True)
        # call of a call / subscript etc.
        r = self.union([self.alias(f)] + allops)
        return (r[0], r[1], True)

    def meta_inplace(self, recv_expr, lineno, m):
        # metadata-in-place (unsqueeze_, squeeze_, transpose_, resize_ ...) changes no stored value; it changes the
        # caller's tensor only if the receiver may be the caller's very tensor OBJECT (object-identity program)
        o = self.objalias(recv_expr)
        t = self.new_def("<target:.%s>" % m, lineno, "fresh", obj=o)
        self.fn.obj_stmts.append(("inplace", t, lineno, "." + m))

    def as_view(self, a, may_fresh):
        return (a[0], a[1], may_fresh or a[2] and not a[0] and not a[1])

    def is_module(self, v):
        d = self.dotted(v)
        return d is not None and (d.split(".")[0] in ("torch", "math", "np", "numpy", "warnings", "scipy", "itertools",
                                                      "operator", "functools", "settings", "string", "pickle", "logging"))

    def dotted(self, v):
        if isinstance(v, ast.Name):
            return v.id if v.id not in self.env else None
        if isinstance(v, ast.Attribute):
            b = self.dotted(v.value)
            return None if b is None else b + "." + v.attr
        return None

    # -- statements
    def assign_target(self, t, a, lineno, obj=None):
        if isinstance(t, ast.Name):
            x = self.new_def(t.id, lineno, "alias" if (a[0] or a[1]) else "fresh", a[0], a[2], obj=obj)
            if a[1]:
                self.fn.stmts.append(("let", x, "selfattr", [], False))
            self.bind(t.id, x)
        elif isinstance(t, (ast.Tuple, ast.List)):
            for el in t.elts:
                self.assign_target(el, (a[0], a[1], True), lineno, obj=obj)
        elif isinstance(t, ast.Starred):
            self.assign_target(t.value, a, lineno, obj=obj)
        elif isinstance(t, ast.Attribute):
            self.alias(t.value)              # rebinding an attribute: no tensor is written
        elif isinstance(t, ast.Subscript):
            tgt = self.alias(t.value)
            self.alias(t.slice)
            if isinstance(t.value, ast.Attribute) and t.value.attr in CONTAINER_ATTRS:
                pass
            elif isinstance(t.value, ast.Name) and t.value.id in self.env and self.is_container(t.value.id):
                u = self.union([tgt, a])
                x = self.new_def(t.value.id, lineno, "alias", u[0], u[2])
                self.env[t.value.id] = frozenset([x]) | self.env[t.value.id]
            else:
                self.inplace(tgt, lineno, "subscript-assign")
        else:
            raise Untranslatable("assignment target %s" % type(t).__name__)

    def is_container(self, name):
        return name in self.containers

    def run(self):
        node = self.fn.node
        self.containers = set()
        for n in ast.walk(node):
            if isinstance(n, ast.Assign) and isinstance(n.value, (ast.List, ast.Dict, ast.ListComp, ast.DictComp, ast.Set)) \
                    or (isinstance(n, ast.Assign) and isinstance(n.value, ast.Call) and isinstance(n.value.func, ast.Name)
                        and n.value.func.id in ("list", "dict", "set", "defaultdict", "OrderedDict")):
                for t in n.targets:
                    if isinstance(t, ast.Name):
                        self.containers.add(t.id)
        # loop variables ranging over a container of python lists built by list(...) comprehensions
        for n in ast.walk(node):
            if isinstance(n, ast.Assign) and isinstance(n.value, ast.ListComp) and isinstance(n.value.elt, ast.Call) \
                    and isinstance(n.value.elt.func, ast.Name) and n.value.elt.func.id == "list":
                for t in n.targets:
                    if isinstance(t, ast.Name):
                        self.fn.list_of_lists.add(t.id)
        for n in ast.walk(node):
            if isinstance(n, ast.For) and isinstance(n.iter, ast.Call) and isinstance(n.iter.func, ast.Name) and n.iter.func.id == "zip":
                tg = n.target.elts if isinstance(n.target, ast.Tuple) else []
                for el, it in zip(tg, n.iter.args):
                    if isinstance(el, ast.Name) and isinstance(it, ast.Name) and it.id in self.fn.list_of_lists:
                        self.containers.add(el.id)
            if isinstance(n, ast.For) and isinstance(n.target, ast.Name) and isinstance(n.iter, ast.Name) and n.iter.id in self.fn.list_of_lists:
                self.containers.add(n.target.id)
        a = node.args
        allargs = list(a.posonlyargs) + list(a.args) + list(a.kwonlyargs)
        if a.vararg:
            allargs.append(a.vararg)
        if a.kwarg:
            allargs.append(a.kwarg)
        if a.vararg:
            self.containers.add(a.vararg.arg)
        if a.kwarg:
            self.containers.add(a.kwarg.arg)
        for i, p in enumerate(allargs):
            if p.arg in ("self", "cls") and i == 0 and self.fn.cls:
                continue
            if p.arg == "out":
                # explicit out= buffer: excluded by the property (the caller asks for the write)
                x = self.new_def(p.arg, node.lineno, "fresh")
                self.bind(p.arg, x)
                self.fn.params.append(p.arg)
                continue
            x = self.new_def(p.arg, node.lineno, "param")
            self.bind(p.arg, x)
            self.fn.param_defs[p.arg] = x
            self.fn.params.append(p.arg)
        # free variables of nested functions / lambdas: captured from the enclosing scope -> caller-owned
        for nm in sorted(self.fn.captured):
            if nm not in self.env:
                x = self.new_def(nm, node.lineno, "param")
                self.bind(nm, x)
        body = node.body if isinstance(node.body, list) else [ast.Expr(node.body)]
        self.block(body)

    def block(self, body):
        for st in body:
            self.stmt(st)

    def merge(self, envs):
        out = {}
        for e in envs:
            for k, v in e.items():
                out[k] = out.get(k, frozenset()) | v
        return out

    def stmt(self, st):
        if isinstance(st, (ast.FunctionDef, ast.AsyncFunctionDef, ast.ClassDef)):
            if not isinstance(st, ast.ClassDef):
                x = self.new_def(st.name, st.lineno, "fresh")
                self.bind(st.name, x)
            return
        if isinstance(st, ast.Assign):
            o = self.objalias(st.value)
            a = self.alias(st.value)
            for t in st.targets:
                self.assign_target(t, a, st.lineno, obj=o)
            return
        if isinstance(st, ast.AnnAssign):
            if st.value is not None:
                o = self.objalias(st.value)
                self.assign_target(st.target, self.alias(st.value), st.lineno, obj=o)
            return
        if isinstance(st, ast.AugAssign):
            v = self.alias(st.value)
            t = st.target
            if isinstance(t, ast.Name):
                cur = self.alias(t)
                numeric = isinstance(st.value, ast.Constant) and isinstance(st.value.value, (int, float)) \
                    and t.id in self.fn.counter_names
                if not numeric:
                    self.inplace(cur, st.lineno, "augassign")
                x = self.new_def(t.id, st.lineno, "alias" if (cur[0] or cur[1]) else "fresh", cur[0], True, obj=self.objalias(t))
                self.bind(t.id, x)
            elif isinstance(t, ast.Subscript):
                if isinstance(t.value, ast.Attribute) and t.value.attr in CONTAINER_ATTRS:
                    pass
                elif isinstance(t.value, ast.Name) and self.is_container(t.value.id):
                    pass
                else:
                    self.inplace(self.alias(t.value), st.lineno, "augassign-subscript")
            elif isinstance(t, ast.Attribute):
                self.inplace(self.alias(t), st.lineno, "augassign-attribute")
            return
        if isinstance(st, ast.Expr):
            self.alias(st.value)
            return
        if isinstance(st, ast.Return):
            if st.value is not None:
                self.fn.ret_sets.append(self.alias(st.value))
            return
        if isinstance(st, ast.If):
            self.alias(st.test)
            e0 = dict(self.env)
            self.block(st.body)
            e1 = self.env
            self.env = dict(e0)
            self.block(st.orelse)
            self.env = self.merge([e1, self.env])
            return
        if isinstance(st, (ast.For, ast.AsyncFor, ast.While)):
            e0 = dict(self.env)
            seen = [e0]
            for _ in range(3):           # reaching definitions through the back edge
                if isinstance(st, ast.While):
                    self.alias(st.test)
                else:
                    self.assign_target(st.target, self.alias(st.iter), st.lineno, obj=self.objalias(st.iter))
                mark = len(self.fn.stmts)
                self.block_tracking(st.body, seen)
                seen.append(dict(self.env))
                self.env = self.merge(seen)
            self.block(st.orelse)
            self.env = self.merge(seen + [self.env])
            return
        if isinstance(st, (ast.With, ast.AsyncWith)):
            for it in st.items:
                a = self.alias(it.context_expr)
                if it.optional_vars is not None:
                    self.assign_target(it.optional_vars, a, st.lineno)
            self.block(st.body)
            return
        if isinstance(st, ast.Try):
            e0 = dict(self.env)
            seen = [e0]
            self.block_tracking(st.body, seen)
            after = [dict(self.env)]
            for h in st.handlers:
                self.env = self.merge(seen + after)
                if h.name:
                    self.bind(h.name, self.new_def(h.name, h.lineno, "fresh"))
                self.block(h.body)
                after.append(dict(self.env))
            self.env = self.merge(after)
            self.block(st.orelse)
            self.block(st.finalbody)
            return
        if isinstance(st, (ast.Raise,)):
            if st.exc is not None:
                self.alias(st.exc)
            return
        if isinstance(st, ast.Assert):
            self.alias(st.test)
            return
        if isinstance(st, ast.Delete):
            return
        if isinstance(st, (ast.Pass, ast.Break, ast.Continue, ast.Import, ast.ImportFrom, ast.Global, ast.Nonlocal)):
            return
        raise Untranslatable("statement %s at line %s" % (type(st).__name__, getattr(st, "lineno", "?")))

    def block_tracking(self, body, seen):
        for st in body:
            self.stmt(st)
            seen.append(dict(self.env))


# ----------------------------------------------------------------------------------------

def free_names(node):
    """names loaded in a nested function that are not bound in it (captured from the enclosing scope)"""
    bound = set()
    a = node.args
    for p in list(a.posonlyargs) + list(a.args) + list(a.kwonlyargs) + ([a.vararg] if a.vararg else []) + ([a.kwarg] if a.kwarg else []):
        bound.add(p.arg)
    loads = set()
    body = node.body if isinstance(node.body, list) else [node.body]
    for b in body:
        for n in ast.walk(b):
            if isinstance(n, ast.Name):
                if isinstance(n.ctx, ast.Store):
                    bound.add(n.id)
                else:
                    loads.add(n.id)
            elif isinstance(n, (ast.FunctionDef, ast.AsyncFunctionDef)):
                bound.add(n.name)
    return loads - bound


def collect_functions(tree, module):
    fns = []

    def rec(node, cls, prefix, enclosing_locals):
        for ch in ast.iter_child_nodes(node):
            if isinstance(ch, ast.ClassDef):
                rec(ch, ch.name, prefix + ch.name + ".", enclosing_locals)
            elif isinstance(ch, (ast.FunctionDef, ast.AsyncFunctionDef, ast.Lambda)):
                name = getattr(ch, "name", "<lambda@%d>" % ch.lineno)
                fn = Fn(prefix + name, ch, module, cls if isinstance(node, ast.ClassDef) else None)
                locs = set()
                body = ch.body if isinstance(ch.body, list) else [ch.body]
                for b in body:
                    for n in ast.walk(b):
                        if isinstance(n, ast.Name) and isinstance(n.ctx, ast.Store):
                            locs.add(n.id)
                a = ch.args
                for p in list(a.posonlyargs) + list(a.args) + list(a.kwonlyargs) + ([a.vararg] if a.vararg else []) + ([a.kwarg] if a.kwarg else []):
                    locs.add(p.arg)
                fn.captured = (free_names(ch) & enclosing_locals) if enclosing_locals else set()
                # loop counters: names assigned from int constants / range loops only
                fn.counter_names = counter_names(ch)
                fns.append(fn)
                rec(ch, None, prefix + name + ".", enclosing_locals | locs)
            else:
                rec(ch, cls if isinstance(node, ast.ClassDef) else None, prefix, enclosing_locals)
    rec(tree, None, "", set())
    return fns


def counter_names(fnode):
    """names every assignment of which is an int/float constant, an arithmetic expression of such, or a range() loop target"""
    ok, bad = set(), set()
    body = fnode.body if isinstance(fnode.body, list) else [fnode.body]
    for b in body:
        for n in ast.walk(b):
            if isinstance(n, ast.Assign):
                for t in n.targets:
                    if isinstance(t, ast.Name):
                        if isinstance(n.value, ast.Constant) and isinstance(n.value.value, (int, float)) and not isinstance(n.value.value, bool):
                            ok.add(t.id)
                        else:
                            bad.add(t.id)
            elif isinstance(n, ast.For) and isinstance(n.target, ast.Name):
                if isinstance(n.iter, ast.Call) and isinstance(n.iter.func, ast.Name) and n.iter.func.id == "range":
                    ok.add(n.target.id)
                else:
                    bad.add(n.target.id)
    a = fnode.args
    for p in list(a.posonlyargs) + list(a.args) + list(a.kwonlyargs):
        bad.add(p.arg)
    return ok - bad


def parse_package(repo):
    root = os.path.join(repo, "linear_operator")
    trees = []
    for dp, dn, fs in os.walk(root):
        dn[:] = [d for d in dn if d not in ("test", "__pycache__")]
        for f in sorted(fs):
            if not f.endswith(".py"):
                continue
            p = os.path.join(dp, f)
            mod = os.path.relpath(p, repo)
            if mod.startswith("linear_operator/test"):
                continue
            trees.append((mod, ast.parse(open(p).read())))
    return trees


def analyze_package(repo):
    trees = parse_package(repo)
    RETURNS_FRESH.clear()
    fns = []
    for rnd in range(4):
        fns = []
        for mod, tree in trees:
            fns += collect_functions(tree, mod)
        for fn in fns:
            an = Analyzer(fn, None)
            try:
                an.run()
            except Untranslatable as ex:
                raise Untranslatable("%s:%s: %s" % (fn.module, fn.qual, ex))
        # summaries: module-level functions whose results never alias parameters / self attributes
        names = {}
        for fn in fns:
            if fn.cls is None and "." not in fn.qual:
                names.setdefault(fn.qual, []).append(fn)
        new = {}
        for nm, fl in names.items():
            if len(fl) != 1:
                continue
            fn = fl[0]
            mc = closure(fn)
            if fn.ret_sets and all((not r[1]) and not (set(r[0]) & mc) for r in fn.ret_sets):
                new[nm] = True
        if new == dict(RETURNS_FRESH):
            break
        RETURNS_FRESH.clear()
        RETURNS_FRESH.update(new)
    # candidate sets and helper summaries
    for fn in fns:
        fn.mc = closure(fn)
    helpers = {}
    for fn in fns:
        # in-place helper: module-level private function that writes into its own parameters
        if fn.cls is None and "." not in fn.qual and fn.qual.startswith("_"):
            mp = mutated_params(fn)
            if mp:
                helpers[fn.qual] = (fn, mp)
    # expand call sites of helpers (transitively: helpers calling helpers)
    changed = True
    rounds = 0
    while changed and rounds < 5:
        changed = False
        rounds += 1
        for fn in fns:
            for (callee, args, kws, lineno, recv) in fn.calls:
                if callee in helpers and recv is None:
                    hf, mp = helpers[callee]
                    for pname in mp:
                        if pname in hf.params:
                            i = hf.params.index(pname)
                            a = args[i] if i < len(args) else kws.get(pname)
                            if a is None:
                                continue
                            key = ("helper", callee, pname, lineno)
                            if key in fn.__dict__.setdefault("expanded", set()):
                                continue
                            fn.expanded.add(key)
                            t = fn.ndefs
                            fn.ndefs += 1
                            fn.def_info[t] = ("<arg %s of %s>" % (pname, callee), lineno)
                            fn.stmts.append(("let", t, "alias", sorted(a[0]), False))
                            if a[1]:
                                fn.stmts.append(("let", t, "selfattr", [], False))
                            fn.stmts.append(("inplace", t, lineno, "helper %s(%s)" % (callee, pname)))
                            changed = True
            fn.mc = closure(fn)
            if fn.cls is None and "." not in fn.qual and fn.qual.startswith("_"):
                mp = mutated_params(fn)
                if mp and (fn.qual not in helpers or helpers[fn.qual][1] != mp):
                    helpers[fn.qual] = (fn, mp)
                    changed = True
    return fns, helpers


def closure(fn):
    mc = set()
    lets = [s for s in fn.stmts if s[0] == "let"]
    for s in lets:
        if s[2] in ("param", "selfattr"):
            mc.add(s[1])
    ch = True
    while ch:
        ch = False
        for s in lets:
            if s[2] == "alias" and s[1] not in mc and any(y in mc for y in s[3]):
                mc.add(s[1])
                ch = True
    return mc


def obj_closure(fn):
    mc = set()
    lets = [s for s in fn.obj_stmts if s[0] == "let"]
    for s in lets:
        if s[2] in ("param", "selfattr"):
            mc.add(s[1])
    ch = True
    while ch:
        ch = False
        for s in lets:
            if s[2] == "alias" and s[1] not in mc and any(y in mc for y in s[3]):
                mc.add(s[1])
                ch = True
    return mc


def obj_violations(fn):
    mc = obj_closure(fn)
    return [s for s in fn.obj_stmts if s[0] == "inplace" and s[1] in mc]


def mutated_params(fn):
    """parameters p such that some InPlace target may alias p (by the same closure, restricted to p)"""
    out = set()
    for pname, pd in fn.param_defs.items():
        reach = {pd}
        ch = True
        while ch:
            ch = False
            for s in fn.stmts:
                if s[0] == "let" and s[2] == "alias" and s[1] not in reach and any(y in reach for y in s[3]):
                    reach.add(s[1])
                    ch = True
        if any(s[0] == "inplace" and s[1] in reach for s in fn.stmts):
            out.add(pname)
    return out


def violations(fn, helpers, allow):
    """in-place statements whose target is in the candidate set (would make own_check fail)"""
    out = []
    is_helper = fn.qual in helpers and fn.cls is None
    for s in fn.stmts:
        if s[0] == "inplace" and s[1] in fn.mc:
            if is_helper:
                # writes of a helper into its own parameters are accounted for at its call sites
                if only_from_params(fn, s[1], helpers[fn.qual][1]):
                    continue
            out.append(s)
    return out


def only_from_params(fn, x, pnames):
    """x's caller-ownership stems only from the helper's declared mutated parameters"""
    pdefs = {fn.param_defs[p] for p in pnames}
    # remove those params from the seeds and recompute
    mc = set()
    lets = [s for s in fn.stmts if s[0] == "let"]
    for s in lets:
        if s[2] in ("param", "selfattr") and s[1] not in pdefs:
            mc.add(s[1])
    ch = True
    while ch:
        ch = False
        for s in lets:
            if s[2] == "alias" and s[1] not in mc and any(y in mc for y in s[3]):
                mc.add(s[1])
                ch = True
    return x not in mc


# ----------------------------------------------------------------------------------------
# emission

def final_programs(fn, helpers):
    """(storage program, object program) as lists of IR statements with helper-borrowed parameters
    turned into Fresh (their ownership is established at every call site instead)."""
    borrowed = set()
    if fn.qual in helpers and fn.cls is None:
        borrowed = {fn.param_defs[p] for p in helpers[fn.qual][1] if p in fn.param_defs}
    sp, op = [], []
    for s in fn.stmts:
        if s[0] == "let":
            kind = s[2]
            if kind == "param" and s[1] in borrowed:
                kind = "fresh"
            sp.append(("let", s[1], kind, s[3], s[4]))
        elif s[0] == "inplace":
            sp.append(("inplace", s[1], s[2], s[3]))
    for s in fn.obj_stmts:
        if s[0] == "let":
            kind = s[2]
            if kind == "param" and s[1] in borrowed:
                kind = "fresh"
            op.append(("let", s[1], kind, s[3], False))
        elif s[0] == "inplace":
            op.append(("inplace", s[1], s[2], s[3]))
    return sp, op


def cand(prog):
    mc = set()
    for s in prog:
        if s[0] == "let" and s[2] in ("param", "selfattr"):
            mc.add(s[1])
    ch = True
    while ch:
        ch = False
        for s in prog:
            if s[0] == "let" and s[2] == "alias" and s[1] not in mc and any(y in mc for y in s[3]):
                mc.add(s[1])
                ch = True
    return mc


def prune(prog):
    """keep only what can matter for the check: the backward slice of the in-place targets
    (dropping statements never makes own_check pass when the full program fails: it only removes Lets that
    no in-place target depends on; every Let of a kept variable is kept)"""
    need = {s[1] for s in prog if s[0] == "inplace"}
    ch = True
    while ch:
        ch = False
        for s in prog:
            if s[0] == "let" and s[1] in need:
                for y in s[3]:
                    if y not in need:
                        need.add(y)
                        ch = True
    return [s for s in prog if s[1] in need]


def coq_stmt(s):
    if s[0] == "inplace":
        return "InPlace %d" % s[1]
    kind = s[2]
    if kind == "param":
        return "Let %d Param" % s[1]
    if kind == "selfattr":
        return "Let %d SelfAttr" % s[1]
    if kind == "fresh":
        return "Let %d Fresh" % s[1]
    return "Let %d (AliasOf [%s] %s)" % (s[1], "; ".join(str(y) for y in s[3]), "true" if s[4] else "false")


def ident(s):
    import re
    return re.sub(r"[^A-Za-z0-9_]", "_", s)


def emit(fns, helpers, allow):
    """returns (coq source, table) ; table rows: dict(name, module, qual, kind, n_inplace, ok, failing sites)"""
    L = ["(* GENERATED by harness/own_ir.py from the linear_operator sources — do not edit *)",
         "From Coq Require Import List Arith Bool.", "Import ListNotations.", "Require Import C13.Own.", ""]
    table = []
    names = []
    k = 0
    for fn in fns:
        sp, op = final_programs(fn, helpers)
        for kind, prog in (("storage", sp), ("object", op)):
            if not any(s[0] == "inplace" for s in prog):
                continue
            # allow-listed in-place sites are removed from the program and listed in the table
            allowed = []
            kept = []
            for s in prog:
                if s[0] == "inplace":
                    tname = fn.def_info.get(s[1], ("?", 0))[0]
                    a = allow_match(allow, fn, s, kind)
                    if a is not None:
                        allowed.append(a["id"])
                        continue
                kept.append(s)
            prog2 = prune(kept)
            mc = sorted(cand(prog2))
            bad = [s for s in prog2 if s[0] == "inplace" and s[1] in mc]
            nm = "p%d_%s_%s" % (k, ident(fn.qual)[:60], kind)
            k += 1
            L.append("(* %s :: %s  (%s program; %d in-place sites) *)" % (fn.module, fn.qual, kind, sum(1 for s in prog2 if s[0] == "inplace")))
            body = ";\n  ".join(coq_stmt(s) for s in prog2)
            L.append("Definition %s : list stmt := [\n  %s]." % (nm, body))
            L.append("Definition mc_%s : list nat := [%s]." % (nm, "; ".join(str(x) for x in mc)))
            L.append("Lemma own_%s : own_check (mem mc_%s) %s = true.\nProof. vm_compute. reflexivity. Qed.\n" % (nm, nm, nm))
            names.append(nm)
            table.append({"name": nm, "module": fn.module, "qual": fn.qual, "kind": kind,
                          "n_inplace": sum(1 for s in prog2 if s[0] == "inplace"), "ok": not bad, "allowed": allowed,
                          "failing": [{"line": s[2], "why": s[3], "target": fn.def_info.get(s[1], ("?", 0))[0]} for s in bad]})
    L.append("Definition all_progs : list (list stmt * list nat) := [\n  %s]." % ";\n  ".join("(%s, mc_%s)" % (n, n) for n in names))
    L.append("Lemma all_owned : forallb (fun p => own_check (mem (snd p)) (fst p)) all_progs = true.")
    L.append("Proof. vm_compute. reflexivity. Qed.")
    L.append("Definition n_functions_scanned : nat := %d." % len(fns))
    return "\n".join(L) + "\n", table


def allow_match(allow, fn, s, kind):
    tname = fn.def_info.get(s[1], ("?", 0))[0]
    for a in allow or []:
        if a["module"] == fn.module and a["qual"] == fn.qual and a["why"] == s[3] and a.get("kind", "storage") == kind:
            return a
    return None
