"""C13 translator: Python source of linear_operator  ->  ownership IR  (coq/C13/gen/OwnIR.v)

For every function / method of the package the translator emits a flat list of IR statements

    Let x Param | Let x SelfAttr | Let x Fresh | Let x (AliasOf ys may_fresh) | InPlace x

over definition sites x (every assignment site is its own variable: SSA through a
reaching-definitions pass over the structured control flow).  Control flow itself is dropped: the Coq
semantics executes the statements in ANY order, which over-approximates every real execution.
`InPlace x` is emitted for trailing-underscore tensor methods, `out=` arguments, subscript /
augmented assignment, and for every actual argument bound to a parameter that an internal
in-place helper (module-level private function that writes into its parameters) mutates.

The candidate "may hold caller-owned storage" set is computed here by a worklist but is NOT trusted:
Coq re-checks that it is closed (own_check) and the soundness theorem is proved once in coq/C13.

Fail-closed: statement / expression forms the translator does not know raise Untranslatable.
"""
import ast
import json
import os

HERE = os.path.dirname(os.path.abspath(__file__))
OPS = json.load(open(os.path.join(HERE, "torch_ops.json")))
FRESH_M = set(OPS["fresh_methods"])
VIEW_M = set(OPS["view_methods"])
MAYBE_M = set(OPS["maybe_view_methods"])
META_INPLACE = set(OPS["metadata_inplace_methods"])      # return self, change no values
VALUE_PRESERVING = set(OPS["value_preserving_inplace"])  # detach_, requires_grad_ (explicitly allowed by the property)
FRESH_F = set(OPS["fresh_functions"])
VIEW_F = set(OPS["view_functions"])
NOT_TENSOR_INPLACE = set(OPS["non_tensor_underscore_methods"])
CLOSURE_M = set(OPS["closure_methods"])
CONTAINER_ATTRS = set(OPS["container_attributes"])
CONTAINER_ALIAS_M = set(OPS.get("container_alias_methods", []))   # dict/list methods: result holds (some of) the receiver's elements
SCALAR_ATTRS = set(OPS.get("scalar_attributes", []))             # attributes that never hold tensor storage (shape, dtype, ...)
ALWAYS_TENSOR_ATTRS = set(OPS.get("tensor_attributes", []))       # ctx.saved_tensors: a tuple of tensors by the autograd contract
TENSOR_ATTRS = set(OPS.get("tensor_view_attributes", []))        # .mT / .T / .data ...: tensor views of a tensor
TENSOR_RESULT_M = set(OPS.get("tensor_result_methods", []))      # library methods that return a plain tensor whatever the receiver
NEW_OBJ_M = set(OPS.get("new_object_methods", []))               # maybe-view methods that always return a NEW tensor object
INT_M = set(OPS.get("scalar_result_methods", []))                # size/dim/numel/item/...: results hold no storage whatever the receiver
LIB_CLASSES = {}        # class name -> [(module, ClassDef)] for every class of the package (filled per run)
READERS = {}            # class name -> (frozenset of attribute names the matrix-observing methods of its family may read, wildcard flag)
LIB_METHODS = set()     # every method name defined by a class of the package (filled per run from the source)
TYPES = json.load(open(os.path.join(HERE, "c13_types.json")))
DUNDER_INPLACE = {"__iadd__", "__isub__", "__imul__", "__itruediv__", "__ifloordiv__", "__imod__", "__ipow__", "__iand__", "__ior__",
                  "__ixor__", "__ilshift__", "__irshift__", "__imatmul__", "__setitem__", "__delitem__", "__idiv__"}
USED = {}               # (category, name) -> number of call sites classified that way (filled by Analyzer.call)
CACHE_FILLS = []        # filled by emit(): sites permitted by the cache-fill rule
LAST_SKIPPED = []       # filled by emit(): in-place-looking constructs without a site, each with the reason
REBIND_EXEMPT_MODULES = {"linear_operator/settings.py", "linear_operator/utils/memoize.py", "linear_operator/utils/deprecation.py"}
RETURNS_FRESH = {}      # bare name of a module-level library function -> True if its results never alias its parameters


class Untranslatable(Exception):
    pass


class Fn:
    def __init__(self, qual, node, module, cls):
        self.qual, self.node, self.module, self.cls = qual, node, module, cls
        self.stmts = []          # ("let", x, kind, ys, may_fresh) | ("inplace", x, lineno, why)
        self.ndefs = 0
        self.def_info = {}       # x -> (name, lineno)
        self.param_defs = {}     # param name -> def id
        self.params = []
        self.obj_stmts = []      # object-identity program: ("let", x, kind, ys) | ("inplace", x, lineno, why)
        self.ret_sets = []       # alias sets of returned expressions
        self.calls = []          # (callee bare name, [alias sets of positional args], {kw: alias set}, lineno)
        self.mutated_params = set()
        self.list_of_lists = set()
        self.module_globals = set()
        self.def_container = set()       # defs whose value is a freshly created python list / dict / set (or an update of one)
        self.local_closure_defs = set()   # defs created by a nested def / lambda / partial(...): calling them may return what they captured
        self.def_kind = {}       # x -> True if the value is known to be a plain tensor / number / tuple of such
        self.assumed_tensor_params = []
        self.skipped = []        # (lineno, why, reason): in-place-LOOKING constructs for which no site is emitted (python containers, ...)


class Analyzer(ast.NodeVisitor):
    """one function body"""

    def __init__(self, fn, helpers_known):
        self.fn = fn
        self.env = {}            # name -> frozenset(def ids)
        self.helpers = helpers_known

    # -- definitions
    def new_def(self, name, lineno, kind, ys=(), may_fresh=False, obj=None, kt=False):
        x = self.fn.ndefs
        self.fn.ndefs += 1
        self.fn.def_info[x] = (name, lineno)
        self.fn.def_kind[x] = bool(kt)
        if getattr(self, "next_def_is_container", False):
            self.fn.def_container.add(x)
        self.fn.stmts.append(("let", x, kind, sorted(set(ys)), bool(may_fresh)))
        if kind == "param":
            self.fn.obj_stmts.append(("let", x, "param", []))
        elif obj is not None:
            self.fn.obj_stmts.append(("let", x, "alias", sorted(obj[0])))
            if obj[1]:
                self.fn.obj_stmts.append(("let", x, "selfattr", []))
        else:
            self.fn.obj_stmts.append(("let", x, "fresh", []))
        return x

    def objalias(self, e):
        """definition sites whose value may be the very same Python object as the value of e (pure)"""
        E = frozenset()
        if isinstance(e, ast.Name):
            if e.id == "self":
                return (E, True)
            return (self.env.get(e.id, E), False)
        if isinstance(e, ast.Attribute):
            o = self.objalias(e.value)
            return o
        if isinstance(e, ast.Subscript):
            return self.objalias(e.value)
        if isinstance(e, (ast.IfExp,)):
            a, b = self.objalias(e.body), self.objalias(e.orelse)
            return (a[0] | b[0], a[1] or b[1])
        if isinstance(e, ast.BoolOp):
            r = [self.objalias(v) for v in e.values]
            return (frozenset().union(*[x[0] for x in r]), any(x[1] for x in r))
        if isinstance(e, (ast.Tuple, ast.List)):
            r = [self.objalias(v) for v in e.elts] or [(E, False)]
            return (frozenset().union(*[x[0] for x in r]), any(x[1] for x in r))
        if isinstance(e, ast.Starred):
            return self.objalias(e.value)
        if isinstance(e, ast.NamedExpr):
            return self.objalias(e.value)
        if isinstance(e, ast.Call):
            f = e.func
            ops = [self.objalias(a) for a in e.args] + [self.objalias(k.value) for k in e.keywords]
            allo = (frozenset().union(*[x[0] for x in ops]) if ops else E, any(x[1] for x in ops))
            if (isinstance(f, ast.Attribute) and f.attr == "__class__") or \
                    (isinstance(f, ast.Name) and f.id not in self.env and f.id in LIB_CLASSES) or \
                    (isinstance(f, ast.Call) and isinstance(f.func, ast.Name) and f.func.id == "type" and len(f.args) == 1):
                # self.__class__(...), type(x)(...), LibraryClass(...): a constructor call yields a NEW object (no class of the package
                # defines __new__); the STORAGE of its result still aliases the arguments (storage program, Analyzer.call)
                return (E, False)
            if isinstance(f, ast.Attribute):
                m = f.attr
                if self.is_module(f.value):
                    if m in FRESH_F or self.dotted(f) in FRESH_F or m in VIEW_F:
                        return (E, False)
                    return allo
                recv = self.objalias(f.value)
                if m in FRESH_M or m in VIEW_M or m in NEW_OBJ_M or m in INT_M:
                    return (E, False)
                if m in MAYBE_M or m in META_INPLACE or m in VALUE_PRESERVING or (m.endswith("_") and not m.endswith("__")):
                    return recv
                if m in OPS.get("fresh_object_methods", []):
                    return (E, False)
                if m in CLOSURE_M:
                    return allo
                return (recv[0] | allo[0], recv[1] or allo[1])
            if isinstance(f, ast.Name):
                if f.id in OPS["pure_builtins"] and f.id not in ("list", "tuple", "reversed", "sorted", "zip", "enumerate", "iter", "next", "dict", "set", "map", "filter", "getattr"):
                    return (E, False)
                if f.id not in self.env and RETURNS_FRESH.get(f.id) and resolves_to_library_function(self.fn.module, f.id):
                    return (E, False)
                return allo
            return allo
        return (E, False)

    # -- kinds: True = "known to be a plain torch tensor, a number/str/shape, or a tuple/list of such";
    #    False = anything else (LinearOperator, dict, closure, unknown object).  Only used to decide whether a method
    #    name that ALSO exists on library classes (mul, add, sum, cholesky, ...) and the arithmetic operators have
    #    the tensor semantics of torch_ops.json; on receivers of unknown kind they are treated as Unknown
    #    (result may alias receiver and operands).
    def kind(self, e):
        if e is None or isinstance(e, (ast.Constant, ast.JoinedStr, ast.FormattedValue, ast.Compare, ast.Slice)):
            return True
        if isinstance(e, ast.Name):
            if e.id == "self":
                return False
            if e.id in self.env:
                ds = self.env[e.id]
                return bool(ds) and all(self.fn.def_kind.get(d, False) for d in ds)
            return e.id in ("True", "False", "None", "Ellipsis")
        if isinstance(e, ast.Attribute):
            if e.attr in SCALAR_ATTRS or e.attr in ALWAYS_TENSOR_ATTRS:
                return True
            if e.attr in TENSOR_ATTRS:
                return self.kind(e.value)
            if self.is_module(e.value):
                return e.attr in ("pi", "e", "inf", "nan", "float", "double", "half", "long", "bool", "int", "float32", "float64")
            return False
        if isinstance(e, ast.Subscript):
            return self.kind(e.value)
        if isinstance(e, ast.BinOp):
            return self.kind(e.left) and self.kind(e.right)
        if isinstance(e, ast.UnaryOp):
            return isinstance(e.op, ast.Not) or self.kind(e.operand)
        if isinstance(e, (ast.BoolOp,)):
            return all(self.kind(v) for v in e.values)
        if isinstance(e, ast.IfExp):
            return self.kind(e.body) and self.kind(e.orelse)
        if isinstance(e, (ast.Tuple, ast.List, ast.Set)):
            return all(self.kind(v) for v in e.elts)
        if isinstance(e, ast.Starred):
            return self.kind(e.value)
        if isinstance(e, ast.NamedExpr):
            return self.kind(e.value)
        if isinstance(e, (ast.ListComp, ast.GeneratorExp, ast.SetComp)):
            saved = dict(self.env)
            try:
                for g in e.generators:
                    self.bind_kind_only(g.target, self.kind(g.iter))
                return self.kind(e.elt)
            finally:
                self.env = saved
        if isinstance(e, ast.Call):
            f = e.func
            argk = all(self.kind(a) for a in e.args) and all(self.kind(k.value) for k in e.keywords)
            if isinstance(f, ast.Attribute):
                m = f.attr
                if self.is_module(f.value):
                    full = self.dotted(f)
                    return m in FRESH_F or full in FRESH_F or m in VIEW_F or full in VIEW_F or (m.endswith("_") and not m.startswith("_"))
                if m in INT_M or m in TENSOR_RESULT_M:
                    return True
                if self.is_lib_module(f.value) and m in TYPES.get("tensor_result_functions", []):
                    return True
                rk = self.kind(f.value)
                table = m in FRESH_M or m in VIEW_M or m in MAYBE_M or m in META_INPLACE or m in VALUE_PRESERVING \
                    or (m.endswith("_") and not m.endswith("__"))
                if table and m not in LIB_METHODS:
                    return True             # only torch tensors (and builtin str/list) have this method
                if table:
                    return rk
                if m in CLOSURE_M:
                    return argk and bool(e.args)      # closure protocol: tensors in, tensors out (validated dynamically)
                if m in CONTAINER_ALIAS_M:
                    return rk
                return False
            if isinstance(f, ast.Name):
                nm = f.id
                if nm in OPS["pure_builtins"]:
                    if nm in ("list", "tuple", "reversed", "sorted", "zip", "enumerate", "iter", "next", "dict", "set", "map", "filter", "getattr", "sum", "min", "max", "abs", "pow", "round", "super"):
                        return argk
                    return True
                if nm in self.env and self.fn.param_defs.get(nm) in self.env[nm] and len(self.env[nm]) == 1:
                    return argk and bool(e.args)      # closure parameter: tensors in, tensors out (validated dynamically)
                if nm not in self.env and nm in TYPES.get("tensor_result_functions", []):
                    return True
                return False
            return False
        return False

    def bind_kind_only(self, t, k):
        """bind comprehension targets for kind() evaluation (no IR statement is emitted)"""
        if isinstance(t, ast.Name):
            self.fake = getattr(self, "fake", 0) - 1
            self.fn.def_kind[self.fake] = bool(k)
            self.env[t.id] = frozenset([self.fake])
        elif isinstance(t, (ast.Tuple, ast.List)):
            for el in t.elts:
                self.bind_kind_only(el, k)
        elif isinstance(t, ast.Starred):
            self.bind_kind_only(t.value, k)

    def bind(self, name, x):
        self.env[name] = frozenset([x])

    def inplace(self, aset, lineno, why):
        ys, self_attr, _ = aset
        t = self.new_def("<target:%s>" % why, lineno, "alias", ys, False)
        if self_attr:
            self.fn.stmts.append(("let", t, "selfattr", [], False))
        self.fn.stmts.append(("inplace", t, lineno, why))

    # -- alias sets: (frozenset of def ids, is_self_attr, may_fresh)
    def alias(self, e):
        E = frozenset()
        if e is None or isinstance(e, (ast.Constant, ast.JoinedStr, ast.FormattedValue)):
            return (E, False, True)
        if isinstance(e, ast.Name):
            if e.id == "self":
                return (E, True, False)
            if e.id not in self.env and e.id in self.fn.module_globals:
                return (E, True, False)          # module-level object: owned by the library/caller, never by this call
            return (self.env.get(e.id, E), False, e.id not in self.env)
        if isinstance(e, ast.Attribute):
            if self.is_module(e.value) or self.is_lib_module(e.value):
                # state held by a module / settings class (e.g. settings.deterministic_probes.probe_vectors): pre-existing, not ours
                return (E, True, False)
            ys, sa, mf = self.alias(e.value)
            # an attribute of a caller-owned object is caller-owned; .mT/.T/.data/... are views
            return (ys, sa, mf)
        if isinstance(e, ast.Subscript):
            ys, sa, mf = self.alias(e.value)
            self.alias(e.slice)
            return (ys, sa, True)            # view (basic indexing) or copy (advanced indexing)
        if isinstance(e, (ast.BinOp,)):
            a, b = self.alias(e.left), self.alias(e.right)
            if self.kind(e.left) and self.kind(e.right):
                self.used("binop", "tensor")
                return (E, False, True)          # arithmetic on tensors / numbers / shapes allocates
            self.used("binop", "unknown")
            r = self.union([a, b])               # operator arithmetic / container concatenation: may share the operands' tensors
            return (r[0], r[1], True)
        if isinstance(e, ast.UnaryOp):
            a = self.alias(e.operand)
            if isinstance(e.op, ast.Not) or self.kind(e.operand):
                return (E, False, True)
            return (a[0], a[1], True)
        if isinstance(e, ast.Compare):
            self.alias(e.left)
            for c in e.comparators:
                self.alias(c)
            return (E, False, True)
        if isinstance(e, ast.BoolOp):
            return self.union([self.alias(v) for v in e.values])
        if isinstance(e, ast.IfExp):
            self.alias(e.test)
            return self.union([self.alias(e.body), self.alias(e.orelse)])
        if isinstance(e, (ast.Tuple, ast.List, ast.Set)):
            return self.union([self.alias(v) for v in e.elts] or [(E, False, True)])
        if isinstance(e, ast.Dict):
            return self.union([self.alias(v) for v in e.values if v is not None] or [(E, False, True)])
        if isinstance(e, ast.Starred):
            return self.alias(e.value)
        if isinstance(e, ast.Slice):
            for p in (e.lower, e.upper, e.step):
                if p is not None:
                    self.alias(p)
            return (E, False, True)
        if isinstance(e, (ast.ListComp, ast.GeneratorExp, ast.SetComp, ast.DictComp)):
            saved = dict(self.env)
            for g in e.generators:
                kt = self.kind(g.iter)
                it = self.alias(g.iter)
                self.assign_target(g.target, it, e.lineno, kt=kt)
                for c in g.ifs:
                    self.alias(c)
            if isinstance(e, ast.DictComp):
                self.alias(e.key)
                r = self.alias(e.value)
            else:
                r = self.alias(e.elt)
            self.env = saved
            return r
        if isinstance(e, ast.Lambda):
            # the body is analysed as a separate function; the closure VALUE holds (may return) what it captures
            cap = self.union([self.alias(ast.Name(id=v, ctx=ast.Load())) for v in sorted(free_names(e)) if v in self.env or v == "self"]
                             or [(E, False, True)])
            return (cap[0], cap[1], True)
        if isinstance(e, ast.Call):
            return self.call(e)
        if isinstance(e, ast.NamedExpr):
            kt = self.kind(e.value)
            v = self.alias(e.value)
            self.assign_target(e.target, v, e.lineno, kt=kt)
            return v
        if isinstance(e, (ast.Await, ast.Yield, ast.YieldFrom)):
            return self.alias(e.value) if e.value is not None else (E, False, True)
        raise Untranslatable("expression %s at line %s" % (type(e).__name__, getattr(e, "lineno", "?")))

    def union(self, sets):
        ys = frozenset().union(*[s[0] for s in sets])
        return (ys, any(s[1] for s in sets), any(s[2] for s in sets))

    def call(self, e):
        f = e.func
        args = [self.alias(a) for a in e.args]
        kws = {k.arg: self.alias(k.value) for k in e.keywords}
        allops = args + list(kws.values())
        E = frozenset()
        inpl = next((k.value for k in e.keywords if k.arg == "inplace"), None)
        if inpl is not None and not (isinstance(inpl, ast.Constant) and inpl.value in (False, None)):
            # f(x, ..., inplace=True): torch.nn.functional style in-place call writes its first tensor operand / receiver
            tgt = args[0] if args else (self.alias(f.value) if isinstance(f, ast.Attribute) else None)
            if tgt is None:
                raise Untranslatable("inplace= call without operand at line %s" % e.lineno)
            self.inplace(tgt, e.lineno, "inplace=")
            if isinstance(f, ast.Attribute) and not self.is_module(f.value):
                self.inplace(self.alias(f.value), e.lineno, "inplace=")
        out = kws.get("out")
        if out is not None and isinstance(next(k.value for k in e.keywords if k.arg == "out"), ast.Constant):
            self.fn.skipped.append((e.lineno, "out=", "constant out= argument (None): nothing is written"))
        if out is not None and not (isinstance(next(k.value for k in e.keywords if k.arg == "out"), ast.Constant)):
            if isinstance(f, ast.Name):
                self.fn.calls.append((f.id, args, kws, e.lineno, None))
            self.inplace(out, e.lineno, "out=")
            return (out[0], out[1], False)
        if isinstance(f, ast.Attribute):
            recv = self.alias(f.value)
            m = f.attr
            base_is_torch = self.is_module(f.value)
            if base_is_torch:
                full = self.dotted(f)
                if m in FRESH_F or full in FRESH_F:
                    self.used("fresh_function", full)
                    return (E, False, True)
                if m in VIEW_F or full in VIEW_F:
                    self.used("view_function", full)
                    return self.as_view(self.union(allops or [(E, False, True)]), False)
                if m.endswith("_") and not m.startswith("_"):
                    # torch.xxx_(tensor, ...) in-place functional form
                    self.used("inplace_function", full)
                    if args:
                        self.inplace(args[0], e.lineno, "torch.%s" % m)
                        return (args[0][0], args[0][1], False)
                self.used("unknown_function", full)
                r = self.union(allops or [(E, False, True)])
                return (r[0], r[1], True)        # unknown module function: may alias an operand
            if m in VALUE_PRESERVING or m in META_INPLACE:
                self.used("value_preserving" if m in VALUE_PRESERVING else "metadata_inplace", m)
                if m in VALUE_PRESERVING:
                    self.fn.skipped.append((e.lineno, "." + m, "value-preserving in-place method explicitly permitted by the property"))
                if m in META_INPLACE:
                    self.meta_inplace(f.value, e.lineno, m)
                    # no stored value changes, but torch bumps the VERSION COUNTER, which the receiver shares with every view of
                    # its storage: `g.unsqueeze(-1).unsqueeze_(-1)` invalidates the caller's g for every autograd graph that saved
                    # it.  Hence also an in-place site of the storage program.
                    self.inplace(recv, e.lineno, "." + m)
                return (recv[0], recv[1], False)
            if m in DUNDER_INPLACE:
                # x.__iadd__(y), x.__setitem__(i, v), torch.Tensor.__imul__(x, y): in-place without the trailing underscore
                self.used("inplace_method", m)
                tgt = recv if (recv[0] or recv[1] or not args) else args[0]
                self.inplace(tgt, e.lineno, "." + m)
                return (tgt[0], tgt[1], False)
            if m.endswith("_") and not m.endswith("__") and m not in NOT_TENSOR_INPLACE:
                self.used("inplace_method", m)
                self.inplace(recv, e.lineno, "." + m)
                return (recv[0], recv[1], False)
            if m.endswith("_") and not m.endswith("__") and m in NOT_TENSOR_INPLACE:
                self.fn.skipped.append((e.lineno, "." + m, "not a tensor method (torch_ops.json non_tensor_underscore_methods)"))
            if m in INT_M:
                self.used("scalar_result_method", m)
                return (E, False, True)
            if m in CONTAINER_ALIAS_M:
                self.used("container_alias_method", m)
                r = self.union([recv] + allops)
                return (r[0], r[1], True)
            if m in FRESH_M and m in LIB_METHODS and not self.kind(f.value):
                # the name is also a method of library classes and the receiver is not known to be a tensor
                self.used("ambiguous_as_unknown", m)
                self.fn.calls.append((m, args, kws, e.lineno, recv))
                r = self.union([recv] + allops)
                return (r[0], r[1], True)
            if m in FRESH_M:
                self.used("fresh_method", m)
                return (E, False, True)
            if m in VIEW_M:
                self.used("view_method", m)
                return self.as_view(recv, False)
            if m in MAYBE_M:
                self.used("maybe_view_method", m)
                return self.as_view(recv, True)
            if m in ("append", "extend", "insert", "add", "update", "setdefault", "pop", "remove", "clear", "sort", "reverse"):
                # python container mutation: the container now also holds the operands
                if isinstance(f.value, ast.Name) and f.value.id in self.env and allops:
                    u = self.union([recv] + allops)
                    x = self.new_def(f.value.id, e.lineno, "alias", u[0], u[2],
                                     kt=self.kind(f.value) and all(self.kind(z) for z in e.args) and all(self.kind(z.value) for z in e.keywords))
                    if u[1]:
                        self.fn.stmts.append(("let", x, "selfattr", [], False))
                    if self.is_container(f.value.id):
                        self.fn.def_container.add(x)
                    self.env[f.value.id] = frozenset([x]) | self.env[f.value.id]
                return (recv[0], recv[1], True)
            if m in CLOSURE_M:
                # operator protocol / closures: the result is fresh or aliases one of the ARGUMENTS (validated dynamically)
                self.fn.calls.append((m, args, kws, e.lineno, recv))
                r = self.union(allops or [(E, False, True)])
                return (r[0], r[1], True)
            # a method of a library object / closure attribute: result may alias receiver or operands
            callee = m
            self.fn.calls.append((callee, args, kws, e.lineno, recv))
            r = self.union([recv] + allops)
            return (r[0], r[1], True)
        if isinstance(f, ast.Name):
            nm = f.id
            if nm in OPS["pure_builtins"]:
                if nm in ("list", "tuple", "reversed", "sorted", "zip", "enumerate", "iter", "next", "dict", "set", "map", "filter"):
                    r = self.union(allops or [(E, False, True)])
                    return (r[0], r[1], True)
                return (E, False, True)
            self.fn.calls.append((nm if (nm in self.env or resolves_to_library_function(self.fn.module, nm)) else "<unresolved>" + nm,
                                  args, kws, e.lineno,
                                  "<star>" if (any(isinstance(a, ast.Starred) for a in e.args) or any(k.arg is None for k in e.keywords)) else None))
            if nm not in self.env and RETURNS_FRESH.get(nm) and resolves_to_library_function(self.fn.module, nm):
                self.used("library_function_returning_fresh", nm)
                return (E, False, True)
            if nm in self.env:
                # closure PARAMETER (matmul_closure, preconditioner, ...): by the closure assumption (validated dynamically
                # for every closure the library builds) its result is fresh or aliases one of its arguments.
                # Any other local callable (nested def / lambda / partial): additionally whatever the callable captured.
                ops_ = list(allops)
                loc = self.env[nm] & self.fn.local_closure_defs
                if loc:
                    ops_.append((frozenset(loc), False, False))
                else:
                    self.used("closure_param_call", nm)
                r = self.union(ops_ or [(E, False, True)])
                return (r[0], r[1], True)
            r = self.union(allops or [(E, False, True)])
            return (r[0], r[1], True)
        # call of a call / subscript etc.
        r = self.union([self.alias(f)] + allops)
        return (r[0], r[1], True)

    def used(self, cat, name):
        USED[(cat, name)] = USED.get((cat, name), 0) + 1

    def meta_inplace(self, recv_expr, lineno, m):
        # metadata-in-place (unsqueeze_, squeeze_, transpose_, resize_ ...) changes no stored value; it changes the
        # caller's tensor only if the receiver may be the caller's very tensor OBJECT (object-identity program)
        o = self.objalias(recv_expr)
        t = self.new_def("<target:.%s>" % m, lineno, "fresh", obj=o)
        self.fn.obj_stmts.append(("inplace", t, lineno, "." + m))

    def as_view(self, a, may_fresh):
        return (a[0], a[1], may_fresh or a[2] and not a[0] and not a[1])

    def is_module(self, v):
        d = self.dotted(v)
        return d is not None and (d.split(".")[0] in ("torch", "math", "np", "numpy", "warnings", "scipy", "itertools",
                                                      "operator", "functools", "settings", "string", "pickle", "logging"))

    def is_lib_module(self, v):
        """`utils.f(...)`, `linear_operator.utils.f(...)`: a module of the package, not an object"""
        d = self.dotted(v)
        return d is not None and d.split(".")[0] in ("utils", "linear_operator", "functions", "sparse", "interpolation", "toeplitz",
                                                     "cholesky", "lanczos", "linear_cg", "minres", "qr", "permutation", "getitem",
                                                     "broadcasting", "memoize", "deprecation", "errors", "pinverse", "stochastic_lq")

    def dotted(self, v):
        if isinstance(v, ast.Name):
            return v.id if v.id not in self.env else None
        if isinstance(v, ast.Attribute):
            b = self.dotted(v.value)
            return None if b is None else b + "." + v.attr
        return None

    # -- statements
    def assign_target(self, t, a, lineno, obj=None, kt=False):
        if isinstance(t, ast.Name):
            x = self.new_def(t.id, lineno, "alias" if (a[0] or a[1]) else "fresh", a[0], a[2], obj=obj, kt=kt)
            if a[1]:
                self.fn.stmts.append(("let", x, "selfattr", [], False))
            self.bind(t.id, x)
        elif isinstance(t, (ast.Tuple, ast.List)):
            for el in t.elts:
                self.assign_target(el, (a[0], a[1], True), lineno, obj=obj, kt=kt)
        elif isinstance(t, ast.Starred):
            self.assign_target(t.value, a, lineno, obj=obj, kt=kt)
        elif isinstance(t, ast.Attribute):
            self.alias(t.value)              # rebinding an attribute: no tensor storage is written ...
            if t.attr in ("data", "grad", "requires_grad", "_base", "names"):
                # ... except for these tensor attributes: x.data = y replaces the caller's tensor contents
                raise Untranslatable("assignment to tensor attribute .%s at line %s" % (t.attr, lineno))
            if isinstance(t.value, ast.Name) and t.value.id == "self" and self.fn.cls is not None \
                    and self.fn.node.name not in ("__init__", "__new__", "__setstate__", "__init_subclass__"):
                # ... but the existing object `self` is changed: an in-place site of the object-identity program
                tt_ = self.new_def("<self.%s>" % t.attr, lineno, "fresh", obj=(frozenset(), True))
                self.fn.obj_stmts.append(("inplace", tt_, lineno, "attr-rebind:" + t.attr))
            elif not (isinstance(t.value, ast.Name) and t.value.id == "self"):
                # rebinding an attribute of ANOTHER object (a sub-operator `self._linear_op.x = ...`, an argument `other.tensor = ...`):
                # the object changed is whatever t.value may denote -> in-place site of the object-identity program.  Not objects:
                # module / settings state; the autograd context `ctx` of Function.forward/backward/setup_context (created by torch
                # for this very call); the three bookkeeping modules listed in REBIND_EXEMPT_MODULES.
                base = t.value
                while isinstance(base, (ast.Attribute, ast.Subscript)):
                    base = base.value
                is_ctx = isinstance(base, ast.Name) and base.id == "ctx" and self.fn.node.name in ("forward", "backward", "setup_context")
                if self.is_module(t.value) or self.is_lib_module(t.value) or is_ctx or self.fn.module in REBIND_EXEMPT_MODULES:
                    self.fn.skipped.append((lineno, "attr-rebind-other:" + t.attr, "module state / autograd ctx / bookkeeping module"))
                else:
                    tt_ = self.new_def("<%s.%s>" % (ast.unparse(t.value)[:30], t.attr), lineno, "fresh", obj=self.objalias(t.value))
                    self.fn.obj_stmts.append(("inplace", tt_, lineno, "attr-rebind-other:" + t.attr))
        elif isinstance(t, ast.Subscript):
            tgt = self.alias(t.value)
            self.alias(t.slice)
            if isinstance(t.value, ast.Attribute) and t.value.attr in CONTAINER_ATTRS:
                self.fn.skipped.append((lineno, "subscript-assign", "python container attribute .%s" % t.value.attr))
            elif isinstance(t.value, ast.Name) and t.value.id in self.env and self.is_container(t.value.id):
                self.fn.skipped.append((lineno, "subscript-assign", "python container `%s` (every reaching definition creates a list / dict / set)" % t.value.id))
                u = self.union([tgt, a])
                x = self.new_def(t.value.id, lineno, "alias", u[0], u[2], kt=kt and self.kind(t.value))
                self.fn.def_container.add(x)
                self.env[t.value.id] = frozenset([x]) | self.env[t.value.id]
            else:
                self.inplace(tgt, lineno, "subscript-assign")
        else:
            raise Untranslatable("assignment target %s" % type(t).__name__)

    def param_is_tensor(self, p):
        """annotation names only tensors / numbers / shapes, or the parameter is declared in c13_types.json (both are
        validated against the running library by harness/c13.py)"""
        decl = TYPES.get("tensor_params", {}).get("%s::%s" % (self.fn.module, self.fn.qual), [])
        if p.arg in decl:
            self.fn.assumed_tensor_params.append(p.arg)
            return True
        if p.annotation is None:
            return False
        try:
            txt = ast.unparse(p.annotation)
        except Exception:
            return False
        if "LinearOperator" in txt or "Callable" in txt or "Any" in txt or "Dict" in txt or "object" in txt:
            return False
        import re as _re
        words = set(_re.findall(r"[A-Za-z_][A-Za-z_0-9]*", _re.sub(r"(['\"]).*?\1", "", txt)))
        ok = {"Tensor", "torch", "Float", "Int", "Long", "Bool", "LongTensor", "Optional", "Union", "int", "float", "bool", "str",
              "Size", "Tuple", "List", "Sequence", "None", "dtype", "device", "IndexType", "slice", "Number", "Shaped", "Integer", "Num"}
        if words and words <= ok:
            self.fn.assumed_tensor_params.append(p.arg)
            return True
        return False

    def is_container(self, name):
        """every definition of `name` reaching this point is a python container (flow-sensitive), or the name is one of the
        loop variables over lists-of-lists recognised by the pre-pass"""
        ds = self.env.get(name)
        if ds and all(d in self.fn.def_container for d in ds):
            return True
        return name in self.containers

    def run(self):
        node = self.fn.node
        # python containers: names EVERY direct assignment of which creates a new list / dict / set; subscript assignment
        # and `+=` on such a name update the container (what it holds), they do not write a tensor
        self.containers = set()        # (flow-sensitive def-level flags decide; see is_container)
        # loop variables ranging over a container of python lists built by list(...) comprehensions
        for n in ast.walk(node):
            if isinstance(n, ast.Assign) and isinstance(n.value, ast.ListComp) and isinstance(n.value.elt, ast.Call) \
                    and isinstance(n.value.elt.func, ast.Name) and n.value.elt.func.id == "list":
                for t in n.targets:
                    if isinstance(t, ast.Name):
                        self.fn.list_of_lists.add(t.id)
        for n in ast.walk(node):
            if isinstance(n, ast.For) and isinstance(n.iter, ast.Call) and isinstance(n.iter.func, ast.Name) and n.iter.func.id == "zip":
                tg = n.target.elts if isinstance(n.target, ast.Tuple) else []
                for el, it in zip(tg, n.iter.args):
                    if isinstance(el, ast.Name) and isinstance(it, ast.Name) and it.id in self.fn.list_of_lists:
                        self.containers.add(el.id)
            if isinstance(n, ast.For) and isinstance(n.target, ast.Name) and isinstance(n.iter, ast.Name) and n.iter.id in self.fn.list_of_lists:
                self.containers.add(n.target.id)
        a = node.args
        allargs = list(a.posonlyargs) + list(a.args) + list(a.kwonlyargs)
        if a.vararg:
            allargs.append(a.vararg)
        if a.kwarg:
            allargs.append(a.kwarg)
        if a.vararg:
            self.containers.add(a.vararg.arg)
        if a.kwarg:
            self.containers.add(a.kwarg.arg)
        for i, p in enumerate(allargs):
            if p.arg in ("self", "cls") and i == 0 and self.fn.cls:
                continue
            if p.arg == "out":
                # explicit out= buffer: excluded by the property (the caller asks for the write)
                x = self.new_def(p.arg, node.lineno, "fresh", kt=True)
                self.bind(p.arg, x)
                self.fn.params.append(p.arg)
                continue
            x = self.new_def(p.arg, node.lineno, "param", kt=self.param_is_tensor(p))
            if (a.vararg and p is a.vararg) or (a.kwarg and p is a.kwarg):
                self.fn.def_container.add(x)
            self.bind(p.arg, x)
            self.fn.param_defs[p.arg] = x
            self.fn.params.append(p.arg)
        # free variables of nested functions / lambdas: captured from the enclosing scope -> caller-owned
        for nm in sorted(self.fn.captured):
            if nm not in self.env:
                x = self.new_def(nm, node.lineno, "param")
                self.bind(nm, x)
        body = node.body if isinstance(node.body, list) else [ast.Expr(node.body)]
        self.block(body)

    def block(self, body):
        for st in body:
            self.stmt(st)

    def merge(self, envs):
        out = {}
        for e in envs:
            for k, v in e.items():
                out[k] = out.get(k, frozenset()) | v
        return out

    def stmt(self, st):
        if isinstance(st, (ast.FunctionDef, ast.AsyncFunctionDef, ast.ClassDef)):
            if not isinstance(st, ast.ClassDef):
                # a nested function holds (may return) whatever it captures from this scope
                cap = self.union([self.alias(ast.Name(id=v, ctx=ast.Load())) for v in sorted(free_names(st)) if v in self.env or v == "self"]
                                 or [(frozenset(), False, True)])
                x = self.new_def(st.name, st.lineno, "alias" if (cap[0] or cap[1]) else "fresh", cap[0], True)
                if cap[1]:
                    self.fn.stmts.append(("let", x, "selfattr", [], False))
                self.fn.local_closure_defs.add(x)
                self.bind(st.name, x)
            return
        if isinstance(st, ast.Assign):
            o = self.objalias(st.value)
            kt = self.kind(st.value)
            a = self.alias(st.value)
            n0 = self.fn.ndefs
            for t in st.targets:
                self.next_def_is_container = isinstance(t, ast.Name) and container_like(st.value)
                try:
                    self.assign_target(t, a, st.lineno, obj=o, kt=kt)
                finally:
                    self.next_def_is_container = False
            if any(isinstance(n, ast.Lambda) for n in ast.walk(st.value)) or \
                    (isinstance(st.value, ast.Call) and (self.dotted(st.value.func) or "").endswith("partial")):
                self.fn.local_closure_defs.update(range(n0, self.fn.ndefs))
            return
        if isinstance(st, ast.AnnAssign):
            if st.value is not None:
                o = self.objalias(st.value)
                kt = self.kind(st.value)
                a_ = self.alias(st.value)
                self.next_def_is_container = isinstance(st.target, ast.Name) and container_like(st.value)
                try:
                    self.assign_target(st.target, a_, st.lineno, obj=o, kt=kt)
                finally:
                    self.next_def_is_container = False
            return
        if isinstance(st, ast.AugAssign):
            v = self.alias(st.value)
            t = st.target
            if isinstance(t, ast.Name):
                cur = self.alias(t)
                numeric = isinstance(st.value, ast.Constant) and isinstance(st.value.value, (int, float)) \
                    and t.id in self.fn.counter_names
                if t.id in self.env and self.is_container(t.id) and isinstance(st.op, (ast.Add, ast.Mult, ast.BitOr)):
                    # list += ... / dict |= ...: the (local) container now also holds the operands; no tensor is written
                    self.fn.skipped.append((st.lineno, "augassign", "python container `%s`" % t.id))
                    u = self.union([cur, v])
                    x = self.new_def(t.id, st.lineno, "alias" if (u[0] or u[1]) else "fresh", u[0], True, kt=self.kind(t) and self.kind(st.value))
                    if u[1]:
                        self.fn.stmts.append(("let", x, "selfattr", [], False))
                    self.fn.def_container.add(x)
                    self.env[t.id] = frozenset([x]) | self.env[t.id]
                    return
                if not numeric:
                    self.inplace(cur, st.lineno, "augassign")
                else:
                    self.fn.skipped.append((st.lineno, "augassign", "int / float counter `%s` (every assignment is a numeric constant or a range() loop)" % t.id))
                x = self.new_def(t.id, st.lineno, "alias" if (cur[0] or cur[1]) else "fresh", cur[0], True, obj=self.objalias(t),
                                 kt=self.kind(t) and self.kind(st.value))
                self.bind(t.id, x)
            elif isinstance(t, ast.Subscript):
                if isinstance(t.value, ast.Attribute) and t.value.attr in CONTAINER_ATTRS:
                    self.fn.skipped.append((st.lineno, "augassign-subscript", "python container attribute .%s" % t.value.attr))
                elif isinstance(t.value, ast.Name) and self.is_container(t.value.id):
                    self.fn.skipped.append((st.lineno, "augassign-subscript", "python container `%s`" % t.value.id))
                else:
                    self.inplace(self.alias(t.value), st.lineno, "augassign-subscript")
            elif isinstance(t, ast.Attribute):
                self.inplace(self.alias(t), st.lineno, "augassign-attribute")
            return
        if isinstance(st, ast.Expr):
            self.alias(st.value)
            return
        if isinstance(st, ast.Return):
            if st.value is not None:
                self.fn.ret_sets.append(self.alias(st.value))
            return
        if isinstance(st, ast.If):
            self.alias(st.test)
            e0 = dict(self.env)
            self.block(st.body)
            e1 = self.env
            self.env = dict(e0)
            self.block(st.orelse)
            self.env = self.merge([e1, self.env])
            return
        if isinstance(st, (ast.For, ast.AsyncFor, ast.While)):
            e0 = dict(self.env)
            seen = [e0]
            prev_sig = None
            for _round in range(12):     # reaching definitions through the back edge, iterated to a fixed point
                if isinstance(st, ast.While):
                    self.alias(st.test)
                else:
                    kt_ = self.kind(st.iter)
                    self.assign_target(st.target, self.alias(st.iter), st.lineno, obj=self.objalias(st.iter), kt=kt_)
                self.block_tracking(st.body, seen)
                seen.append(dict(self.env))
                self.env = self.merge(seen)
                # signature: for every name, the source positions (and kinds) of the definitions reaching the loop head
                sig = {k: frozenset((self.fn.def_info.get(d, ("?", d)), self.fn.def_kind.get(d, False)) for d in v)
                       for k, v in self.env.items()}
                if sig == prev_sig and _round >= 1:
                    break
                prev_sig = sig
            else:
                raise Untranslatable("loop at line %s: reaching definitions did not stabilise" % st.lineno)
            self.block(st.orelse)
            self.env = self.merge(seen + [self.env])
            return
        if isinstance(st, (ast.With, ast.AsyncWith)):
            for it in st.items:
                a = self.alias(it.context_expr)
                if it.optional_vars is not None:
                    self.assign_target(it.optional_vars, a, st.lineno)
            self.block(st.body)
            return
        if isinstance(st, ast.Try):
            e0 = dict(self.env)
            seen = [e0]
            self.block_tracking(st.body, seen)
            after = [dict(self.env)]
            for h in st.handlers:
                self.env = self.merge(seen + after)
                if h.name:
                    self.bind(h.name, self.new_def(h.name, h.lineno, "fresh", kt=True))
                self.block(h.body)
                after.append(dict(self.env))
            self.env = self.merge(after)
            self.block(st.orelse)
            self.block(st.finalbody)
            return
        if isinstance(st, (ast.Raise,)):
            if st.exc is not None:
                self.alias(st.exc)
            return
        if isinstance(st, ast.Assert):
            self.alias(st.test)
            return
        if isinstance(st, ast.Delete):
            return
        if isinstance(st, (ast.Pass, ast.Break, ast.Continue, ast.Import, ast.ImportFrom, ast.Global, ast.Nonlocal)):
            return
        raise Untranslatable("statement %s at line %s" % (type(st).__name__, getattr(st, "lineno", "?")))

    def block_tracking(self, body, seen):
        for st in body:
            self.stmt(st)
            seen.append(dict(self.env))


# ----------------------------------------------------------------------------------------

def container_like(v):
    """expression that creates a NEW python list / dict / set"""
    if isinstance(v, (ast.List, ast.Dict, ast.Set, ast.ListComp, ast.DictComp, ast.SetComp)):
        return True
    if isinstance(v, ast.Call) and isinstance(v.func, ast.Name) and v.func.id in ("list", "dict", "set", "defaultdict", "OrderedDict", "sorted"):
        return True
    if isinstance(v, ast.Call) and isinstance(v.func, ast.Attribute) and v.func.attr == "copy" and not v.args:
        return True       # x.copy(): torch tensors have no .copy(); a new python list / dict (shallow copy)
    if isinstance(v, ast.BinOp) and isinstance(v.op, (ast.Add, ast.Mult)):
        return container_like(v.left) or container_like(v.right)
    return False


def free_names(node):
    """names loaded in a nested function that are not bound in it (captured from the enclosing scope)"""
    bound = set()
    a = node.args
    for p in list(a.posonlyargs) + list(a.args) + list(a.kwonlyargs) + ([a.vararg] if a.vararg else []) + ([a.kwarg] if a.kwarg else []):
        bound.add(p.arg)
    loads = set()
    body = node.body if isinstance(node.body, list) else [node.body]
    for b in body:
        for n in ast.walk(b):
            if isinstance(n, ast.Name):
                if isinstance(n.ctx, ast.Store):
                    bound.add(n.id)
                else:
                    loads.add(n.id)
            elif isinstance(n, (ast.FunctionDef, ast.AsyncFunctionDef)):
                bound.add(n.name)
    return loads - bound


def collect_functions(tree, module):
    fns = []

    def rec(node, cls, prefix, enclosing_locals):
        for ch in ast.iter_child_nodes(node):
            if isinstance(ch, ast.ClassDef):
                rec(ch, ch.name, prefix + ch.name + ".", enclosing_locals)
            elif isinstance(ch, (ast.FunctionDef, ast.AsyncFunctionDef, ast.Lambda)):
                name = getattr(ch, "name", "<lambda@%d>" % ch.lineno)
                fn = Fn(prefix + name, ch, module, cls if isinstance(node, ast.ClassDef) else None)
                fn.module_globals = MODULE_INFO.get(module, {}).get("globals", set())
                locs = set()
                body = ch.body if isinstance(ch.body, list) else [ch.body]
                for b in body:
                    for n in ast.walk(b):
                        if isinstance(n, ast.Name) and isinstance(n.ctx, ast.Store):
                            locs.add(n.id)
                a = ch.args
                for p in list(a.posonlyargs) + list(a.args) + list(a.kwonlyargs) + ([a.vararg] if a.vararg else []) + ([a.kwarg] if a.kwarg else []):
                    locs.add(p.arg)
                fn.captured = (free_names(ch) & enclosing_locals) if enclosing_locals else set()
                # loop counters: names assigned from int constants / range loops only
                fn.counter_names = counter_names(ch)
                fns.append(fn)
                rec(ch, None, prefix + name + ".", enclosing_locals | locs)
            else:
                rec(ch, cls if isinstance(node, ast.ClassDef) else None, prefix, enclosing_locals)
    rec(tree, None, "", set())
    return fns


def counter_names(fnode):
    """names every assignment of which is an int/float constant, an arithmetic expression of such, or a range() loop target"""
    ok, bad = set(), set()
    body = fnode.body if isinstance(fnode.body, list) else [fnode.body]
    for b in body:
        for n in ast.walk(b):
            if isinstance(n, ast.Assign):
                for t in n.targets:
                    if isinstance(t, ast.Name):
                        if isinstance(n.value, ast.Constant) and isinstance(n.value.value, (int, float)) and not isinstance(n.value.value, bool):
                            ok.add(t.id)
                        else:
                            bad.add(t.id)
            elif isinstance(n, ast.For) and isinstance(n.target, ast.Name):
                if isinstance(n.iter, ast.Call) and isinstance(n.iter.func, ast.Name) and n.iter.func.id == "range":
                    ok.add(n.target.id)
                else:
                    bad.add(n.target.id)
    a = fnode.args
    for p in list(a.posonlyargs) + list(a.args) + list(a.kwonlyargs):
        bad.add(p.arg)
    return ok - bad


def parse_package(repo):
    root = os.path.join(repo, "linear_operator")
    trees = []
    for dp, dn, fs in os.walk(root):
        dn[:] = [d for d in dn if d not in ("test", "__pycache__")]
        for f in sorted(fs):
            if not f.endswith(".py"):
                continue
            p = os.path.join(dp, f)
            mod = os.path.relpath(p, repo)
            if mod.startswith("linear_operator/test"):
                continue
            trees.append((mod, ast.parse(open(p).read())))
    return trees


MODULE_INFO = {}        # module path -> {"defs": top-level function names, "imports": local name -> (from-module text, original name, is_package_import), "globals": names}


def module_info(tree):
    defs, imports, globs = set(), {}, set()
    for n in tree.body:
        if isinstance(n, (ast.FunctionDef, ast.AsyncFunctionDef)):
            defs.add(n.name)
        elif isinstance(n, ast.ImportFrom):
            frm = ("." * n.level) + (n.module or "")
            pkg = n.level > 0 or (n.module or "").split(".")[0] == "linear_operator"
            for a in n.names:
                imports[a.asname or a.name] = (frm, a.name, pkg)
        elif isinstance(n, ast.Import):
            for a in n.names:
                imports[(a.asname or a.name).split(".")[0]] = (a.name, None, a.name.split(".")[0] == "linear_operator")
        elif isinstance(n, (ast.Assign, ast.AnnAssign)):
            v = n.value
            simple = v is None or isinstance(v, ast.Constant) or (
                isinstance(v, (ast.Tuple, ast.List, ast.Set, ast.Dict)) and all(isinstance(c, (ast.Constant, ast.Name, ast.Attribute, ast.Tuple, ast.List))
                                                                              for c in ast.iter_child_nodes(v) if not isinstance(c, ast.expr_context)))
            tg = n.targets if isinstance(n, ast.Assign) else [n.target]
            for t in tg:
                if isinstance(t, ast.Name) and not simple:
                    globs.add(t.id)
    return {"defs": defs, "imports": imports, "globals": globs}


def resolves_to_library_function(module, nm):
    """bare name `nm` used in `module` denotes the package's module-level function of that name"""
    mi = MODULE_INFO.get(module)
    if mi is None:
        return False
    if nm in mi["defs"]:
        return True
    imp = mi["imports"].get(nm)
    return bool(imp and imp[2] and imp[1] == nm)


def analyze_package(repo):
    trees = parse_package(repo)
    MODULE_INFO.clear()
    for _mod, _tree in trees:
        MODULE_INFO[_mod] = module_info(_tree)
    RETURNS_FRESH.clear()
    USED.clear()
    LIB_METHODS.clear()
    LIB_CLASSES.clear()
    READERS.clear()
    for _mod, _tree in trees:
        for _n in ast.walk(_tree):
            if isinstance(_n, ast.ClassDef):
                LIB_CLASSES.setdefault(_n.name, []).append((_mod, _n))
                if any(isinstance(_c, ast.FunctionDef) and _c.name == "__new__" for _c in _n.body):
                    raise Untranslatable("%s: class %s defines __new__ (constructor calls may return an existing object)" % (_mod, _n.name))
    for _mod, _tree in trees:
        for _n in ast.walk(_tree):
            if isinstance(_n, ast.ClassDef):
                for _c in _n.body:
                    if isinstance(_c, (ast.FunctionDef, ast.AsyncFunctionDef)):
                        LIB_METHODS.add(_c.name)
    fns = []
    for rnd in range(4):
        fns = []
        USED.clear()
        for mod, tree in trees:
            fns += collect_functions(tree, mod)
        for fn in fns:
            an = Analyzer(fn, None)
            try:
                an.run()
            except Untranslatable as ex:
                raise Untranslatable("%s:%s: %s" % (fn.module, fn.qual, ex))
        # summaries: module-level functions whose results never alias parameters / self attributes
        names = {}
        for fn in fns:
            if fn.cls is None and "." not in fn.qual:
                names.setdefault(fn.qual, []).append(fn)
        new = {}
        for nm, fl in names.items():
            if len(fl) != 1:
                continue
            fn = fl[0]
            mc = closure(fn)
            if fn.ret_sets and all((not r[1]) and not (set(r[0]) & mc) for r in fn.ret_sets):
                new[nm] = True
        if new == dict(RETURNS_FRESH):
            break
        RETURNS_FRESH.clear()
        RETURNS_FRESH.update(new)
    # candidate sets and helper summaries
    for fn in fns:
        fn.mc = closure(fn)
    helpers = {}
    for fn in fns:
        # in-place helper: module-level private function that writes into its own parameters
        if fn.cls is None and "." not in fn.qual and fn.qual.startswith("_"):
            mp = mutated_params(fn)
            if mp:
                helpers[fn.qual] = (fn, mp)
    # a function is only treated as a borrowing helper if EVERY reference to its name in the package is a direct call
    # `name(...)`; otherwise its writes stay violations of its own program (fail-closed)
    for hname in list(helpers):
        ok = True
        for _mod, tree in trees:
            callfuncs = {id(n.func) for n in ast.walk(tree) if isinstance(n, ast.Call)}
            for n in ast.walk(tree):
                if (isinstance(n, ast.Name) and n.id == hname and id(n) not in callfuncs) or \
                        (isinstance(n, ast.Attribute) and n.attr == hname) or \
                        (isinstance(n, ast.alias) and n.name == hname and n.asname not in (None, hname)):
                    ok = False
        if not ok:
            del helpers[hname]
    # expand call sites of helpers (transitively: helpers calling helpers)
    changed = True
    rounds = 0
    while changed and rounds < 5:
        changed = False
        rounds += 1
        for fn in fns:
            for (callee, args, kws, lineno, recv) in fn.calls:
                if callee in helpers and recv == "<star>":
                    raise Untranslatable("%s:%s line %s: in-place helper %s called with *args/**kwargs" % (fn.module, fn.qual, lineno, callee))
                if callee in helpers and recv is None:
                    hf, mp = helpers[callee]
                    for pname in mp:
                        if pname in hf.params:
                            i = hf.params.index(pname)
                            a = args[i] if i < len(args) else kws.get(pname)
                            if a is None:
                                continue
                            key = ("helper", callee, pname, lineno)
                            if key in fn.__dict__.setdefault("expanded", set()):
                                continue
                            fn.expanded.add(key)
                            t = fn.ndefs
                            fn.ndefs += 1
                            fn.def_info[t] = ("<arg %s of %s>" % (pname, callee), lineno)
                            fn.stmts.append(("let", t, "alias", sorted(a[0]), False))
                            if a[1]:
                                fn.stmts.append(("let", t, "selfattr", [], False))
                            fn.stmts.append(("inplace", t, lineno, "helper %s(%s)" % (callee, pname)))
                            changed = True
            fn.mc = closure(fn)
            if fn.cls is None and "." not in fn.qual and fn.qual.startswith("_"):
                mp = mutated_params(fn)
                if mp and (fn.qual not in helpers or helpers[fn.qual][1] != mp):
                    helpers[fn.qual] = (fn, mp)
                    changed = True
    return fns, helpers


# ----------------------------------------------------------------------------------------
# which attributes of `self` may the methods that OBSERVE the matrix / the representation read?

MATRIX_METHODS = ["_matmul", "_t_matmul", "matmul", "rmatmul", "__matmul__", "__rmatmul__", "_size", "size", "shape", "dim", "ndimension", "numel",
                  "batch_shape", "matrix_shape", "batch_dim", "dtype", "device", "is_square", "requires_grad", "_transpose_nonbatch", "transpose", "mT", "t",
                  "to_dense", "_diagonal", "diagonal", "_approx_diagonal", "representation", "representation_tree", "_getitem", "_get_indices",
                  "__getitem__", "_expand_batch", "expand", "_permute_batch", "permute", "_unsqueeze_batch", "unsqueeze", "squeeze", "clone", "detach",
                  "to", "type", "double", "float", "half", "cpu", "cuda", "_args", "_kwargs", "_bilinear_derivative", "_mul_constant", "_mul_matrix",
                  "__add__", "__mul__", "add_diagonal", "add_jitter", "evaluate_kernel", "numpy"]


def _class_family(name):
    """the classes of the package related to `name` by inheritance (ancestors and descendants, by bare class name)"""
    bases = {c: {getattr(b, "id", getattr(b, "attr", None)) for (_m, n) in defs for b in n.bases} for c, defs in LIB_CLASSES.items()}
    fam, todo = {name}, [name]
    while todo:                       # ancestors
        c = todo.pop()
        for b in bases.get(c, ()):
            if b in LIB_CLASSES and b not in fam:
                fam.add(b)
                todo.append(b)
    todo = [name]
    while todo:                       # descendants
        c = todo.pop()
        for d, bs in bases.items():
            if c in bs and d not in fam:
                fam.add(d)
                todo.append(d)
    return fam


def matrix_readers(cls):
    """(attribute names, wildcard): every `self.<a>` (a not a method / property of the family) that a matrix-observing method of the
    class family of `cls` may load, transitively through `self.m(...)` / `super().m(...)` calls resolved in EVERY class of the family;
    wildcard = a reader uses getattr(self, ..) / vars(self) / self.__dict__ (then nothing can be said)"""
    if cls in READERS:
        return READERS[cls]
    fam = _class_family(cls)
    methods = {}
    for c in fam:
        for (_m, n) in LIB_CLASSES.get(c, ()):
            for ch in n.body:
                if isinstance(ch, (ast.FunctionDef, ast.AsyncFunctionDef)):
                    methods.setdefault(ch.name, []).append(ch)
    attrs, wild = set(), False
    seen, todo = set(), [m for m in MATRIX_METHODS if m in methods]
    while todo:
        m = todo.pop()
        if m in seen:
            continue
        seen.add(m)
        for fnode in methods.get(m, ()):
            for n in ast.walk(fnode):
                if isinstance(n, ast.Attribute) and isinstance(n.value, ast.Name) and n.value.id == "self":
                    if n.attr == "__dict__":
                        wild = True
                    elif n.attr in methods:
                        todo.append(n.attr)
                    elif isinstance(n.ctx, ast.Load):
                        attrs.add(n.attr)
                elif isinstance(n, ast.Attribute) and isinstance(n.value, ast.Call) and isinstance(n.value.func, ast.Name) and n.value.func.id == "super":
                    if n.attr in methods:
                        todo.append(n.attr)
                elif isinstance(n, ast.Call) and isinstance(n.func, ast.Name) and n.func.id in ("getattr", "vars", "hasattr") and n.args \
                        and isinstance(n.args[0], ast.Name) and n.args[0].id == "self":
                    if n.func.id == "vars" or len(n.args) < 2 or not isinstance(n.args[1], ast.Constant):
                        wild = True
                    elif n.args[1].value in methods:
                        todo.append(n.args[1].value)
                    else:
                        attrs.add(n.args[1].value)
    READERS[cls] = (frozenset(attrs), wild)
    return READERS[cls]


def cache_fill_rule(fn, why):
    """`self.<a> = ...` outside a constructor is a permitted CACHE FILL iff a is private, the class is a class of the package, and no
    matrix-observing method of its family may read a (then the rebinding cannot change the matrix the operator represents nor its
    representation).  -> (attribute, sorted readers) or None"""
    if not why.startswith("attr-rebind:") or fn.cls is None or fn.cls not in LIB_CLASSES:
        return None
    a = why[len("attr-rebind:"):]
    if a.startswith("__") and not a.endswith("__"):
        a_names = {a, "_%s%s" % (fn.cls, a)}       # name mangling of self.__x inside class C: _C__x
    else:
        a_names = {a}
    rd, wild = matrix_readers(fn.cls)
    if wild or not a.startswith("_") or (a_names & rd):
        return None
    return (a, sorted(rd))


def closure(fn):
    mc = set()
    lets = [s for s in fn.stmts if s[0] == "let"]
    for s in lets:
        if s[2] in ("param", "selfattr"):
            mc.add(s[1])
    ch = True
    while ch:
        ch = False
        for s in lets:
            if s[2] == "alias" and s[1] not in mc and any(y in mc for y in s[3]):
                mc.add(s[1])
                ch = True
    return mc


def obj_closure(fn):
    mc = set()
    lets = [s for s in fn.obj_stmts if s[0] == "let"]
    for s in lets:
        if s[2] in ("param", "selfattr"):
            mc.add(s[1])
    ch = True
    while ch:
        ch = False
        for s in lets:
            if s[2] == "alias" and s[1] not in mc and any(y in mc for y in s[3]):
                mc.add(s[1])
                ch = True
    return mc


def obj_violations(fn):
    mc = obj_closure(fn)
    return [s for s in fn.obj_stmts if s[0] == "inplace" and s[1] in mc]


def mutated_params(fn):
    """parameters p such that some InPlace target may alias p (by the same closure, restricted to p)"""
    out = set()
    for pname, pd in fn.param_defs.items():
        reach = {pd}
        ch = True
        while ch:
            ch = False
            for s in fn.stmts:
                if s[0] == "let" and s[2] == "alias" and s[1] not in reach and any(y in reach for y in s[3]):
                    reach.add(s[1])
                    ch = True
        if any(s[0] == "inplace" and s[1] in reach for s in fn.stmts):
            out.add(pname)
    return out


def violations(fn, helpers, allow):
    """in-place statements whose target is in the candidate set (would make own_check fail)"""
    out = []
    is_helper = fn.qual in helpers and fn.cls is None
    for s in fn.stmts:
        if s[0] == "inplace" and s[1] in fn.mc:
            if is_helper:
                # writes of a helper into its own parameters are accounted for at its call sites
                if only_from_params(fn, s[1], helpers[fn.qual][1]):
                    continue
            out.append(s)
    return out


def only_from_params(fn, x, pnames):
    """x's caller-ownership stems only from the helper's declared mutated parameters"""
    pdefs = {fn.param_defs[p] for p in pnames}
    # remove those params from the seeds and recompute
    mc = set()
    lets = [s for s in fn.stmts if s[0] == "let"]
    for s in lets:
        if s[2] in ("param", "selfattr") and s[1] not in pdefs:
            mc.add(s[1])
    ch = True
    while ch:
        ch = False
        for s in lets:
            if s[2] == "alias" and s[1] not in mc and any(y in mc for y in s[3]):
                mc.add(s[1])
                ch = True
    return x not in mc


# ----------------------------------------------------------------------------------------
# emission

def final_programs(fn, helpers):
    """(storage program, object program) as lists of IR statements with helper-borrowed parameters
    turned into Fresh (their ownership is established at every call site instead)."""
    borrowed = set()
    if fn.qual in helpers and fn.cls is None:
        borrowed = {fn.param_defs[p] for p in helpers[fn.qual][1] if p in fn.param_defs}
    sp, op = [], []
    for s in fn.stmts:
        if s[0] == "let":
            kind = s[2]
            if kind == "param" and s[1] in borrowed:
                kind = "fresh"
            sp.append(("let", s[1], kind, s[3], s[4]))
        elif s[0] == "inplace":
            sp.append(("inplace", s[1], s[2], s[3]))
    for s in fn.obj_stmts:
        if s[0] == "let":
            kind = s[2]
            if kind == "param" and s[1] in borrowed:
                kind = "fresh"
            op.append(("let", s[1], kind, s[3], False))
        elif s[0] == "inplace":
            op.append(("inplace", s[1], s[2], s[3]))
    return sp, op


def cand(prog):
    mc = set()
    for s in prog:
        if s[0] == "let" and s[2] in ("param", "selfattr"):
            mc.add(s[1])
    ch = True
    while ch:
        ch = False
        for s in prog:
            if s[0] == "let" and s[2] == "alias" and s[1] not in mc and any(y in mc for y in s[3]):
                mc.add(s[1])
                ch = True
    return mc


def prune(prog):
    """keep only what can matter for the check: the backward slice of the in-place targets
    (dropping statements never makes own_check pass when the full program fails: it only removes Lets that
    no in-place target depends on; every Let of a kept variable is kept)"""
    need = {s[1] for s in prog if s[0] == "inplace"}
    ch = True
    while ch:
        ch = False
        for s in prog:
            if s[0] == "let" and s[1] in need:
                for y in s[3]:
                    if y not in need:
                        need.add(y)
                        ch = True
    return [s for s in prog if s[1] in need]


def coq_stmt(s):
    if s[0] == "inplace":
        return "InPlace %d" % s[1]
    kind = s[2]
    if kind == "param":
        return "Let %d Param" % s[1]
    if kind == "selfattr":
        return "Let %d SelfAttr" % s[1]
    if kind == "fresh":
        return "Let %d Fresh" % s[1]
    return "Let %d (AliasOf [%s] %s)" % (s[1], "; ".join(str(y) for y in s[3]), "true" if s[4] else "false")


def ident(s):
    import re
    return re.sub(r"[^A-Za-z0-9_]", "_", s)


def find_path(prog, target):
    """witness path [target, ..., source] through the Let statements (BFS backwards), or None"""
    srcs = {s[1] for s in prog if s[0] == "let" and s[2] in ("param", "selfattr")}
    preds = {}
    for s_ in prog:
        if s_[0] == "let" and s_[2] == "alias":
            preds.setdefault(s_[1], set()).update(s_[3])
    seen = {target: None}
    queue = [target]
    while queue:
        x = queue.pop(0)
        if x in srcs:
            path = [x]
            while seen[path[-1]] is not None:
                path.append(seen[path[-1]])
            return list(reversed(path))
        for y in sorted(preds.get(x, ())):
            if y not in seen:
                seen[y] = x
                queue.append(y)
    return None


def emit(fns, helpers, allow):
    """returns (coq source, table).
    table rows: dict(name, module, qual, kind, sites=[{line, why, status: ok|allowed|failing, allow_id}], ok)
    * sites whose target may hold caller storage and that are not allow-listed are FAILING: they are left out of the
      program whose own_check lemma is emitted (so that the file compiles) and each gets a refutation witness
      (Proofs.refute_check) over the full program; harness/c13.py reports every failing site.
    * allow-listed sites are left out and listed (each with a written justification in c13_allow.json)."""
    L = ["(* GENERATED by harness/own_ir.py from the linear_operator sources — do not edit *)",
         "From Coq Require Import List Arith Bool String.", "Import ListNotations.", "Require Import C13.Own C13.Proofs C13.Slots.", ""]
    table = []
    names, refuted, summaries = [], [], []
    allowed_names = []
    cache_fills = []
    name_fn = {}
    skipped = []
    for fn in fns:
        for (ln, why, reason) in fn.skipped:
            skipped.append({"module": fn.module, "qual": fn.qual, "line": ln, "why": why, "reason": reason})
    k = 0
    for fn in fns:
        sp, op = final_programs(fn, helpers)
        for kind, prog in (("storage", sp), ("object", op)):
            if not any(s[0] == "inplace" for s in prog):
                continue
            lets = [s for s in prog if s[0] == "let"]
            mc_all = cand(lets)
            sites, kept = [], []
            seen_sites = set()
            allowed_here = []
            for s in prog:
                if s[0] != "inplace":
                    continue
                a = None
                if kind == "object" and s[1] in mc_all:
                    cf = cache_fill_rule(fn, s[3])
                    if cf is not None:
                        a = {"id": "rule:cache-fill", "assume": "receiver-slot", "rule": True}
                        cache_fills.append((fn, s, cf))
                if a is None:
                    a = allow_match(allow, fn, s, kind)
                if a is not None and s[1] not in mc_all:
                    a = None                      # the site passes anyway: the allow-list entry is not needed (and not used)
                if a is not None and not conditional_program(fn, lets, [(s, a)])[2]:
                    a = None                      # the entry's stated assumption does not make the site pass: it does not cover it (fail closed)
                status = "allowed" if a is not None else ("failing" if s[1] in mc_all else "ok")
                sites.append({"line": s[2], "why": s[3], "status": status, "allow_id": a["id"] if a else None, "target": s[1]})
                if status == "ok":
                    kept.append(s)
                if status == "allowed":
                    allowed_here.append((s, a))
            prog2 = prune(lets + kept)
            mc = sorted(cand(prog2))
            nm = "p%d_%s_%s" % (k, ident(fn.qual)[:60], kind)
            k += 1
            L.append("(* %s :: %s  (%s program; %d in-place sites checked, %d allow-listed, %d failing) *)" % (
                fn.module, fn.qual, kind, len(kept), sum(1 for x in sites if x["status"] == "allowed"),
                sum(1 for x in sites if x["status"] == "failing")))
            body = ";\n  ".join(coq_stmt(s) for s in prog2)
            L.append("Definition %s : list stmt := [\n  %s]." % (nm, body))
            L.append("Definition mc_%s : list nat := [%s]." % (nm, "; ".join(str(x) for x in mc)))
            L.append("Lemma own_%s : own_check (mem mc_%s) %s = true.\nProof. vm_compute. reflexivity. Qed.\n" % (nm, nm, nm))
            names.append(nm)
            name_fn[nm] = fn
            if allowed_here:
                # Coq-checked obligation of the allow-list entries: the FULL program including the allow-listed sites passes own_check
                # once the assumption each entry states (receiver's own cache slot is library-owned derived data / the named local is
                # not a tensor) is applied to the IR -- nothing else is taken on trust for these sites
                cprog, cmc, cok = conditional_program(fn, lets, allowed_here, extra=kept)
                an = "a%d_%s_%s" % (len(allowed_names), ident(fn.qual)[:60], kind)
                L.append("(* allow-listed sites of %s :: %s (%s program): %s *)" % (
                    fn.module, fn.qual, kind, "; ".join(sorted({"%s [%s: %s]" % (s_[3], a_["id"], assumption_text(a_)) for s_, a_ in allowed_here}))))
                L.append("Definition %s : list stmt := [\n  %s]." % (an, ";\n  ".join(coq_stmt(s_) for s_ in cprog)))
                L.append("Definition mc_%s : list nat := [%s]." % (an, "; ".join(str(x) for x in sorted(cmc))))
                L.append("Lemma allow_%s : own_check (mem mc_%s) %s = true.\nProof. vm_compute. reflexivity. Qed.\n" % (an, an, an))
                allowed_names.append(an)
            # refutation witnesses for failing sites (one per distinct source line / reason)
            for st_ in sites:
                if st_["status"] != "failing" or (st_["line"], st_["why"]) in seen_sites:
                    continue
                seen_sites.add((st_["line"], st_["why"]))
                full = prune(lets + [("inplace", st_["target"], st_["line"], st_["why"])])
                path = find_path(full, st_["target"])
                if path is None:
                    raise Untranslatable("internal: no witness path for failing site %s:%s line %s" % (fn.module, fn.qual, st_["line"]))
                rn = "r%d_%s_%s_l%d" % (len(refuted), ident(fn.qual)[:50], kind, st_["line"])
                L.append("(* FAILING in-place site %s :: %s line %d (%s): the target may hold caller-owned %s *)" % (
                    fn.module, fn.qual, st_["line"], st_["why"], "storage" if kind == "storage" else "object"))
                L.append("Definition %s : list stmt := [\n  %s]." % (rn, ";\n  ".join(coq_stmt(s) for s in full)))
                L.append("Definition path_%s : list nat := [%s]." % (rn, "; ".join(str(x) for x in path)))
                L.append("Lemma refuted_%s : refute_check %s path_%s = true.\nProof. vm_compute. reflexivity. Qed.\n" % (rn, rn, rn))
                refuted.append(rn)
                st_["refutation"] = rn
            for st_ in sites:
                st_.pop("target", None)
            defs = {}
            if kind == "storage":
                # for the trace correspondence (harness/c13_trace.py): source definitions (name, line) -> IR variables,
                # whether some of them may hold caller storage, and which of them are part of the emitted program
                inprog = {s_[1] for s_ in prog2 if s_[0] == "let"}
                for s_ in lets:
                    nm_, ln_ = fn.def_info.get(s_[1], ("?", 0))
                    if nm_.startswith("<"):
                        continue
                    d_ = defs.setdefault("%s@%d" % (nm_, ln_), {"ids": [], "mc": False, "inprog": []})
                    if s_[1] not in d_["ids"]:
                        d_["ids"].append(s_[1])
                        d_["mc"] = d_["mc"] or (s_[1] in mc_all)
                        if s_[1] in inprog:
                            d_["inprog"].append(s_[1])
            borrowed_names = sorted(helpers[fn.qual][1]) if (fn.qual in helpers and fn.cls is None) else []
            table.append({"name": nm, "module": fn.module, "qual": fn.qual, "kind": kind, "sites": sites, "defs": defs,
                          "borrowed": borrowed_names, "first_line": fn.node.lineno,
                          "n_inplace": len(kept), "ok": not any(x["status"] == "failing" for x in sites),
                          "allowed": sorted({x["allow_id"] for x in sites if x["status"] == "allowed" and x["allow_id"] != "rule:cache-fill"}),
                          "failing": [{"line": x["line"], "why": x["why"], "refutation": x.get("refutation")} for x in sites if x["status"] == "failing"]})
    # return summaries used at call sites
    by_name = {}
    for fn in fns:
        if fn.cls is None and "." not in fn.qual:
            by_name.setdefault(fn.qual, []).append(fn)
    for nm_ in sorted(RETURNS_FRESH):
        fn = by_name[nm_][0]
        sp, _ = final_programs(fn, helpers)
        lets = [s for s in sp if s[0] == "let"]
        rets = sorted(set().union(*[set(r[0]) for r in fn.ret_sets])) if fn.ret_sets else []
        need = set(rets)
        ch = True
        while ch:
            ch = False
            for s_ in lets:
                if s_[1] in need:
                    for y in s_[3]:
                        if y not in need:
                            need.add(y)
                            ch = True
        prog_r = [s_ for s_ in lets if s_[1] in need]
        mc = sorted(cand(prog_r))
        sn = "s%d_%s" % (len(summaries), ident(nm_)[:60])
        L.append("(* return summary: %s :: %s never returns memory of its arguments *)" % (fn.module, nm_))
        L.append("Definition %s : list stmt := [\n  %s]." % (sn, ";\n  ".join(coq_stmt(s_) for s_ in prog_r)))
        L.append("Definition mc_%s : list nat := [%s]." % (sn, "; ".join(str(x) for x in mc)))
        L.append("Definition rets_%s : list nat := [%s]." % (sn, "; ".join(str(x) for x in rets)))
        L.append("Lemma ret_%s : ret_check mc_%s %s rets_%s = true.\nProof. vm_compute. reflexivity. Qed.\n" % (sn, sn, sn, sn))
        summaries.append(sn)
    opn = [n for n in names if name_fn[n].module.startswith("linear_operator/operators/") and name_fn[n].cls is not None]
    otn = [n for n in names if n not in opn]
    pl = lambda ns: ("\n  " + ";\n  ".join("(%s, mc_%s)" % (n, n) for n in ns)) if ns else ""
    L.append("(* programs of the METHODS OF THE OPERATOR CLASSES (linear_operator/operators/*.py) that contain an in-place site *)")
    L.append("Definition operator_method_progs : list (list stmt * list nat) := [%s]." % pl(opn))
    L.append("Definition operator_method_names : list string := [%s]." % (
        "\n  " + ";\n  ".join('"%s :: %s (%s)"%%string' % (name_fn[n].module.split("/")[-1], name_fn[n].qual.replace('"', "'"), n.rsplit("_", 1)[1]) for n in opn) if opn else ""))
    L.append("(* programs of module-level functions, autograd Functions, utilities, nested functions *)")
    L.append("Definition other_progs : list (list stmt * list nat) := [%s]." % pl(otn))
    L.append("Definition all_progs : list (list stmt * list nat) := operator_method_progs ++ other_progs.")
    # side table of the cache-fill rule: (attribute rebound on self, attributes the matrix-observing methods of the class family may read)
    fams = {}
    for (fn_, s_, (a_, rd_)) in cache_fills:
        fams.setdefault(tuple(rd_), "readers_%d" % len(fams))
    for rd_, nm_ in fams.items():
        L.append("Definition %s : list string := [%s]." % (nm_, "; ".join('"%s"%%string' % x for x in rd_)))
    seen_cf, rows_cf = set(), []
    for (fn_, s_, (a_, rd_)) in cache_fills:
        k_ = (fn_.cls, a_)
        if k_ in seen_cf:
            continue
        seen_cf.add(k_)
        rows_cf.append('("%s"%%string, %s) (* %s :: %s line %d *)' % (a_, fams[tuple(rd_)], fn_.module.split("/")[-1], fn_.qual, s_[2]))
    L.append("Definition cache_fill_sites : list (string * list string) := [%s]." % ("\n  " + ";\n  ".join(rows_cf) if rows_cf else ""))
    L.append("Lemma all_cache_fills_unread : forallb (fun e => slot_unread (fst e) (snd e)) cache_fill_sites = true.")
    L.append("Proof. vm_compute. reflexivity. Qed.")
    CACHE_FILLS[:] = [{"module": fn_.module, "qual": fn_.qual, "line": s_[2], "attr": a_, "n_readers": len(rd_)} for (fn_, s_, (a_, rd_)) in cache_fills]
    L.append("Definition allowed_progs : list (list stmt * list nat) := [%s]." % pl(allowed_names))
    L.append("Lemma all_allowed_ok : forallb (fun p => own_check (mem (snd p)) (fst p)) allowed_progs = true.")
    L.append("Proof. vm_compute. reflexivity. Qed.")
    L.append("Lemma all_owned : forallb (fun p => own_check (mem (snd p)) (fst p)) all_progs = true.")
    L.append("Proof. vm_compute. reflexivity. Qed.")
    L.append("Definition refuted_sites : list (list stmt * list nat) := [%s]." % (
        "\n  " + ";\n  ".join("(%s, path_%s)" % (n, n) for n in refuted) if refuted else ""))
    L.append("Lemma all_refuted : forallb (fun p => refute_check (fst p) (snd p)) refuted_sites = true.")
    L.append("Proof. vm_compute. reflexivity. Qed.")
    L.append("Definition summaries : list (list nat * list stmt * list nat) := [%s]." % (
        "\n  " + ";\n  ".join("(mc_%s, %s, rets_%s)" % (n, n, n) for n in summaries) if summaries else ""))
    L.append("Lemma all_summaries_ok : forallb (fun q => ret_check (fst (fst q)) (snd (fst q)) (snd q)) summaries = true.")
    L.append("Proof. vm_compute. reflexivity. Qed.")
    L.append("Definition n_functions_scanned : nat := %d." % len(fns))
    L.append("Definition n_programs : nat := %d." % len(names))
    LAST_SKIPPED[:] = skipped
    return "\n".join(L) + "\n", table


def assumption_text(a):
    asm = a.get("assume", "receiver-slot")
    if asm == "receiver-slot":
        return "the attribute slot of the receiver object is library-owned derived data"
    return "locals %s are not tensors" % ", ".join(asm.get("fresh_names", []))


def conditional_program(fn, lets, allowed, extra=()):
    """the program including the allow-listed in-place sites, with the assumption stated by each entry applied:
    'receiver-slot' (default): the `Let t SelfAttr` of the site's own target t is dropped (the slot rebound is the receiver's own
    cache slot, library-owned derived data); {'fresh_names': [...]}: every definition of the named locals becomes Fresh (the local
    is declared not to be a tensor).  -> (program, candidate set, passes)"""
    drop_self, fresh_defs = set(), set()
    for s, a in allowed:
        asm = a.get("assume", "receiver-slot")
        if asm == "receiver-slot":
            drop_self.add(s[1])
        elif isinstance(asm, dict):
            for x, (nm, _ln) in fn.def_info.items():
                if nm in asm.get("fresh_names", []):
                    fresh_defs.add(x)
    lets2, done = [], set()
    for l in lets:
        if l[2] == "selfattr" and l[1] in drop_self:
            continue
        if l[1] in fresh_defs:
            if l[1] not in done:
                done.add(l[1])
                lets2.append(("let", l[1], "fresh", [], False))
            continue
        lets2.append(l)
    prog = prune(lets2 + list(extra) + [s for s, _ in allowed])
    mc = cand(prog)
    ok = not any(s[0] == "inplace" and s[1] in mc for s in prog)
    return prog, mc, ok


def allow_match(allow, fn, s, kind):
    for a in allow or []:
        if a["module"] == fn.module and a["qual"] == fn.qual and a.get("kind", "storage") == kind and \
                (a["why"] == s[3] or (a["why"].endswith("*") and s[3].startswith(a["why"][:-1]))):
            return a
    return None
