"""C02 — composition and structure-preserving rewrites never change the matrix.

theorems : coq/C02/Property.v over coq/C02/Model.v (transcription of the type-dispatching __add__/__sub__/mul/div/matmul,
           add_diagonal/add_jitter and the batch rewrites) and coq/C02/Spec.v (the same operations on dense tensors)
tie      : correspondence, exact in Z: every generated program (single steps over the full ordered class-pair table, scalar
           kinds, batch configurations; random multi-step programs) is run on the REAL library; for every node the dense
           value and shape of the result (or the fact that it raised) is written into gen/cases_*.v, where Coq evaluates the
           model (eval_alg, densified by denote) AND the dense specification (eval_dense) on the same program.
predicate: independently every node is compared in Python with plain torch on the dense tensors assembled by
           opbuild.dense (harness/c02_ops.py) -- this works for ALL classes, also those the model does not transcribe
triage   : predicate fails                        -> violation (or keyed known finding)
           predicate holds, model/spec disagrees  -> the Coq model / spec is wrong (reported no-failing-input)
"""
import json
import os
import random
import re
import time
import warnings

import torch

from . import common, c02_gen as g, c02_lit as lit, c02_ops as ops, opbuild as ob

PROP = "C02"
SH = 80                      # cases per shard
NSHARD_WORKERS = 3

HDR = ("From Coq Require Import List ZArith Bool.\nImport ListNotations.\n"
       "Require Import C02.Sums C02.Batch C02.Tensor C02.Dense C02.Op C02.Model C02.Spec C02.Check.\nOpen Scope Z_scope.\n")

CLASSES = [c for c in g.ALL if c not in ("Permutation", "TransposePermutation")]      # float32-only classes: C01/C14
DIAG_FAMILY = ("Diag", "ConstantDiag", "Identity", "KronDiag")
ROOT_FAMILY = ("Chol", "Root", "LowRankRoot")
SUM_FAMILY = ("Sum", "PsdSum", "SumKron")        # SumLinearOperator.__add__ appends the root operator: no add_low_rank
EXACT_MUL = ("Dense", "Diag", "ConstantDiag", "Identity", "KronDiag", "Zero", "Kernel")   # op * op without a root decomposition
MATMUL_SPECIAL = ("Diag", "ConstantDiag", "Identity", "KronDiag", "Zero", "BlockDiag", "Interpolated", "Triangular", "Dense")
N = 4


def regenerate():
    os.makedirs(os.path.join(common.COQ, PROP, "gen"), exist_ok=True)
    return {}


# ------------------------------------------------------------------------------------------ grid

BATCH_PAIRS = [([], []), ([2], [2]), ([2], []), ([], [2]), ([2, 1], [3]), ([1, 3], [2, 1]), ([2, 3], [2, 3]), ([3], [2, 3])]
BATCHES = [[], [2], [2, 3], [1], [2, 1]]


def leaf(e):
    return {"p": "leaf", "e": e}


def T(shape, data):
    return {"p": "t", "t": ob.T(shape, data)}


def pair_cells(quick):
    """(kind='pair', op, ca, cb, batch pair index)"""
    out = []
    n = len(CLASSES)
    for i, ca in enumerate(CLASSES):
        for j, cb in enumerate(CLASSES):
            for oi, op in enumerate(("add", "matmul", "sub", "mul")):
                if quick and i == j:
                    bps = [0, 1, (i * 7 + j * 3 + oi) % len(BATCH_PAIRS)]
                elif quick:
                    if op in ("sub", "mul") and (i + j) % 4 != oi - 2:
                        continue
                    if op == "matmul" and (i + j) % 2 and ca not in MATMUL_SPECIAL and cb not in MATMUL_SPECIAL:
                        continue
                    bps = [(i * 7 + j * 3 + oi) % len(BATCH_PAIRS)]
                else:
                    nbp = len(BATCH_PAIRS)
                    bps = (range(nbp) if op == "add" else
                           [(i + j) % nbp, (i + 2 * j + 1) % nbp, 2, 4] if op == "matmul" else
                           [(i + j) % nbp, (i + 2 * j + 1) % nbp, 3])
                for bp in sorted(set(bps)):
                    out.append(("pair", op, ca, cb, bp))
    return out


SCALAR_KINDS = ["py_sq", "py_neg", "py_zero", "py_nonsq", "t0_sq", "t0_neg", "t1", "t11", "b11_sq", "b11_mixed", "last11", "lead11",
                "mat", "bmat", "div_py", "div_pyneg1", "div_t0", "rmul_py", "rmul_mat", "add_t", "add_tb", "sub_t", "radd_t", "rsub_t"]


def scalar_cells(quick):
    out = []
    for ci, c in enumerate(CLASSES):
        for ki, k in enumerate(SCALAR_KINDS):
            bs = [BATCHES[(ci + ki) % len(BATCHES)]] if quick else BATCHES
            if k in ("b11_sq", "b11_mixed", "last11", "lead11", "bmat"):
                bs = [b for b in (BATCHES if not quick else [BATCHES[1 + (ci + ki) % 2], BATCHES[(ci + ki) % len(BATCHES)]]) if b]
            for b in bs:
                out.append(("scalar", k, c, tuple(b)))
    return sorted(set(out), key=lambda x: (CLASSES.index(x[2]), SCALAR_KINDS.index(x[1]), x[3]))


SHAPE_KINDS = ["expand_lead", "expand_one", "unsq0", "unsq_last", "unsq_mid", "sq0", "sq_last", "sum0", "sum_last", "perm_rev", "perm_id",
               "perm_cyc1", "perm_cyc2", "tr_batch", "mT", "rep_lead", "rep_b", "adiag0", "adiag1", "adiagn", "adiagbn", "adiagb1", "adiag_last_n", "jitter"]


def shape_cells(quick):
    out = []
    for ci, c in enumerate(CLASSES):
        for ki, k in enumerate(SHAPE_KINDS):
            cand = BATCHES + [[1, 3]]
            if k in ("unsq_mid", "sq0", "sq_last", "sum0", "sum_last", "perm_id", "adiagbn", "adiagb1", "adiag_last_n", "expand_one"):
                cand = [b for b in cand if b]
            if k in ("perm_rev", "tr_batch"):
                cand = [b for b in cand if len(b) >= 2] + [[2, 3, 4]]
            if k in ("perm_cyc1", "perm_cyc2"):          # permutations that are not their own inverse: 3 batch dims, unequal sizes
                cand = [[2, 3, 4]]
            if k in ("sq0",):
                cand = [[1], [1, 3]]
            if k in ("sq_last",):
                cand = [[1], [2, 1]]
            if k == "expand_one":
                cand = [[1], [2, 1], [1, 3]]
            bs = [cand[(ci + ki) % len(cand)]] if quick else cand
            for b in bs:
                out.append(("shape", k, c, tuple(b)))
    return out


def sq_data(rng, n, signed=False):
    if signed:
        return [rng.choice([-3, -2, -1, 1, 4, 9]) for _ in range(n)]
    return [rng.choice([1, 4, 9]) for _ in range(n)]


def want_psd(op, ca, cb):
    """PSD operands where the library goes through a root decomposition (the property's quantifier).
    returns (psd_a, psd_b, skip): skip = the cell has no instance inside the property's domain"""
    if op == "add" and cb in ROOT_FAMILY and ca not in DIAG_FAMILY and ca not in SUM_FAMILY and ca != "Zero":
        # self.add_low_rank(other.root): root decomposition of self
        return True, False, ca not in g.PSD_OK
    if op == "mul":
        exact = ca in DIAG_FAMILY or "Zero" in (ca, cb) or "Dense" in (ca, cb)
        if not exact:      # MulLinearOperator: root decompositions of both
            return True, True, (ca not in g.PSD_OK or cb not in g.PSD_OK)
    return False, False, False


class OutOfDomain(Exception):
    pass


def gen_pair(rng, cell):
    _, op, ca, cb, bp = cell
    ba, bb = BATCH_PAIRS[bp]
    pa, pb, skip = want_psd(op, ca, cb)
    if skip:
        raise OutOfDomain()
    ea = g.inst(rng, ca, ba, N, psd=pa)
    eb = g.inst(rng, cb, bb, N, psd=pb)
    return {"p": op, "a": leaf(ea), "b": leaf(eb)}


def gen_scalar(rng, cell):
    _, k, c, b = cell
    b = list(b)
    nb = int(torch.tensor(b).prod()) if b else 1
    a = leaf(g.inst(rng, c, b, N))
    if k == "py_sq":
        return {"p": "mul", "a": a, "b": {"p": "py", "v": rng.choice([4, 9])}}
    if k == "py_neg":
        return {"p": "mul", "a": a, "b": {"p": "py", "v": rng.choice([-1, -2, -3])}}
    if k == "py_zero":
        return {"p": "mul", "a": a, "b": {"p": "py", "v": 0}}
    if k == "py_nonsq":
        return {"p": "mul", "a": a, "b": {"p": "py", "v": rng.choice([2, 3])}}
    if k == "t0_sq":
        return {"p": "mul", "a": a, "b": T([], [rng.choice([1, 4, 9])])}
    if k == "t0_neg":
        return {"p": "mul", "a": a, "b": T([], [rng.choice([-1, -2])])}
    if k == "t1":
        return {"p": "mul", "a": a, "b": T([1], [rng.choice([4, -2])])}
    if k == "t11":
        return {"p": "mul", "a": a, "b": T([1, 1], [rng.choice([9, -3])])}
    if k == "b11_sq":
        return {"p": "mul", "a": a, "b": T(b + [1, 1], sq_data(rng, nb))}
    if k == "b11_mixed":
        return {"p": "mul", "a": a, "b": T(b + [1, 1], sq_data(rng, nb, True))}
    if k == "last11":
        return {"p": "mul", "a": a, "b": T(b[-1:] + [1, 1], sq_data(rng, b[-1]))}
    if k == "lead11":          # (b0, 1, ..., 1, 1, 1): one constant per leading batch member
        return {"p": "mul", "a": a, "b": T(b[:1] + [1] * (len(b) - 1) + [1, 1], sq_data(rng, b[0], True))}
    if k == "mat":
        return {"p": "mul", "a": a, "b": {"p": "t", "t": ob.rand_t(rng, [N, N], -2, 3)}}
    if k == "bmat":
        return {"p": "mul", "a": a, "b": {"p": "t", "t": ob.rand_t(rng, b + [N, N], -2, 3)}}
    if k == "div_py":
        return {"p": "div", "a": a, "b": {"p": "py", "v": rng.choice([2, 4, -2])}}
    if k == "div_pyneg1":
        return {"p": "div", "a": a, "b": {"p": "py", "v": -1}}
    if k == "div_t0":
        return {"p": "div", "a": a, "b": T([], [rng.choice([-1, 1])])}
    if k == "rmul_py":
        return {"p": "mul", "a": {"p": "py", "v": rng.choice([4, -2])}, "b": a}
    if k == "rmul_mat":
        return {"p": "mul", "a": {"p": "t", "t": ob.rand_t(rng, [N, N], -2, 3)}, "b": a}
    if k == "add_t":
        return {"p": "add", "a": a, "b": {"p": "t", "t": ob.rand_t(rng, [N, N])}}
    if k == "add_tb":
        return {"p": "add", "a": a, "b": {"p": "t", "t": ob.rand_t(rng, ([2] + [1] * len(b) if b else [3, 1]) + [N, N])}}
    if k == "sub_t":
        return {"p": "sub", "a": a, "b": {"p": "t", "t": ob.rand_t(rng, b + [N, N])}}
    if k == "radd_t":
        return {"p": "add", "a": {"p": "t", "t": ob.rand_t(rng, [N, N])}, "b": a}
    if k == "rsub_t":
        return {"p": "sub", "a": {"p": "t", "t": ob.rand_t(rng, b + [N, N])}, "b": a}
    raise ValueError(k)


def gen_shape(rng, cell):
    _, k, c, b = cell
    b = list(b)
    a = leaf(g.inst(rng, c, b, N))
    nb = len(b)
    if k == "expand_lead":
        return {"p": "expand", "a": a, "batch": [rng.choice([2, 3])] + b}
    if k == "expand_one":
        return {"p": "expand", "a": a, "batch": [x if x != 1 else 2 for x in b]}
    if k == "unsq0":
        return {"p": "unsqueeze", "a": a, "dim": 0}
    if k == "unsq_last":
        return {"p": "unsqueeze", "a": a, "dim": -3}
    if k == "unsq_mid":
        return {"p": "unsqueeze", "a": a, "dim": 1}
    if k == "sq0":
        return {"p": "squeeze", "a": a, "dim": 0}
    if k == "sq_last":
        return {"p": "squeeze", "a": a, "dim": -3}
    if k == "sum0":
        return {"p": "sum", "a": a, "dim": 0}
    if k == "sum_last":
        return {"p": "sum", "a": a, "dim": -3}
    if k == "perm_rev":
        return {"p": "permute", "a": a, "dims": list(range(nb))[::-1]}
    if k == "perm_id":
        return {"p": "permute", "a": a, "dims": list(range(nb))}
    if k == "perm_cyc1":
        return {"p": "permute", "a": a, "dims": [1, 2, 0]}
    if k == "perm_cyc2":
        return {"p": "permute", "a": a, "dims": [2, 0, 1]}
    if k == "tr_batch":
        return {"p": "transpose", "a": a, "d1": 0, "d2": nb - 1}
    if k == "mT":
        return {"p": "transpose", "a": a, "d1": -1, "d2": -2}
    if k == "rep_lead":
        return {"p": "repeat", "a": a, "sizes": [2] + [1] * nb}
    if k == "rep_b":
        return {"p": "repeat", "a": a, "sizes": [2] * nb if nb else [1]}
    if k == "adiag0":
        return {"p": "add_diagonal", "a": a, "t": ob.T([], [rng.choice([1, 2, 3])])}
    if k == "adiag1":
        return {"p": "add_diagonal", "a": a, "t": ob.T([1], [rng.choice([1, 2, 3])])}
    if k == "adiagn":
        return {"p": "add_diagonal", "a": a, "t": ob.rand_t(rng, [N], 1, 3)}
    if k == "adiagbn":
        return {"p": "add_diagonal", "a": a, "t": ob.rand_t(rng, b + [N], 1, 3)}
    if k == "adiagb1":
        return {"p": "add_diagonal", "a": a, "t": ob.rand_t(rng, b + [1], 1, 3)}
    if k == "adiag_last_n":
        return {"p": "add_diagonal", "a": a, "t": ob.rand_t(rng, b[-1:] + [N], 1, 3)}
    if k == "jitter":
        return {"p": "add_jitter", "a": a, "v": rng.choice([1, 2])}
    raise ValueError(k)


COMP_COUNTER = ["Diag", "ConstantDiag", "Identity", "KronDiag", "Dense", "Kron", "Triangular", "Sum", "AddedDiag", "Root", "Toeplitz",
                "BlockDiag"]
COMP_COMBOS = [(op, order) for op in ("mul", "add", "matmul", "sub") for order in (0, 1)]      # order 1: counterpart on the LEFT
COMP_BATCH_PAIRS = [([], []), ([2], [2]), ([2], []), ([], [2])]
COMP_SHAPE_KINDS = ["mT", "jitter", "adiagn", "expand_lead", "unsq0", "unsq_last", "sum0", "sum_last", "perm_cyc1", "perm_cyc2", "tr_batch",
                    "mul_py", "mul_pyneg", "add_dense", "rsub_dense", "matmul_dense", "rmatmul_diag", "mul_diag_left"]


def comp_cells(quick):
    """operands that are themselves lazy results (products of triangulars in all orientation pairs, sums / Kronecker products /
    constant multiples of such products, add_jitter results, roots over operators) on BOTH sides of every binary operation
    against structured counterparts, and under the unary rewrites; concatenations along a batch dimension under every
    batch rewrite"""
    out = []
    for ni, name in enumerate(g.COMPOSITES):
        for ki, k in enumerate(COMP_COUNTER):
            if quick:
                picks = {COMP_COMBOS[(ni * 3 + ki) % 8], COMP_COMBOS[(ni * 5 + ki * 3 + 4) % 8]}
                if k in DIAG_FAMILY:
                    picks |= {("mul", 1), ("matmul", 1)}     # the rewrites that read the composite's _diagonal / rows
                bps = [(ni + ki) % len(COMP_BATCH_PAIRS)]
            else:
                picks = set(COMP_COMBOS)
                bps = range(len(COMP_BATCH_PAIRS))
            for (op, order) in sorted(picks):
                for bp in bps:
                    out.append(("comp", op, name, k, order, bp))
        for si, sk in enumerate(COMP_SHAPE_KINDS):
            need3 = sk in ("perm_cyc1", "perm_cyc2")
            cand = [[2, 3, 4]] if need3 else ([[2, 3]] if sk == "tr_batch" else [[], [2], [2, 3]])
            if sk in ("sum0", "sum_last"):
                cand = [[2], [2, 3]]
            bs = [cand[(ni + si) % len(cand)]] if quick else cand
            for b in bs:
                out.append(("compshape", sk, name, tuple(b)))
    for ni, name in enumerate(g.CATB):
        for sk in ("perm_cyc1", "perm_cyc2", "perm_rev", "tr01", "tr02", "tr12", "unsq0", "unsq_mid", "unsq_last", "expand_lead",
                   "sum0", "sum1", "sum_last", "mT", "mul_py", "add_dense", "jitter"):
            out.append(("catb", sk, name))
    return out


def _unary_on(a, sk, rng, b):
    """the unary / one-sided steps shared by the composite and batch-cat families"""
    nb = len(b)
    if sk == "mT":
        return {"p": "transpose", "a": a, "d1": -1, "d2": -2}
    if sk == "jitter":
        return {"p": "add_jitter", "a": a, "v": rng.choice([1, 2])}
    if sk == "adiagn":
        return {"p": "add_diagonal", "a": a, "t": ob.rand_t(rng, [N], 1, 3)}
    if sk == "expand_lead":
        return {"p": "expand", "a": a, "batch": [2] + b}
    if sk == "unsq0":
        return {"p": "unsqueeze", "a": a, "dim": 0}
    if sk == "unsq_mid":
        return {"p": "unsqueeze", "a": a, "dim": 1}
    if sk == "unsq_last":
        return {"p": "unsqueeze", "a": a, "dim": -3}
    if sk == "sum0":
        return {"p": "sum", "a": a, "dim": 0}
    if sk == "sum1":
        return {"p": "sum", "a": a, "dim": 1}
    if sk == "sum_last":
        return {"p": "sum", "a": a, "dim": -3}
    if sk == "perm_cyc1":
        return {"p": "permute", "a": a, "dims": [1, 2, 0]}
    if sk == "perm_cyc2":
        return {"p": "permute", "a": a, "dims": [2, 0, 1]}
    if sk == "perm_rev":
        return {"p": "permute", "a": a, "dims": list(range(nb))[::-1]}
    if sk == "tr_batch":
        return {"p": "transpose", "a": a, "d1": 0, "d2": nb - 1}
    if sk in ("tr01", "tr02", "tr12"):
        return {"p": "transpose", "a": a, "d1": int(sk[2]), "d2": int(sk[3])}
    if sk == "mul_py":
        return {"p": "mul", "a": a, "b": {"p": "py", "v": rng.choice([4, 9])}}
    if sk == "mul_pyneg":
        return {"p": "mul", "a": a, "b": {"p": "py", "v": rng.choice([-1, -2])}}
    if sk == "add_dense":
        return {"p": "add", "a": a, "b": leaf(g.inst(rng, "Dense", b, N))}
    if sk == "rsub_dense":
        return {"p": "sub", "a": leaf(g.inst(rng, "Dense", b, N)), "b": a}
    if sk == "matmul_dense":
        return {"p": "matmul", "a": a, "b": leaf(g.inst(rng, "Dense", b, N))}
    if sk == "rmatmul_diag":
        return {"p": "matmul", "a": leaf(g.inst(rng, "Diag", b, N)), "b": a}
    if sk == "mul_diag_left":
        return {"p": "mul", "a": leaf(g.inst(rng, "ConstantDiag", b, N)), "b": a}
    raise ValueError(sk)


def gen_comp(rng, cell):
    if cell[0] == "compshape":
        _, sk, name, b = cell
        e, _ = g.composite(rng, name, list(b), N)
        return _unary_on(leaf(e), sk, rng, list(b))
    if cell[0] == "catb":
        _, sk, name = cell
        e = g.catb(rng, name, N)
        return _unary_on(leaf(e), sk, rng, list(ob.shape_of(e)[:-2]))
    _, op, name, k, order, bp = cell
    bc, bk = COMP_BATCH_PAIRS[bp]
    e, psd = g.composite(rng, name, bc, N)
    left_cls = k if order else name
    need_psd = False
    if op == "mul":
        exact = (order == 1 and k in DIAG_FAMILY) or k == "Dense"
        need_psd = not exact
    if op == "add" and order == 0 and k in ROOT_FAMILY:
        need_psd = True
    if op == "add" and order == 1 and False:
        need_psd = False
    if need_psd and (not psd or (op == "mul" and k not in g.PSD_OK)):
        raise OutOfDomain()
    ek = g.inst(rng, k, bk, N, psd=need_psd and op == "mul")
    a, b = (leaf(ek), leaf(e)) if order else (leaf(e), leaf(ek))
    return {"p": op, "a": a, "b": b}


# batch-shape pairs of EQUAL rank that broadcast through singleton dimensions in different positions
SING_PAIRS = [([3], [1]), ([1], [3]), ([2, 3], [2, 1]), ([2, 1], [2, 3]), ([2, 1], [1, 3]), ([1, 3], [2, 1])]
BC2_OPS = ["add", "sub", "matmul", "mul"]
BC2_FOLLOW = ["sum0", "sum_last", "unsq0", "unsq_last", "expand_lead", "mT", "mul_py", "mul_pyneg", "jitter", "perm_rev", "tr_batch", "sum0_mT"]


def bc2_cells(quick):
    """two steps: a binary operation on operands whose batch shapes have equal rank and broadcast through singleton dimensions,
    followed by every batch reduction / rewrite of the result"""
    out = []
    n = len(CLASSES)
    for i, ca in enumerate(CLASSES):
        partners = [ca, "Diag", CLASSES[(i * 7 + 3) % n]] if quick else [ca, "Dense", "Diag", "ConstantDiag", CLASSES[(i * 7 + 3) % n], CLASSES[(i * 11 + 5) % n]]
        for pi, cb in enumerate(dict.fromkeys(partners)):
            ops_ = ["add", BC2_OPS[1 + (i + pi) % 3]] if quick else BC2_OPS
            for oi, op in enumerate(ops_):
                sps = [(i + 2 * pi + oi) % len(SING_PAIRS)] if quick else [(i + 2 * pi + oi) % len(SING_PAIRS), (i + pi + 3 * oi + 3) % len(SING_PAIRS)]
                for sp in sps:
                    two = len(SING_PAIRS[sp][0]) == 2
                    sums = ["sum0", "sum_last"] if two else ["sum0"]
                    rest = [f for f in BC2_FOLLOW if f not in ("sum0", "sum_last") and (two or f not in ("perm_rev", "tr_batch"))]
                    follows = sums + ([rest[(i + pi + oi) % len(rest)], rest[(i + 3 * pi + oi + 4) % len(rest)]] if quick else rest)
                    for f in dict.fromkeys(follows):
                        out.append(("bc2", op, ca, cb, sp, f))
    return out


def gen_bc2(rng, cell):
    _, op, ca, cb, sp, f = cell
    ba, bb = SING_PAIRS[sp]
    pa, pb, skip = want_psd(op, ca, cb)
    if skip:
        raise OutOfDomain()
    first = {"p": op, "a": leaf(g.inst(rng, ca, ba, N, psd=pa)), "b": leaf(g.inst(rng, cb, bb, N, psd=pb))}
    rb = [max(x, y) for x, y in zip(ba, bb)]
    if f == "sum0_mT":
        return {"p": "transpose", "a": {"p": "sum", "a": first, "dim": 0}, "d1": -1, "d2": -2}
    return _unary_on(first, f, rng, rb)


RED_KINDS = ["sum0", "sum_last", "sum_mid", "prod0"]


def red_cells(quick):
    """results of batch reductions (SumBatchLinearOperator and the class-specific _sum_batch / _prod_batch results) as BOTH
    operands of every binary operation (also transposed on the left)"""
    out = []
    n = len(CLASSES)
    for i, ca in enumerate(CLASSES):
        partners = [ca, CLASSES[(i * 5 + 2) % n]] if quick else [ca, "Dense", "Diag", "Toeplitz", CLASSES[(i * 5 + 2) % n], CLASSES[(i * 3 + 7) % n]]
        for pi, cb in enumerate(dict.fromkeys(partners)):
            ops_ = ["matmul", "add", ["sub", "mul", "tmatmul"][(i + pi) % 3]] if quick else ["matmul", "add", "sub", "mul", "tmatmul"]
            for oi, op in enumerate(ops_):
                kinds_ = [RED_KINDS[(i + pi + oi) % 3]] if quick else RED_KINDS[:3]
                if ca in ("Dense", "Diag", "ConstantDiag", "Identity") and cb in ("Dense", "Diag", "ConstantDiag", "Identity"):
                    kinds_ = list(kinds_) + ["prod0"]        # exact _prod_batch overrides (no root decomposition)
                for rk in kinds_:
                    out.append(("red", op, ca, cb, rk))
    return out


def gen_red(rng, cell):
    _, op, ca, cb, rk = cell
    b, dim = {"sum0": ([3], 0), "sum_last": ([2, 3], -3), "sum_mid": ([2, 3], 0), "prod0": ([2], 0)}[rk]
    psd = op == "mul" and not (ca in DIAG_FAMILY or "Dense" in (ca, cb))
    if psd and (ca not in g.PSD_OK or cb not in g.PSD_OK):
        raise OutOfDomain()
    red = "prod" if rk == "prod0" else "sum"
    ra = {"p": red, "a": leaf(g.inst(rng, ca, b, N, psd=psd)), "dim": dim}
    rb = {"p": red, "a": leaf(g.inst(rng, cb, b, N, psd=psd)), "dim": dim}
    if op == "tmatmul":
        return {"p": "matmul", "a": {"p": "transpose", "a": ra, "d1": -1, "d2": -2}, "b": rb}
    return {"p": op, "a": ra, "b": rb}


# ------------------------------------------------------------------------------------------ repeat / expand compositions

REP_KINDS = ["rr_lead", "rr_lead2", "rr_same", "r_expand_lead", "expand_r_lead", "unsq_rr", "rr_lead_add", "r_sum0", "rr_mT_matmul",
             "r_expand_same"]
REP_BATCHES = [[], [2], [2, 1]]


def rep_cells(quick):
    """program steps built from repeat and expand: a second repeat on an already repeated operator (same rank and with NEW leading
    batch dimensions), repeat after expand, expand after repeat, and binary operations / reductions on the results"""
    out = []
    for ci, c in enumerate(CLASSES):
        kinds_ = ["rr_lead"] + [REP_KINDS[1 + (ci + j * 4) % (len(REP_KINDS) - 1)] for j in range(2)] if quick else REP_KINDS
        for ki, k in enumerate(dict.fromkeys(kinds_)):
            bs = [REP_BATCHES[(ci + ki) % 2]] if quick else REP_BATCHES
            for b in bs:
                out.append(("rep", k, c, tuple(b)))
    return out


def gen_rep(rng, cell):
    _, k, c, b = cell
    e = g.inst(rng, c, list(b), N)
    a = leaf(e)
    b = list(ob.shape_of(e)[:-2])            # the operand's actual batch shape
    nb = len(b)
    one = [1] * nb
    R = lambda x, sizes: {"p": "repeat", "a": x, "sizes": list(sizes)}
    if k == "rr_lead":                       # op.repeat(3,1,1).repeat(2,1,1,1)
        return R(R(a, [3] + one), [2, 1] + one)
    if k == "rr_lead2":                      # both the old and the new dimension repeated by the second call
        return R(R(a, [2] + one), [3, 2] + one)
    if k == "rr_same":
        return R(R(a, [2] + one), [3] + one)
    if k == "r_expand_lead":
        return {"p": "expand", "a": R(a, [3] + one), "batch": [2, 3] + b}
    if k == "r_expand_same":
        x = R({"p": "unsqueeze", "a": a, "dim": 0}, [1] + [2] * nb) if nb else R({"p": "unsqueeze", "a": a, "dim": 0}, [1])
        return {"p": "expand", "a": x, "batch": [3] + [2 * s for s in b]}
    if k == "expand_r_lead":
        return R({"p": "expand", "a": a, "batch": [3] + b}, [2, 1] + one)
    if k == "unsq_rr":
        return R(R({"p": "unsqueeze", "a": a, "dim": 0}, [3] + one), [2, 2] + one)
    if k == "rr_lead_add":
        return {"p": "add", "a": R(R(a, [3] + one), [2, 1] + one), "b": leaf(g.inst(rng, "Dense", [2, 3] + b, N))}
    if k == "r_sum0":
        return {"p": "sum", "a": R(R(a, [3] + one), [2, 1] + one), "dim": 0}
    if k == "rr_mT_matmul":
        x = R(R(a, [3] + one), [2, 1] + one)
        return {"p": "matmul", "a": {"p": "transpose", "a": x, "d1": -1, "d2": -2}, "b": leaf(g.inst(rng, "Diag", [3] + b, N))}
    raise ValueError(k)


# ------------------------------------------------------------------------------------------ structurally distinct instances

VAR_PARTNERS = ["Diag", "ConstantDiag", "Identity", "Dense"]
VAR_BIN = [(op, pk, order) for op in ("mul", "add", "matmul", "sub") for pk in VAR_PARTNERS for order in (0, 1)]
VAR_UNARY = ["diagonal", "mT", "jitter", "jitter_diagonal", "mT_diagonal", "mul_py_diagonal"]


def var_cells(quick):
    """per class a set of structurally distinct instances (c02_gen.VARIANTS: Block* / SumBatch over each child family, Masked with
    unequal / equal masks, Interpolated with 2 / 3 weights per row, ConstantMul / Kronecker / Sum / AddedDiag / BatchRepeat / Matmul
    over those) on both sides of * + @ - against the Diag family and Dense, and under .diagonal(), .mT, add_jitter"""
    out = []
    for vi, v in enumerate(g.VARIANTS):
        if quick:
            bins = [("mul", "Diag", 1), ("mul", VAR_PARTNERS[1 + vi % 2], 1), ("mul", VAR_PARTNERS[vi % 4], 0),
                    VAR_BIN[(8 + vi * 5) % 32], VAR_BIN[(8 + vi * 7 + 3) % 32]]
            uns = ["diagonal", "jitter_diagonal", VAR_UNARY[1 + vi % 2], VAR_UNARY[4 + vi % 2]]
            bs = [[[], [2]][vi % 2]]
        else:
            bins, uns, bs = VAR_BIN, VAR_UNARY, [[], [2]]
        for b in bs:
            for x in dict.fromkeys(bins):
                out.append(("var", v, "bin") + tuple(x) + (tuple(b),))
            for u in uns:
                out.append(("var", v, "un", u, tuple(b)))
    return out


def gen_var(rng, cell):
    v, kind = cell[1], cell[2]
    b = list(cell[-1])
    e = g.variant(rng, v, b, N)
    a = leaf(e)
    bb = list(ob.shape_of(e)[:-2])
    if kind == "un":
        u = cell[3]
        mT = lambda x: {"p": "transpose", "a": x, "d1": -1, "d2": -2}
        if u == "diagonal":
            return {"p": "diagonal", "a": a}
        if u == "mT":
            return mT(a)
        if u == "jitter":
            return {"p": "add_jitter", "a": a, "v": rng.choice([1, 2])}
        if u == "jitter_diagonal":
            return {"p": "diagonal", "a": {"p": "add_jitter", "a": a, "v": rng.choice([1, 2])}}
        if u == "mT_diagonal":
            return {"p": "diagonal", "a": mT(a)}
        if u == "mul_py_diagonal":
            return {"p": "diagonal", "a": {"p": "mul", "a": a, "b": {"p": "py", "v": rng.choice([4, -2])}}}
        raise ValueError(u)
    op, pk, order = cell[3], cell[4], cell[5]
    if op == "mul" and pk != "Dense" and not (order == 1 and pk in DIAG_FAMILY):
        raise OutOfDomain()             # X.mul(Diag) goes through root decompositions: PSD operands only (covered elsewhere)
    ek = g.inst(rng, pk, bb, N)
    x, y = (leaf(ek), a) if order else (a, leaf(ek))
    return {"p": op, "a": x, "b": y}


# ------------------------------------------------------------------------------------------ operands that carry pre-filled caches

CACHE_FIRST = ["add_root", "add_lrroot", "radd_root", "alr2", "cat_rows"]
CACHE_A = ["Root", "Chol", "Toeplitz", "Dense", "Diag", "Kron", "AddedDiag", "Sum", "LowRankRoot", "KronAddedDiag", "PsdSum", "BlockDiag"]
CACHE_PARTNER = ["Toeplitz", "Root", "Chol", "Kron", "Diag", "Dense", "AddedDiag", "Sum"]
CACHE_PARTNER_ODD = ["Toeplitz", "Root", "Chol", "Diag", "Dense", "ConstantDiag"]       # classes with an instance of odd size
CACHE_OPS = [(op, order) for op in ("mul", "add", "matmul", "sub") for order in (0, 1)]


def cache_cells(quick):
    """results of  A + Root ,  add_low_rank  and  cat_rows  (the library attaches root / inverse-root caches derived from A's
    caches to these RESULTS) as operands of every binary operation, both orders, against PSD partners of every family"""
    out = []
    for fi, f in enumerate(CACHE_FIRST):
        for ai, ca in enumerate(CACHE_A):
            partners = CACHE_PARTNER_ODD if f == "cat_rows" else CACHE_PARTNER
            if quick:
                picks = [(("mul", (fi + ai) % 2), partners[(fi + 2 * ai) % len(partners)])]
                if ca in ("Root", "Chol"):
                    picks += [(("mul", 1 - (fi + ai) % 2), "Toeplitz"), (CACHE_OPS[2 + (fi * 3 + ai) % 6], partners[(fi + ai + 3) % len(partners)])]
                elif (fi + ai) % 3 == 0:
                    picks += [(CACHE_OPS[2 + (fi * 3 + ai) % 6], partners[(fi + ai + 3) % len(partners)])]
                bs = [[[], [2]][(fi + ai) % 2]]
            else:
                picks = [(oo, partners[(fi + ai + oi + j) % len(partners)]) for oi, oo in enumerate(CACHE_OPS) for j in range(3)] \
                    + [(("mul", o), pk) for o in (0, 1) for pk in partners]
                bs = [[], [2]]
            for (op, order), pk in dict.fromkeys(picks):
                for b in bs:
                    out.append(("cache", f, ca, op, order, pk, tuple(b)))
    return out


def gen_cache(rng, cell):
    _, f, ca, op, order, pk, b = cell
    b = list(b)
    e = g.general_root(rng, b, N) if ca == "Root" else g.inst(rng, ca, b, N, psd=True)
    a = leaf(e)
    n2 = N
    if f in ("add_root", "add_lrroot"):
        v = {"cls": "Root" if f == "add_root" else "LowRankRoot", "root": ob.rand_t(rng, b + [N, 2], -2, 2)}
        first = {"p": "add", "a": a, "b": leaf(v)}
    elif f == "radd_root":
        first = {"p": "add", "a": leaf({"cls": "Root", "root": ob.rand_t(rng, b + [N, 2], -2, 2)}), "b": a}
    elif f == "alr2":
        first = {"p": "add_low_rank", "a": a, "t": ob.rand_t(rng, b + [N, 2], -2, 2)}
    else:
        # D = ceil(B A^-1 B^T) + 2: the concatenated matrix is positive definite by construction (Schur complement >= 2), whatever
        # the conditioning of A (a fixed D put a few nearly singular A outside the domain of cat_rows)
        Bt = ob.rand_t(rng, b + [1, N], -1, 1)
        Bd = ob.tt(Bt)
        schur = Bd @ torch.linalg.solve(ob.dense(e, torch.float64), Bd.mT)
        first = {"p": "cat_rows", "a": a, "B": Bt, "D": ob.from_torch(torch.ceil(schur) + 2)}
        n2 = N + 1
    ek = g.general_root(rng, b, n2) if pk == "Root" else g.inst(rng, pk, b, n2, psd=True)
    x, y = (leaf(ek), first) if order else (first, leaf(ek))
    return {"p": op, "a": x, "b": y}


ROOT_KINDS = ["alr1", "alr2", "cat_rows", "prod0", "prod_last"]


def root_cells(quick):
    """operations the library defines through root decompositions (PSD operands; direct predicate with tolerance only)"""
    out = []
    for ci, c in enumerate(g.PSD_OK):
        for ki, k in enumerate(ROOT_KINDS):
            cand = [[], [2], [2, 3]] if not k.startswith("prod") else [[2], [3], [2, 3]]
            bs = [cand[(ci + ki) % len(cand)]] if quick else cand
            for b in bs:
                out.append(("root", k, c, tuple(b)))
    return out


def gen_root(rng, cell):
    _, k, c, b = cell
    b = list(b)
    e = g.inst(rng, c, b, N, psd=True)
    a = leaf(e)
    b = list(ob.shape_of(e)[:-2])          # the operand's actual batch shape (BatchRepeat over () has batch (1,))
    if k == "alr1":
        return {"p": "add_low_rank", "a": a, "t": ob.rand_t(rng, b + [N, 1], -2, 2)}
    if k == "alr2":
        return {"p": "add_low_rank", "a": a, "t": ob.rand_t(rng, [N, 2], -2, 2)}
    if k == "cat_rows":
        nb = int(torch.tensor(b).prod()) if b else 1
        return {"p": "cat_rows", "a": a, "B": ob.rand_t(rng, b + [1, N], -1, 1), "D": ob.T(b + [1, 1], [60] * nb)}
    if k == "prod0":
        return {"p": "prod", "a": a, "dim": 0}
    if k == "prod_last":
        return {"p": "prod", "a": a, "dim": -3}
    raise ValueError(k)


PROG_LEAVES = ["Dense", "Diag", "ConstantDiag", "Identity", "Toeplitz", "Triangular", "Root", "LowRankRoot", "Kron", "KronDiag", "Sum",
               "AddedDiag", "Matmul", "ConstantMul", "KronAddedDiag", "LowRankRootAddedDiag", "Chol", "PsdSum", "SumKron", "Kernel",
               "UserMinimal", "BlockDiag", "Cat", "Interpolated", "SumBatch", "BatchRepeat", "KronTriangular", "BlockInterleaved", "Masked"]
PROG_STEPS = ["add", "add", "sub", "matmul", "mul_c", "mul_c", "mul_t", "add_t", "adiag", "jitter", "mT", "unsq", "expand", "sum", "perm", "div"]


def gen_prog(rng, idx, depth):
    """random program: a left-leaning chain of `depth` steps over leaves drawn from PROG_LEAVES (deterministic structure
    from idx, values from rng)"""
    b = list(BATCHES[idx % 3])
    if idx % 5 == 4:           # a lazy result as the first operand
        cur = leaf(g.composite(rng, g.COMPOSITES[(idx // 5) % len(g.COMPOSITES)], b, N)[0])
    else:
        cur = leaf(g.inst(rng, PROG_LEAVES[idx % len(PROG_LEAVES)], b, N))
    cb = list(b)
    for s in range(depth):
        st = PROG_STEPS[(idx * 5 + s * 7 + idx // len(PROG_STEPS)) % len(PROG_STEPS)]
        nb = len(cb)
        if st in ("add", "sub", "matmul"):
            c2 = PROG_LEAVES[(idx * 3 + s * 11 + 1) % len(PROG_LEAVES)]
            if st == "add" and c2 in ROOT_FAMILY:
                c2 = "Dense"
            b2 = rng.choice([cb, cb, []])
            if (idx + s) % 4 == 3:      # a lazy result as the other operand
                other = leaf(g.composite(rng, g.COMPOSITES[(idx + 3 * s) % len(g.COMPOSITES)], b2, N)[0])
            else:
                other = leaf(g.inst(rng, c2, b2, N))
            cur = {"p": st, "a": cur, "b": other} if rng.random() < 0.7 else {"p": st, "a": other, "b": cur}
        elif st == "mul_c":
            cur = {"p": "mul", "a": cur, "b": {"p": "py", "v": rng.choice([4, 9, -1, -2])}}
        elif st == "mul_t":
            cur = {"p": "mul", "a": cur, "b": T([], [rng.choice([4, -3])])}
        elif st == "add_t":
            cur = {"p": "add", "a": cur, "b": {"p": "t", "t": ob.rand_t(rng, cb + [N, N], -2, 2)}}
        elif st == "adiag":
            cur = {"p": "add_diagonal", "a": cur, "t": ob.rand_t(rng, rng.choice([[N], [1], cb + [N]]), 1, 3)}
        elif st == "jitter":
            cur = {"p": "add_jitter", "a": cur, "v": rng.choice([1, 2])}
        elif st == "mT":
            cur = {"p": "transpose", "a": cur, "d1": -2, "d2": -1}
        elif st == "unsq":
            cur = {"p": "unsqueeze", "a": cur, "dim": rng.choice([0, -3])}
            cb = [1] + cb if cur["dim"] == 0 else cb + [1]
        elif st == "expand":
            k = rng.choice([2, 3])
            cur = {"p": "expand", "a": cur, "batch": [k] + cb}
            cb = [k] + cb
        elif st == "sum":
            if nb:
                d = rng.choice([0, -3])
                cur = {"p": "sum", "a": cur, "dim": d}
                cb = cb[1:] if d == 0 else cb[:-1]
            else:
                cur = {"p": "add_jitter", "a": cur, "v": 1}
        elif st == "perm":
            if nb >= 2:
                cur = {"p": "permute", "a": cur, "dims": list(range(nb))[::-1]}
                cb = cb[::-1]
            else:
                cur = {"p": "transpose", "a": cur, "d1": -1, "d2": -2}
        elif st == "div":
            cur = {"p": "div", "a": cur, "b": {"p": "py", "v": rng.choice([-1, 1])}}
    return cur


def all_cells(quick):
    cells = pair_cells(quick) + scalar_cells(quick) + shape_cells(quick) + root_cells(quick) + comp_cells(quick) + bc2_cells(quick) + red_cells(quick) + rep_cells(quick) + cache_cells(quick) + var_cells(quick)
    nprog = 240 if quick else 1500
    for i in range(nprog):
        cells.append(("prog", i, 2 + i % 3 if quick else 2 + i % 5))
    return cells


def gen_cell(rng, cell):
    if cell[0] == "pair":
        return gen_pair(rng, cell)
    if cell[0] == "scalar":
        return gen_scalar(rng, cell)
    if cell[0] == "shape":
        return gen_shape(rng, cell)
    if cell[0] == "root":
        return gen_root(rng, cell)
    if cell[0] in ("comp", "compshape", "catb"):
        return gen_comp(rng, cell)
    if cell[0] == "bc2":
        return gen_bc2(rng, cell)
    if cell[0] == "red":
        return gen_red(rng, cell)
    if cell[0] == "rep":
        return gen_rep(rng, cell)
    if cell[0] == "cache":
        return gen_cache(rng, cell)
    if cell[0] == "var":
        return gen_var(rng, cell)
    return gen_prog(rng, cell[1], cell[2])


# ------------------------------------------------------------------------------------------ keys

EXC_CATS = [
    (r"'(int|float)' object has no attribute 'shape'", "scalar-has-no-shape"),
    (r"diag_values argument to ConstantDiagLinearOperator needs to have a final singleton", "cdiag-final-singleton"),
    (r"Cannot multiply LinearOperator of size", "cannot-multiply-size"),
    (r"Boolean value of Tensor with more than one", "tensor-truth-value"),
    (r"Components of KroneckerProductDiagLinearOperator must be DiagLinearOperator", "krondiag-components"),
    (r"Representation of a LinearOperator should consist only of Tensors", "representation-not-tensors"),
    (r"Can only unsqueeze batch dimensions", "unsqueeze-batch-only"),
    (r"Expected right_interp_indices", "interp-indices-size"),
    (r"shape '\[.*\]' is invalid for input of size", "view-invalid-shape"),
    (r"add_diag for LinearOperator of size .* received invalid diag", "add-diag-invalid"),
    (r"Diag dimensions are incompatible with the base LinearOperator", "zero-add-diag-incompatible"),
    (r"add_diag expects a 1D or 2D diag", "zero-add-diag-rank"),
    (r"The expanded size of the tensor", "expand-size-mismatch"),
    (r"The size of tensor a", "broadcast-size-mismatch"),
    (r"MulLinearOperator expects two LinearOperators of the same size", "mul-same-size"),
    (r"DenseLinearOperator expects a matrix", "dense-expects-matrix"),
    (r"All arguments of a SumLinearOperator should be", "sum-arguments"),
    (r"NotPSDError|not positive definite", "not-psd"),
]


def exc_cat(text):
    for pat, name in EXC_CATS:
        if re.search(pat, text):
            return name
    return re.sub(r"[^A-Za-z]+", "-", text)[:60]


def built_class(e):
    try:
        return type(ob.build(e, torch.float64)).__name__.replace("LinearOperator", "")
    except Exception:
        return e["cls"]


def culprit_of(j):
    """for a failing step whose operator operand is a generated leaf: descend into a child of the same shape that fails the
    same step on its own (so that a defect of a child class is keyed under that class, not under every parent)"""
    n = j["node"]
    slot = "a" if n["a"].get("p") == "leaf" else ("b" if isinstance(n.get("b"), dict) and n["b"].get("p") == "leaf" else None)
    if slot is None or (slot == "a" and isinstance(n.get("b"), dict) and n["b"].get("p") == "leaf"):
        return None                      # two operator operands: keyed by both classes
    e = n[slot]["e"]
    for _ in range(6):
        nxt = None
        try:
            shp = ob.shape_of(e)
        except Exception:
            break
        for k in g.kids_of(e):
            try:
                if ob.shape_of(k) != shp:
                    continue
                n2 = dict(n)
                n2[slot] = leaf(k)
                j2 = ops.judge(n2)
                if j2["status"] == "fail":
                    nxt = k
                    break
            except Exception:
                continue
        if nxt is None:
            break
        e = nxt
    return built_class(e)


SCALARISH = ("float", "tensor0d", "tensor1d", "tensor11", "tensor-batch-of-constants")


def cause_of(k):
    """root cause of a failing step, from its structural attributes only (None: not a recognised cell)"""
    op, a, b, fail, exc, bc = k.get("op"), k.get("a"), k.get("b"), k.get("fail"), k.get("exc"), k.get("bcast")
    cul = k.get("culprit") or a
    if op == "mul" and fail == "value" and ((a in DIAG_RT and k.get("chol_upper_b")) or (b in DIAG_RT and k.get("chol_upper_a"))):
        # Diag-family _mul_matrix reads the other operand's _diagonal(); CholLinearOperator(upper=True)._diagonal() is the
        # diagonal of R R^T (C03-chol-upper-orientation), also through every container whose _diagonal delegates to it
        return "chol-upper-diagonal"
    if op in ("squeeze", "prod") and fail == "value" and k.get("chol_upper_a"):
        # squeeze and the base _prod_batch go through __getitem__; the _getitem / _get_indices inherited from RootLinearOperator
        # read R R^T as well (and _prod_batch multiplies the slices through their root decompositions: C06-chol-upper)
        return "chol-upper-diagonal"
    if op == "mul" and fail == "value" and ((a == "ConstantMul" and k.get("chol_upper_a")) or (b == "ConstantMul" and k.get("chol_upper_b"))):
        # operator * operator goes through root decompositions; ConstantMulLinearOperator takes the root of its base, and the
        # root of an upper Chol operator is R (R R^T): C06-chol-upper seen through MulLinearOperator
        return "cmul-chol-upper-root"
    if op in ("add", "sub") and fail == "value" and b == "Chol" and k.get("chol_upper_b"):
        # LinearOperator.__add__: `isinstance(other, RootLinearOperator) -> self.add_low_rank(other.root)` adds R R^T
        return "add-chol-upper-as-root"
    if exc == "scalar-has-no-shape" and "Zero" in (a, b):
        return "zero-mul-python-scalar"
    if op in ("add", "sub") and a == "Zero" and fail == "shape" and bc:
        return "zero-add-returns-other"
    if op in ("add", "sub") and b == "Zero" and fail == "shape" and bc:
        return "add-zero-returns-self"
    if op == "mul" and b == "Zero" and fail == "shape" and bc:
        return "mul-zero-returns-other"
    if op == "matmul" and a == "Zero" and fail == "shape" and bc:
        return "zero-matmul-drops-batch"
    if op == "matmul" and a == "Interpolated" and exc in ("unsqueeze-batch-only", "interp-indices-size"):
        return "interpolated-matmul-operator"
    if op == "matmul" and exc == "view-invalid-shape" and bc and "BlockDiag" in (a, b):
        return "diag-blockdiag-matmul-broadcast"
    if op in ("add", "sub") and exc == "add-diag-invalid" and bc:
        return "kron-add-diag-broadcast"
    if op == "mul" and fail in ("value", "shape") and ((cul == "Identity" and b not in SCALARISH) or (b == "Identity" and a == "tensor-matrix")):
        return "identity-mul-matrix"
    if op == "mul" and b == "tensor-batch-of-constants":
        if cul in ("ConstantDiag", "Identity"):
            return "cdiag-mul-batch-constants"
        if cul in ("Triangular", "Chol"):
            return "triangular-mul-batch-constants"
        if cul in ("LowRankRootAddedDiag", "Mul") and exc == "tensor-truth-value":
            return "truth-value-mul-batch-constants"
        if cul in ("BlockDiag", "BlockInterleaved", "SumBatch"):
            return "block-mul-batch-constants"
    if op in ("permute", "transpose") and cul == "Zero" and fail == "shape":
        return "zero-permute-noop"
    if op in ("permute", "transpose", "sum", "prod") and k.get("zero_multibatch_inside") and fail == "raises" \
            and (exc or "").startswith("RuntimeError-Attempting-to-broadcast"):
        # the same no-op _permute_batch of a Zero with >= 2 batch dimensions, seen through a container built by an earlier
        # step (Matmul / Sum / AddedDiag holding the Zero): the container permutes its children, the Zero keeps its shape and
        # the constructor refuses the mixed batch shapes ( sum / prod over a dimension that is not the last one permute too )
        return "zero-permute-noop"
    if op in ("repeat", "expand") and cul == "Zero" and exc == "representation-not-tensors":
        return "zero-repeat"
    if op in ("add_diagonal", "add_jitter") and cul == "Zero" and exc in ("zero-add-diag-incompatible", "zero-add-diag-rank", "expand-size-mismatch") \
            and (k.get("nbatch") or 0) >= 2:
        return "zero-add-diagonal-multibatch"
    if op in ("sum", "prod") and exc == "krondiag-components" and (cul == "KroneckerProductDiag" or k.get("krondiag_inside")):
        return "krondiag-sum-batch"
    return None


DIAG_RT = ("Diag", "ConstantDiag", "Identity", "KroneckerProductDiag")
BATCHCONST_DEFECT_CLASSES = {"ConstantDiag", "Identity", "Triangular", "Chol", "LowRankRootAddedDiag", "Mul", "BlockDiag",
                             "BlockInterleaved", "SumBatch", "KronAddedDiag", "AddedDiag"}


def leaf_classes(P):
    """opbuild class names occurring anywhere in the operands of the (sub-)program P"""
    out = set()
    for n in ops.nodes(P):
        if n["p"] == "leaf":
            out |= {x["cls"] for x in g.nodes(n["e"])}
    return out


def defect_cell(n, kinds):
    """Is the step n one of the cells in which the PINNED library is known to be defective (known_findings.d/C02-*)?  Decided
    from the structure of the step only (operation, operand classes / kinds, broadcasting), never from its outcome: on a tree
    where such a defect has been repaired the implementation then agrees with torch and with Spec.v while Model.v, which
    transcribes the defect, does not -- that disagreement is expected (DESIGN 2.5) and must not alarm."""
    k = kinds.get(id(n)) or {}
    op, a, b, bc, nb = n["p"], k.get("a"), k.get("b"), k.get("bcast"), k.get("nbatch") or 0
    lc = leaf_classes(n)
    if op == "sub" and b == "Zero":
        return "zero-mul-python-scalar"
    if op in ("mul", "div") and "Zero" in (a, b) and "float" in (a, b):
        return "zero-mul-python-scalar"
    if op in ("add", "sub") and "Zero" in (a, b) and bc:
        return "zero-add-returns-other"
    if op == "mul" and b == "Zero" and bc:
        return "mul-zero-returns-other"
    if op == "matmul" and a == "Zero" and bc:
        return "zero-matmul-drops-batch"
    if op == "matmul" and a == "Interpolated":
        return "interpolated-matmul-operator"
    if op == "matmul" and bc and ((a == "BlockDiag" and b in DIAG_RT) or (b == "BlockDiag" and a in DIAG_RT)):
        return "diag-blockdiag-matmul-broadcast"
    if op in ("add", "sub") and bc and str(a).startswith("KroneckerProduct") and a not in DIAG_RT and b in DIAG_RT:
        return "kron-add-diag-broadcast"
    if op == "mul" and ((a == "Identity" and b not in SCALARISH) or (b == "Identity" and a == "tensor-matrix")):
        return "identity-mul-matrix"
    if op == "mul" and "tensor-batch-of-constants" in (a, b) and (lc & BATCHCONST_DEFECT_CLASSES):
        return "mul-batch-constants"
    if op in ("permute", "transpose") and "Zero" in lc:
        return "zero-permute-noop"
    if op in ("repeat", "expand") and a == "Zero":
        return "zero-repeat"
    if op in ("add_diagonal", "add_jitter") and a == "Zero" and nb >= 2:
        return "zero-add-diagonal-multibatch"
    if op in ("sum", "prod") and "KronDiag" in lc:
        return "krondiag-sum-batch"
    return None


def in_defect_cell(n, kinds):
    """the step itself, or a step below it in the same program, is a known-defect cell"""
    for m in ops.nodes(n):
        if m["p"] in ("leaf", "t", "py"):
            continue
        d = defect_cell(m, kinds)
        if d:
            return d
    return None


def fail_key(j):
    n, info = j["node"], j["info"]
    key = {"op": n["p"], "fail": info.get("fail")}
    key["a"] = info.get("a_kind")
    if "b_kind" in info:
        key["b"] = info["b_kind"]
    if info.get("fail") == "raises":
        key["exc"] = exc_cat(info.get("what", ""))
    if "bcast" in info:
        key["bcast"] = info["bcast"]
    if n["p"] in ("add_diagonal",):
        key["diag_rank"] = len(n["t"]["shape"])
    key["nbatch"] = info.get("a_nbatch")
    cul = culprit_of(j)
    if cul is not None:
        key["culprit"] = cul
    if n["p"] in ("sum", "prod"):
        key["krondiag_inside"] = "KronDiag" in leaf_classes(n)
    if n["p"] in ("permute", "transpose", "sum", "prod") and n["a"].get("p") != "leaf":
        key["zero_multibatch_inside"] = any(
            x["cls"] == "Zero" and len(x["shape"]) >= 4
            for q in ops.nodes(n) if q["p"] == "leaf" for x in g.nodes(q["e"]))
    if n["p"] in ("mul", "add", "sub", "squeeze", "prod"):
        def upper_inside(q):
            return isinstance(q, dict) and any(x["cls"] == "Chol" and x.get("upper") for r in ops.nodes(q) if r["p"] == "leaf"
                                               for x in g.nodes(r["e"]))
        key["chol_upper_a"], key["chol_upper_b"] = upper_inside(n["a"]), upper_inside(n.get("b"))
    key["cause"] = cause_of(key)
    return key


# ------------------------------------------------------------------------------------------ running

def node_cases(P, j):
    """(sub-program, observation) for every operation node that was evaluated (ok nodes: value; the failing node: its
    observation if it returned, ObsErr if it raised)"""
    out = []
    for n in ops.nodes(P):
        if n["p"] in ("leaf", "t", "py"):
            continue
        ob_ = j["obs"].get(id(n))
        if ob_ is None:
            break
        out.append((n, ob_))
    return out


def integer_valued(x, tol=1e-6):
    return bool(((x - x.round()).abs() <= tol).all()) if x.numel() else True


def observe_all(ctx, rng, cells):
    res = []
    skipped = {"gen": 0}
    for cell in cells:
        try:
            P = gen_cell(rng, cell)
        except OutOfDomain:
            skipped["out_of_domain"] = skipped.get("out_of_domain", 0) + 1
            continue
        except Exception:
            skipped["gen"] += 1
            continue
        try:
            j = ops.judge(P, record=True)
        except Exception as ex:        # the judge itself must not crash
            j = {"status": "judge-crash", "node": P, "info": {"what": repr(ex)}, "trace": [], "obs": {}}
        res.append({"cell": cell, "P": P, "j": j})
    return res, skipped


def replay_of(r, extra=None):
    j = r["j"]
    rp = {"kind": "property-fails-on-implementation", "program": r["P"], "cell": list(r["cell"]),
          "failing_step": ops.describe(j["node"]), "what": j["info"].get("what"), "fail": j["info"].get("fail"),
          "expected": "the same step evaluated with plain torch on the dense operands (opbuild.dense)"}
    if extra:
        rp.update(extra)
    return rp


def report_failures(ctx, results, stats):
    seen = set()
    for r in results:
        j = r["j"]
        if j["status"] == "judge-crash":
            ctx.violation({"kind": "harness-judge-crash", "program": r["P"], "what": j["info"]["what"]}, no_input=True)
            continue
        if j["status"] != "fail":
            continue
        stats["predicate_failures"] += 1
        key = fail_key(j)
        sig = json.dumps(key, sort_keys=True)
        if sig in seen:
            continue
        seen.add(sig)
        ctx.violation(replay_of(r), key=key)


def shard_src(items):
    body = ";\n ".join("(%s,\n  %s)" % (pl, ol) for pl, ol in items)
    return (HDR + "Definition cases : list case := [\n %s].\n" % body
            + "Eval vm_compute in (run_cases cases).\nEval vm_compute in (run_spec cases).\n")


def parse_two_lists(out):
    ms = re.findall(r"=\s*\[(.*?)\]\s*:\s*list nat", out, re.S)
    if len(ms) != 2:
        return None
    res = []
    for body in ms:
        body = body.strip()
        res.append([int(re.sub(r"%\w+", "", x).strip()) for x in body.split(";")] if body else [])
    return res


def run_shards_limited(ctx, shards):
    res = {}
    for i in range(0, len(shards), NSHARD_WORKERS):
        res.update(common.run_shards(ctx, shards[i:i + NSHARD_WORKERS]))
    return res


def coq_stage(ctx, results, stats):
    """model / spec correspondence on every evaluated node"""
    items = []        # (result index, node, prog literal, obs literal, predicate_ok)
    for ri, r in enumerate(results):
        j = r["j"]
        if j["status"] in ("judge-crash", "build-error"):
            continue
        nb_of = lambda Q: len(j["dshape"][id(Q)]) - 2
        for n, o in node_cases(r["P"], j):
            st, got = o
            if st == "dense-undefined":
                continue
            if got is not None and not integer_valued(got):
                stats["noninteger_nodes"] += 1
                continue
            try:
                pl = lit.prog_lit(n, nb_of)
            except lit.Inexpressible:
                stats["inexpressible_nodes"] += 1
                continue
            except Exception:
                stats["inexpressible_nodes"] += 1
                continue
            items.append((ri, n, pl, lit.obs_lit(got), st in ("ok", "unsupported", "not-psd")))
    shards = []
    SHn = SH if ctx.quick else 2 * SH
    for i in range(0, len(items), SHn):
        shards.append(("c02_%d" % (i // SHn), shard_src([(pl, ol) for (_, _, pl, ol, _) in items[i:i + SHn]])))
    res = run_shards_limited(ctx, shards)
    reported = set()
    codes_hist = {}
    for si, (name, _) in enumerate(shards):
        rc, out = res[name]
        two = parse_two_lists(out) if rc == 0 else None
        chunk = items[si * SHn:(si + 1) * SHn]
        if two is None or len(two[0]) != len(chunk) or len(two[1]) != len(chunk):
            ctx.violation({"kind": "shard-failed", "shard": name, "out": out[-800:]}, no_input=True)
            continue
        for (ri, n, pl, ol, pred_ok), mc, sc in zip(chunk, two[0], two[1]):
            codes_hist["model_%d" % mc] = codes_hist.get("model_%d" % mc, 0) + 1
            codes_hist["spec_%d" % sc] = codes_hist.get("spec_%d" % sc, 0) + 1
            stats["coq_nodes"] += 1
            if mc != 4:
                stats["coq_nodes_modelled"] += 1
            r = results[ri]
            if not pred_ok:
                if mc == 0:
                    stats["defects_transcribed"] += 1
                continue                     # reported by the direct predicate
            if r["j"]["status"] in ("unsupported", "not-psd") and n is r["j"]["node"]:
                # a declared refusal / an operand outside the PSD domain: the model may return (it has no numerics)
                if mc in (0, 2, 4):
                    continue
            bad_model = mc in (1, 2, 3, 5)
            bad_spec = sc in (1, 2, 3)
            if bad_model and not bad_spec:
                dc = in_defect_cell(n, r["j"].get("kinds", {}))
                if dc:
                    # a known-defect cell that THIS tree has repaired: the implementation agrees with torch and with Spec.v,
                    # Model.v still transcribes the pinned defect (DESIGN 2.5: the spec output is accepted as well)
                    stats["repaired_cells"] += 1
                    stats.setdefault("repaired_causes", {})
                    stats["repaired_causes"][dc] = stats["repaired_causes"].get(dc, 0) + 1
                    continue
            if bad_model or bad_spec:
                stats["model_mismatches" if bad_model else "spec_mismatches"] += 1
                sig = (n["p"], ops.describe(n)[:60], mc, sc)
                if sig in reported or len(reported) > 40:
                    continue
                reported.add(sig)
                ctx.violation({"kind": "model-implementation-disagreement" if bad_model else "spec-torch-disagreement",
                               "program": n, "step": ops.describe(n), "model_code": mc, "spec_code": sc,
                               "note": "the implementation agrees with the torch oracle; coq/C02 %s does not"
                                       % ("Model.v" if bad_model else "Spec.v")}, no_input=True)
    stats["codes"] = codes_hist


def replay_known(ctx):
    n = 0
    for ent in common.load_known():
        if ent.get("property") != PROP or ent.get("status") != "known":
            continue
        rp = ent.get("replay") or {}
        if "program" not in rp:
            continue
        try:
            j = ops.judge(rp["program"], record=True)
        except Exception as ex:
            continue
        if j["status"] == "fail":
            n += 1
            ctx.violation({"kind": "property-fails-on-implementation", "program": rp["program"], "witness_of": ent.get("id"),
                           "what": j["info"].get("what")}, key=fail_key(j))
    return n


def run(ctx):
    t0 = time.time()
    torch.set_num_threads(1)
    torch.set_default_dtype(torch.float64)
    warnings.filterwarnings("ignore")
    regenerate()
    rng = random.Random(ctx.seed)
    cells = all_cells(ctx.quick)

    def on_fail(info):
        r2 = random.Random(ctx.seed + 1)
        rs, _ = observe_all(ctx, r2, all_cells(False) if ctx.quick else cells)
        st = {"predicate_failures": 0}
        before = ctx.violations
        report_failures(ctx, rs, st)
        return ctx.violations > before
    ok = common.proof_stage(ctx, on_fail)

    n_kf = replay_known(ctx)
    results, skipped = observe_all(ctx, rng, cells)
    stats = {"predicate_failures": 0, "model_mismatches": 0, "spec_mismatches": 0, "coq_nodes": 0, "coq_nodes_modelled": 0,
             "noninteger_nodes": 0, "inexpressible_nodes": 0, "defects_transcribed": 0, "repaired_cells": 0}
    report_failures(ctx, results, stats)
    t1 = time.time()
    if ok:
        coq_stage(ctx, results, stats)

    status_hist, kinds, keys = {}, {}, set()
    nodes_total = 0
    for r in results:
        st = r["j"]["status"]
        status_hist[st] = status_hist.get(st, 0) + 1
        kinds[r["cell"][0]] = kinds.get(r["cell"][0], 0) + 1
        nn = sum(1 for n in ops.nodes(r["P"]) if n["p"] not in ("leaf", "t", "py"))
        nodes_total += nn
        d = ops.describe(r["P"])
        d = re.sub(r"T\([0-9, ]*\)", "T", re.sub(r"py\(-?\d+\)", "py", d))
        if any(x["p"] == "leaf" and g.kids_of(x["e"]) for x in ops.nodes(r["P"])) or nn > 1:
            keys.add((d, r["cell"][-1] if r["cell"][0] != "prog" else 0))
    samples = []
    for r in (results[len(results) // 3], results[-1]) if results else ():
        samples.append({"program": r["P"], "status": r["j"]["status"], "result_class": r["j"]["info"].get("cls"),
                        "result_shape": list(r["j"]["info"].get("shape", []))})
    ctx.coverage.update({
        "trusted_base": common.COQ_TRUSTED + [
            "torch primitives modelled by their mathematical meaning in coq/C02/{Dense,Model,Spec}.v: elementwise + - * with broadcasting "
            "of full shapes, matmul, expand, unsqueeze, permute, sum over a batch dimension, diag_embed; sqrt of a positive constant "
            "is modelled by the integer square root (cases use perfect squares); the reciprocal 1.0/c of a division is an input",
            "numerical root decompositions inside add_low_rank / MulLinearOperator are not modelled (only the value A + R R^T / A o B); "
            "re-expansion of already expanded children inside constructors is elided (identity)",
            "builders and literal writers harness/opbuild.py (build), harness/c02_lit.py and the comparator coq/C02/Check.v",
            "dense oracle harness/opbuild.py (dense) + harness/c02_ops.py (plain torch): direct predicate and triage only",
        ],
        "evaluations": nodes_total, "distinct_nontrivial": len(keys),
        "rule": "one evaluation = one operation node of a generated program, evaluated on the library and compared (dense value, "
                "shape, raises-or-not) with plain torch; nodes whose result is integer valued and expressible are also compared "
                "in Coq with the model and with the dense specification; non-trivial = a program with a composite operand or more than "
                "one step; distinct by (program structure with class names and tensor kinds, batch configuration)",
        "programs": len(results), "cells": len(cells), "cell_kinds": kinds, "skipped": skipped, "status_histogram": status_hist,
        "coq_nodes_compared": stats["coq_nodes"], "coq_nodes_inside_model": stats["coq_nodes_modelled"], "coq_codes": stats.get("codes"),
        "noninteger_nodes": stats["noninteger_nodes"], "inexpressible_nodes": stats["inexpressible_nodes"],
        "model_mismatches": stats["model_mismatches"], "spec_mismatches": stats["spec_mismatches"],
        "predicate_failures": stats["predicate_failures"], "defects_transcribed_by_model": stats["defects_transcribed"],
        "repaired_known_defect_cells": stats["repaired_cells"], "repaired_causes": stats.get("repaired_causes", {}),
        "known_finding_witnesses_still_failing": n_kf, "classes": len(CLASSES),
        "samples": samples, "wall_python_s": round(t1 - t0, 1), "wall_coq_s": round(time.time() - t1, 1),
    })
    ctx.assumptions = [
        "entries are small integers, so float64 results are exact; positive constants are perfect squares where a root is scaled",
        "operands of root-decomposition based steps (+ RootLinearOperator, operator * operator) are positive definite",
        "KeOpsLinearOperator is excluded (pykeops is not installed); Permutation operators (float32 only) are left to C01/C14; "
        "Kernel operators only with polynomial covariance functions; torch default dtype is float64 during the run "
        "(ZeroLinearOperator loses its dtype otherwise: C01/C14 findings)",
        "adding python numbers to operators and multiplying by 1-D tensors are outside the property (operators and tensors; matrices)",
    ]


def replay(rp):
    torch.set_num_threads(1)
    torch.set_default_dtype(torch.float64)
    warnings.filterwarnings("ignore")
    P = rp["program"]
    print("program:", ops.describe(P))
    j = ops.judge(P, record=True)
    print("status:", j["status"], "at step:", ops.describe(j["node"]))
    print("info:", {k: v for k, v in j["info"].items() if k not in ("got",)})
    if j["status"] == "fail":
        print("key:", json.dumps(fail_key(j), sort_keys=True))
    return 1 if j["status"] == "fail" else 0
