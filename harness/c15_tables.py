"""Translator for C15:  linear_operator/operators/_linear_operator.py (+ the imported package)
   ->  coq/C15/gen/Dispatch.v

What is extracted (and from where):

  AST of _linear_operator.py
    * the two registration tables  _HANDLED_FUNCTIONS / _HANDLED_SECOND_ARG_FUNCTIONS: they must be created
      as empty dict literals and may only be written inside the three registration decorators
      (_implements, _implements_second_arg, _implements_symmetric), whose bodies are classified
      (which table(s) each one writes, key = the torch function, value = func.__name__);
    * every use of these decorators on a method of class LinearOperator  (decorator, dotted torch
      function, method name)  -> the tables, replayed in Python's order of evaluation (class body top to
      bottom, stacked decorators bottom-up, later registrations overwrite);
    * the body of __torch_function__  -> a small program  (tf_prog)  interpreted by coq/C15/Model.v:
      which argument is tested with isinstance(., cls), and for each of the two branches the table used
      for the membership test, whether the issubclass test over `types` is present, the table used for
      the getattr-by-name, the argument list of the final call (args[i] / *args[i:] / *args) and **kwargs;
    * the bodies of the small delegating methods and (reflected) dunders of the root class
      (add, sub, div, rmatmul, isclose, _isclose, __sub__, __radd__, __rsub__, __mul__, __rmul__,
      __matmul__, __rmatmul__, __truediv__)  -> expressions of the language `ex` of Model.v;
    * which methods are stubs (body = raise NotImplementedError(...)).
  AST of every module of linear_operator/operators/  : class -> methods defined in the class body (+ stub flag)
  the imported package (common.REPO first on sys.path)
    * all LinearOperator subclasses reachable from linear_operator.operators, their MRO, and for every
      relevant method name whether the class __dict__ holds it (cross-checked against the AST);
    * the runtime tables (cross-checked entry by entry against the tables derived from the AST: a
      registration made anywhere else is therefore detected);
    * measured on the running torch: which function object Tensor.__add__/__sub__/__mul__/__truediv__/
      __matmul__ hand to __torch_function__ when the right operand is not a Tensor.

Fail closed: anything outside these shapes raises Untranslatable; the check then reports the broken
obligation and searches the implementation for a failing input.
"""
import ast
import importlib
import os
import pkgutil
import sys

TABLES = {"_HANDLED_FUNCTIONS": "First", "_HANDLED_SECOND_ARG_FUNCTIONS": "Second"}
ROOT = "LinearOperator"
ROOT_FILE = os.path.join("linear_operator", "operators", "_linear_operator.py")

DUNDERS = ["__add__", "__radd__", "__sub__", "__rsub__", "__mul__", "__rmul__", "__matmul__", "__rmatmul__",
           "__truediv__", "__rtruediv__", "__neg__", "__iadd__", "__isub__", "__imul__", "__itruediv__", "__imatmul__"]
SPECIAL = ["__torch_function__", "__getattr__", "__getattribute__"]
# small delegating root methods whose bodies are translated to `ex`
BODY_METHODS = ["add", "sub", "div", "rmatmul", "isclose", "_isclose", "__sub__", "__radd__", "__rsub__", "__mul__",
                "__rmul__", "__matmul__", "__rmatmul__", "__truediv__"]
# delegating methods that exist only after proposed_fixes/C15-second-arg-keywords.diff: translated when present
OPTIONAL_BODY_METHODS = ["_add_second_arg", "_sub_second_arg", "_isclose_second_arg"]
# methods modelled by their contract only (primitive in the value semantics)
PRIMITIVE = ["__add__", "mul", "matmul"]


class Untranslatable(Exception):
    pass


def dotted(e):
    if isinstance(e, ast.Name):
        return e.id
    if isinstance(e, ast.Attribute):
        return dotted(e.value) + "." + e.attr
    raise Untranslatable("not a dotted name: %s" % ast.dump(e)[:80])


def cstr(s):
    if '"' in s or "\\" in s or "\n" in s:
        raise Untranslatable("string not representable: %r" % s)
    return '"%s"' % s


def clist(items):
    return "[" + "; ".join(items) + "]"


def strip_doc(body):
    if body and isinstance(body[0], ast.Expr) and isinstance(body[0].value, ast.Constant) and isinstance(body[0].value.value, str):
        return body[1:]
    return body


def is_stub(fn):
    body = strip_doc(fn.body)
    if len(body) != 1 or not isinstance(body[0], ast.Raise):
        return False
    e = body[0].exc
    if isinstance(e, ast.Call):
        e = e.func
    return isinstance(e, ast.Name) and e.id == "NotImplementedError"


# ----------------------------------------------------------------------------------------------
# registration decorators and tables

def classify_decorator(fn):
    """fn: FunctionDef of _implements*.  Returns the list of tables it writes ('First'/'Second')."""
    if [a.arg for a in fn.args.args] != ["torch_function"] or fn.args.vararg or fn.args.kwarg or fn.args.kwonlyargs:
        raise Untranslatable("signature of %s" % fn.name)
    body = strip_doc(fn.body)
    if len(body) != 2 or not isinstance(body[0], ast.FunctionDef) or not isinstance(body[1], ast.Return):
        raise Untranslatable("body shape of %s" % fn.name)
    inner, ret = body
    if not (isinstance(ret.value, ast.Name) and ret.value.id == inner.name):
        raise Untranslatable("%s does not return its inner decorator" % fn.name)
    if [a.arg for a in inner.args.args] != ["func"]:
        raise Untranslatable("inner signature of %s" % fn.name)
    for d in inner.decorator_list:
        if not (isinstance(d, ast.Call) and dotted(d.func) == "functools.wraps"):
            raise Untranslatable("inner decorator of %s" % fn.name)
    writes = []
    ib = strip_doc(inner.body)
    if not ib or not isinstance(ib[-1], ast.Return) or not (isinstance(ib[-1].value, ast.Name) and ib[-1].value.id == "func"):
        raise Untranslatable("%s: inner decorator must end with `return func`" % fn.name)
    for st in ib[:-1]:
        ok = (isinstance(st, ast.Assign) and len(st.targets) == 1 and isinstance(st.targets[0], ast.Subscript)
              and isinstance(st.targets[0].value, ast.Name) and st.targets[0].value.id in TABLES
              and isinstance(st.targets[0].slice, ast.Name) and st.targets[0].slice.id == "torch_function"
              and isinstance(st.value, ast.Attribute) and st.value.attr == "__name__"
              and isinstance(st.value.value, ast.Name) and st.value.value.id == "func")
        if not ok:
            raise Untranslatable("%s: statement is not TABLE[torch_function] = func.__name__: %s" % (fn.name, ast.dump(st)[:100]))
        writes.append(TABLES[st.targets[0].value.id])
    if not writes:
        raise Untranslatable("%s registers nothing" % fn.name)
    return writes


class TableRefs(ast.NodeVisitor):
    """every reference to the two tables, with the enclosing top-level definition"""

    def __init__(self):
        self.refs = []
        self.stack = []

    def visit_FunctionDef(self, n):
        self.stack.append(n.name)
        self.generic_visit(n)
        self.stack.pop()

    def visit_ClassDef(self, n):
        self.stack.append(n.name)
        self.generic_visit(n)
        self.stack.pop()

    def visit_Name(self, n):
        if n.id in TABLES:
            self.refs.append((n.id, tuple(self.stack), type(n.ctx).__name__, n.lineno))


# ----------------------------------------------------------------------------------------------
# __torch_function__  ->  tf_prog

class _TfPath:
    """one execution of the body of __torch_function__ under the assumption isinstance(args[i], cls) == inst"""

    def __init__(self, inst):
        self.inst = inst
        self.test_arg = None
        self.member = None           # table of the `func not in TABLE` guard
        self.types_check = False
        self.result = None           # (lookup table, [argref], kwargs flag)
        # symbolic values:  ("args", [caller indices], rest index | None)   the tuple  (args[i] for i in prefix) + args[rest:]
        #                   ("arg", i) | ("table", T) | ("mname", T) | ("method", T) | ("bool", b) | ("guard", [atoms])
        #                   ("func",) | ("cls",) | ("kwargs",) | ("types",) | ("none",)
        self.env = {"cls": ("cls",), "func": ("func",), "types": ("types",), "args": ("args", [], 0), "kwargs": ("kwargs",)}

    # -- expressions
    def ev(self, e):
        if isinstance(e, ast.Name):
            if e.id in TABLES:
                return ("table", TABLES[e.id])
            if e.id not in self.env:
                raise Untranslatable("__torch_function__: unbound name %s" % e.id)
            return self.env[e.id]
        if isinstance(e, ast.Constant) and e.value is None:
            return ("none",)
        if isinstance(e, ast.Dict) and not e.keys:
            return ("emptydict",)
        if isinstance(e, ast.Tuple) or isinstance(e, ast.List):
            prefix, rest = [], None
            for x in e.elts:
                if rest is not None:
                    raise Untranslatable("__torch_function__: element after *args[k:]")
                if isinstance(x, ast.Starred):
                    v = self.ev(x.value)
                    if v[0] != "args":
                        raise Untranslatable("__torch_function__: starred element is not an argument tuple")
                    prefix, rest = prefix + v[1], v[2]
                else:
                    v = self.ev(x)
                    if v[0] != "arg":
                        raise Untranslatable("__torch_function__: tuple element is not one of the caller's arguments")
                    prefix.append(v[1])
            return ("args", prefix, rest)
        if isinstance(e, ast.Subscript):
            v = self.ev(e.value)
            if v[0] == "table":
                k = self.ev(e.slice)
                if k != ("func",):
                    raise Untranslatable("__torch_function__: table indexed by something else than func")
                if self.member is None:
                    raise Untranslatable("__torch_function__: TABLE[func] evaluated before the membership test")
                return ("mname", v[1])
            if v[0] == "args":
                prefix, rest = v[1], v[2]
                sl = e.slice
                cint = lambda x: isinstance(x, ast.Constant) and isinstance(x.value, int) and not isinstance(x.value, bool) and x.value >= 0
                if cint(sl):
                    i = sl.value
                    if i < len(prefix):
                        return ("arg", prefix[i])
                    if rest is None:
                        raise Untranslatable("__torch_function__: index %d outside a %d-tuple" % (i, len(prefix)))
                    return ("arg", rest + i - len(prefix))
                if isinstance(sl, ast.Slice) and sl.step is None and (sl.lower is None or cint(sl.lower)) and (sl.upper is None or cint(sl.upper)):
                    lo = sl.lower.value if sl.lower is not None else 0
                    if sl.upper is None:
                        if lo <= len(prefix):
                            return ("args", prefix[lo:], rest)
                        if rest is None:
                            return ("args", [], None)
                        return ("args", [], rest + lo - len(prefix))
                    hi = sl.upper.value
                    if hi < lo:
                        raise Untranslatable("__torch_function__: empty slice")
                    # a bounded slice of the caller's arguments: modelled as exactly hi-lo arguments (a shorter
                    # argument list raises in the model -- IndexError -- and in python when it is unpacked)
                    full = list(prefix)
                    if hi > len(full):
                        if rest is None:
                            raise Untranslatable("__torch_function__: slice beyond a fixed tuple")
                        full += [rest + k for k in range(hi - len(full))]
                    return ("args", full[lo:hi], None)
            raise Untranslatable("__torch_function__: subscript %s" % ast.dump(e)[:100])
        if isinstance(e, ast.BinOp) and isinstance(e.op, ast.Add):
            l, r = self.ev(e.left), self.ev(e.right)
            if l[0] == "args" and r[0] == "args" and l[2] is None:
                return ("args", l[1] + r[1], r[2])
            raise Untranslatable("__torch_function__: + of %s and %s" % (l[0], r[0]))
        if isinstance(e, ast.UnaryOp) and isinstance(e.op, ast.Not):
            v = self.ev(e.operand)
            if v[0] == "bool":
                return ("bool", not v[1])
            if v[0] == "guardpos":          # not (func in T) / not all(...)
                return ("guard", v[1])
            raise Untranslatable("__torch_function__: not %s" % v[0])
        if isinstance(e, ast.BoolOp) and isinstance(e.op, ast.Or):
            vs = [self.ev(x) for x in e.values]
            if vs[0] == ("kwargs",) and len(vs) == 2 and vs[1] == ("emptydict",):
                return ("kwargs",)
            if all(v[0] == "guard" for v in vs):
                return ("guard", [a for v in vs for a in v[1]])
            raise Untranslatable("__torch_function__: `or` of %s" % [v[0] for v in vs])
        if isinstance(e, ast.Compare) and len(e.ops) == 1:
            l, r = self.ev(e.left), self.ev(e.comparators[0])
            if l == ("func",) and r[0] == "table" and isinstance(e.ops[0], (ast.In, ast.NotIn)):
                return ("guard" if isinstance(e.ops[0], ast.NotIn) else "guardpos", [("member", r[1])])
            if l == ("kwargs",) and r == ("none",) and isinstance(e.ops[0], ast.Is):
                return ("kwargs_is_none",)
            raise Untranslatable("__torch_function__: comparison %s" % ast.dump(e)[:100])
        if isinstance(e, ast.IfExp):
            c = self.ev(e.test)
            if c[0] != "bool":
                raise Untranslatable("__torch_function__: conditional expression on %s" % c[0])
            return self.ev(e.body if c[1] else e.orelse)
        if isinstance(e, ast.Call) and isinstance(e.func, ast.Name) and e.func.id not in self.env:
            fn, a = e.func.id, e.args
            if fn == "isinstance" and len(a) == 2 and not e.keywords:
                x, k = self.ev(a[0]), self.ev(a[1])
                if x[0] == "arg" and k == ("cls",):
                    if self.test_arg not in (None, x[1]):
                        raise Untranslatable("__torch_function__ tests isinstance(., cls) on two different arguments")
                    self.test_arg = x[1]
                    return ("bool", self.inst)
                raise Untranslatable("__torch_function__: isinstance(%s, %s)" % (x[0], k[0]))
            if fn in ("tuple", "list") and len(a) == 1 and not e.keywords:
                v = self.ev(a[0])
                if v[0] == "args":
                    return v
                raise Untranslatable("__torch_function__: %s(%s)" % (fn, v[0]))
            if fn == "getattr" and len(a) == 2 and not e.keywords:
                c, m = self.ev(a[0]), self.ev(a[1])
                if c == ("cls",) and m[0] == "mname":
                    return ("method", m[1])
                raise Untranslatable("lookup is not getattr(cls, TABLE[func])")
            if fn == "all" and len(a) == 1 and not e.keywords and isinstance(a[0], ast.GeneratorExp):
                ge = a[0]
                if len(ge.generators) != 1 or ge.generators[0].ifs or self.ev(ge.generators[0].iter) != ("types",):
                    raise Untranslatable("types test generator")
                var, c = ge.generators[0].target, ge.elt
                if not (isinstance(c, ast.Call) and isinstance(c.func, ast.Name) and c.func.id == "issubclass" and len(c.args) == 2
                        and isinstance(c.args[0], ast.Name) and isinstance(var, ast.Name) and c.args[0].id == var.id
                        and isinstance(c.args[1], ast.Tuple)
                        and sorted(dotted(x) for x in c.args[1].elts) == ["LinearOperator", "torch.Tensor"]):
                    raise Untranslatable("types test is not issubclass(t, (torch.Tensor, LinearOperator))")
                return ("guardpos", [("types",)])
        raise Untranslatable("__torch_function__: expression %s" % ast.dump(e)[:120])

    # -- statements
    def raising_block(self, body):
        """only string building, ending in raise NotImplementedError"""
        if not body:
            raise Untranslatable("empty guard body")
        for st in body[:-1]:
            if not (isinstance(st, ast.Assign) and len(st.targets) == 1 and isinstance(st.targets[0], ast.Name)
                    and st.targets[0].id not in self.env):
                raise Untranslatable("statement in raising block: %s" % ast.dump(st)[:100])
        r = body[-1]
        exc = r.exc.func if isinstance(r, ast.Raise) and isinstance(r.exc, ast.Call) else (r.exc if isinstance(r, ast.Raise) else None)
        if not (isinstance(exc, ast.Name) and exc.id == "NotImplementedError"):
            raise Untranslatable("guard does not raise NotImplementedError")

    def run(self, body):
        """executes statements until the final call; every statement outside the recognised forms is rejected"""
        for k, st in enumerate(body):
            if self.result is not None:
                return               # this path has returned: the remaining statements are dead code on it
            if isinstance(st, ast.Assign) and len(st.targets) == 1:
                tgt = st.targets[0]
                v = self.ev(st.value)
                if isinstance(tgt, ast.Name):
                    if tgt.id in ("cls", "types") or tgt.id in TABLES:
                        raise Untranslatable("__torch_function__ assigns %s" % tgt.id)
                    if v[0] in ("guard", "guardpos", "kwargs_is_none", "emptydict", "none"):
                        raise Untranslatable("__torch_function__: %s stored in a variable" % v[0])
                    self.env[tgt.id] = v
                elif isinstance(tgt, ast.Tuple) and all(isinstance(x, ast.Name) for x in tgt.elts):
                    if v[0] != "args" or v[2] is not None or len(v[1]) != len(tgt.elts):
                        raise Untranslatable("__torch_function__: tuple unpacking of %s" % (v,))
                    for x, i in zip(tgt.elts, v[1]):
                        if x.id in ("cls", "types", "func", "args", "kwargs"):
                            raise Untranslatable("__torch_function__ assigns %s" % x.id)
                        self.env[x.id] = ("arg", i)
                else:
                    raise Untranslatable("__torch_function__: assignment target")
            elif isinstance(st, ast.If):
                c = self.ev(st.test)
                if c == ("kwargs_is_none",):
                    ok = (len(st.body) == 1 and isinstance(st.body[0], ast.Assign) and len(st.body[0].targets) == 1
                          and isinstance(st.body[0].targets[0], ast.Name) and st.body[0].targets[0].id == "kwargs"
                          and isinstance(st.body[0].value, ast.Dict) and not st.body[0].value.keys and not st.orelse)
                    if not ok or self.env.get("kwargs") != ("kwargs",):
                        raise Untranslatable("kwargs default")
                elif c[0] == "bool":
                    self.run(st.body if c[1] else st.orelse)
                elif c[0] == "guard":
                    self.raising_block(st.body)
                    for a in c[1]:
                        if a[0] == "member":
                            if self.member is not None:
                                raise Untranslatable("two membership tests")
                            self.member = a[1]
                        else:
                            self.types_check = True
                    if self.env.get("func") != ("func",):
                        raise Untranslatable("membership test after func was re-bound")
                    if st.orelse:
                        self.run(st.orelse)
                else:
                    raise Untranslatable("__torch_function__: if on %s" % c[0])
            elif isinstance(st, ast.Return) and isinstance(st.value, ast.Call):
                call = st.value
                f = self.ev(call.func)
                if f[0] != "method":
                    raise Untranslatable("branch does not end with a call of getattr(cls, TABLE[func])")
                av = self.ev(ast.Tuple(elts=call.args, ctx=ast.Load()))
                refs = ["(RArg %d)" % i for i in av[1]] + (["(RRest %d)" % av[2]] if av[2] is not None else [])
                kw = False
                for kx in call.keywords:
                    if kx.arg is None and self.ev(kx.value) == ("kwargs",):
                        kw = True
                    else:
                        raise Untranslatable("keyword in final call")
                self.result = (f[1], refs, kw)
            else:
                raise Untranslatable("__torch_function__: statement %s" % ast.dump(st)[:120])

    def branch(self):
        if self.result is None:
            raise Untranslatable("__torch_function__: a path does not end in return func(...)")
        if self.member is None:
            raise Untranslatable("branch without `func not in TABLE` test")
        lookup, refs, kw = self.result
        return "{| b_member := %s; b_types_check := %s; b_lookup := %s; b_call := %s; b_kwargs := %s |}" % (
            self.member, "true" if self.types_check else "false", lookup, clist(refs), "true" if kw else "false")


def tr_torch_function(fn):
    """__torch_function__ -> tf_prog by a small symbolic execution of its body, once under the assumption that
    isinstance(args[i], cls) holds and once that it does not (so the handler may be written as one if/else with two
    copies of the code, or with a selected table / re-built argument tuple / conditional expressions; everything outside
    the recognised statement and expression forms is rejected)"""
    if not any(isinstance(d, ast.Name) and d.id == "classmethod" for d in fn.decorator_list) or len(fn.decorator_list) != 1:
        raise Untranslatable("__torch_function__ must be a plain classmethod")
    if [a.arg for a in fn.args.args] != ["cls", "func", "types", "args", "kwargs"] or fn.args.vararg or fn.args.kwarg or fn.args.kwonlyargs:
        raise Untranslatable("__torch_function__ signature")
    body = strip_doc(fn.body)
    paths = []
    for inst in (True, False):
        p = _TfPath(inst)
        p.run(body)
        paths.append(p)
    idx = {p.test_arg for p in paths}
    if len(idx) != 1 or None in idx:
        raise Untranslatable("__torch_function__ does not test isinstance(args[i], cls) on every path")
    return "{| tf_test_arg := %d; tf_inst := %s;\n     tf_other := %s |}" % (idx.pop(), paths[0].branch(), paths[1].branch())


# ----------------------------------------------------------------------------------------------
# small delegating methods -> ex

BINOPS = {ast.Add: "BAdd", ast.Sub: "BSub", ast.Mult: "BMul", ast.Div: "BDiv", ast.MatMult: "BMatmul"}


class BodyTr:
    def __init__(self, fn):
        self.fn = fn
        a = fn.args
        if a.vararg or a.kwarg or a.kwonlyargs or a.posonlyargs:
            raise Untranslatable("signature of %s" % fn.name)
        self.params = [x.arg for x in a.args]
        if not self.params or self.params[0] != "self":
            raise Untranslatable("%s: first parameter is not self" % fn.name)
        nd = len(a.defaults)
        self.defaults = {}
        for p, d in zip(self.params[len(self.params) - nd:], a.defaults):
            self.defaults[p] = d
        # local variables are eliminated by substitution (every expression of the language is pure):
        # name -> translated ex / translated cond, as of the point of the assignment
        self.env = {}
        self.cenv = {}

    def num(self, e):
        if isinstance(e, ast.Constant) and isinstance(e.value, (int, float)) and not isinstance(e.value, bool):
            v = e.value
            if float(v) != int(v):
                raise Untranslatable("non-integer constant %r in %s" % (v, self.fn.name))
            return int(v)
        if isinstance(e, ast.UnaryOp) and isinstance(e.op, ast.USub):
            return -self.num(e.operand)
        raise Untranslatable("not a number")

    def ex(self, e):
        try:
            v = self.num(e)
            return "(ENum (%d)%%Z)" % v
        except Untranslatable:
            pass
        if isinstance(e, ast.Name):
            if e.id in self.env:
                return self.env[e.id]
            if e.id == "self":
                return "ESelf"
            if e.id in self.params:
                return "(EParam %s)" % cstr(e.id)
            raise Untranslatable("%s: free name %s" % (self.fn.name, e.id))
        if isinstance(e, ast.BinOp) and type(e.op) in BINOPS:
            return "(EBin %s %s %s)" % (BINOPS[type(e.op)], self.ex(e.left), self.ex(e.right))
        if isinstance(e, ast.Attribute) and e.attr == "mT":
            return "(EMT %s)" % self.ex(e.value)
        if isinstance(e, ast.Call):
            f = e.func
            if isinstance(f, ast.Name) and f.id == "to_dense" and len(e.args) == 1 and not e.keywords:
                return "(EToDense %s)" % self.ex(e.args[0])
            if isinstance(f, ast.Attribute) and isinstance(f.value, ast.Name) and f.value.id == "torch":
                return "(ETorch %s %s %s)" % (cstr("torch." + f.attr), clist([self.ex(a) for a in e.args]), self.kws(e.keywords))
            if isinstance(f, ast.Attribute):
                return "(ECall %s %s %s %s)" % (self.ex(f.value), cstr(f.attr), clist([self.ex(a) for a in e.args]), self.kws(e.keywords))
        raise Untranslatable("%s: expression %s" % (self.fn.name, ast.dump(e)[:100]))

    def kws(self, keywords):
        out = []
        for k in keywords:
            if k.arg is None:
                raise Untranslatable("%s: **kwargs in call" % self.fn.name)
            out.append("(%s, %s)" % (cstr(k.arg), self.ex(k.value)))
        return clist(out)

    def cond(self, t):
        if isinstance(t, ast.Name) and t.id in self.cenv:
            return self.cenv[t.id]
        if isinstance(t, ast.UnaryOp) and isinstance(t.op, ast.Not):
            return "(CNot %s)" % self.cond(t.operand)
        for n in ast.walk(t):
            if isinstance(n, ast.Name) and n.id in self.env:
                raise Untranslatable("%s: condition on the re-assigned name %s" % (self.fn.name, n.id))
        # alpha is None
        if isinstance(t, ast.Compare) and len(t.ops) == 1 and isinstance(t.left, ast.Name) and t.left.id in self.params \
                and isinstance(t.comparators[0], ast.Constant) and t.comparators[0].value is None:
            if isinstance(t.ops[0], ast.Is):
                return "(CIsNone %s)" % cstr(t.left.id)
            if isinstance(t.ops[0], ast.IsNot):
                return "(CNot (CIsNone %s))" % cstr(t.left.id)
        # other.ndim == 1
        if isinstance(t, ast.Compare) and len(t.ops) == 1 and isinstance(t.ops[0], ast.Eq) and isinstance(t.left, ast.Attribute) \
                and t.left.attr == "ndim" and isinstance(t.left.value, ast.Name) and t.left.value.id in self.params \
                and isinstance(t.comparators[0], ast.Constant) and isinstance(t.comparators[0].value, int):
            return "(CNdimEq %s %d)" % (cstr(t.left.value.id), t.comparators[0].value)
        # isinstance(other, ZeroLinearOperator)
        if isinstance(t, ast.Call) and isinstance(t.func, ast.Name) and t.func.id == "isinstance" and len(t.args) == 2 \
                and isinstance(t.args[0], ast.Name) and t.args[0].id in self.params and isinstance(t.args[1], ast.Name):
            return "(CIsInstance %s %s)" % (cstr(t.args[0].id), cstr(t.args[1].id))
        raise Untranslatable("%s: condition %s" % (self.fn.name, ast.dump(t)[:100]))

    def stmts(self, body):
        body = [s for s in body if not isinstance(s, (ast.ImportFrom, ast.Import))]
        if not body:
            raise Untranslatable("%s: falls off the end (returns None)" % self.fn.name)
        s, rest = body[0], body[1:]
        if isinstance(s, ast.Return):
            if s.value is None:
                raise Untranslatable("%s: bare return" % self.fn.name)
            if isinstance(s.value, ast.IfExp):
                v = s.value
                return "(SIf %s %s %s)" % (self.cond(v.test), self.stmts([ast.Return(value=v.body)]), self.stmts([ast.Return(value=v.orelse)]))
            return "(SReturn %s)" % self.ex(s.value)
        if isinstance(s, ast.Assign) and len(s.targets) == 1 and isinstance(s.targets[0], ast.Name) and s.targets[0].id != "self":
            nm = s.targets[0].id
            saved = (dict(self.env), dict(self.cenv))
            try:
                try:
                    c = self.cond(s.value)
                    self.cenv[nm] = c
                    self.env.pop(nm, None)
                    if nm in self.params:
                        raise Untranslatable("%s: parameter %s re-bound to a condition" % (self.fn.name, nm))
                except Untranslatable:
                    self.env[nm] = self.ex(s.value)
                    self.cenv.pop(nm, None)
                return self.stmts(rest)
            finally:
                self.env, self.cenv = saved
        if isinstance(s, ast.Raise):
            e = s.exc.func if isinstance(s.exc, ast.Call) else s.exc
            if not isinstance(e, ast.Name):
                raise Untranslatable("%s: raise" % self.fn.name)
            return "(SRaise %s)" % cstr(e.id)
        if isinstance(s, ast.If):
            c = self.cond(s.test)
            # (assignments made inside a branch are undone when its translation returns: see Assign above)
            th = self.stmts(s.body + ([] if self.ends(s.body) else rest))
            el = self.stmts((s.orelse if s.orelse else []) + ([] if (s.orelse and self.ends(s.orelse)) else rest))
            return "(SIf %s %s %s)" % (c, th, el)
        if isinstance(s, ast.Expr) and isinstance(s.value, ast.Call) and dotted(s.value.func) == "warnings.warn":
            return self.stmts(rest)   # a warning is not an observable of the property
        raise Untranslatable("%s: statement %s" % (self.fn.name, ast.dump(s)[:100]))

    @staticmethod
    def ends(body):
        return bool(body) and isinstance(body[-1], (ast.Return, ast.Raise))

    def translate(self):
        body = self.stmts(strip_doc(self.fn.body))
        params = []
        for p in self.params[1:]:
            d = self.defaults.get(p)
            if d is None:
                params.append("(%s, DRequired)" % cstr(p))
            elif isinstance(d, ast.Constant) and d.value is None:
                params.append("(%s, DNone)" % cstr(p))
            elif isinstance(d, ast.Constant) and isinstance(d.value, bool):
                params.append("(%s, DBool %s)" % (cstr(p), "true" if d.value else "false"))
            elif isinstance(d, ast.Constant) and isinstance(d.value, (int, float)):
                # decimal literal kept as text (rtol / atol of isclose): compared, never evaluated in Coq
                params.append("(%s, DLit %s)" % (cstr(p), cstr(repr(d.value))))
            else:
                raise Untranslatable("%s: default of %s" % (self.fn.name, p))
        return "{| m_params := %s;\n       m_body := %s |}" % (clist(params), body)


# ----------------------------------------------------------------------------------------------
# per-module class scan (AST)

def scan_classes(tree):
    out = {}
    for node in tree.body:
        if isinstance(node, ast.ClassDef):
            meths = {}
            for st in node.body:
                if isinstance(st, (ast.FunctionDef, ast.AsyncFunctionDef)):
                    decs = []
                    for d in st.decorator_list:
                        try:
                            decs.append(dotted(d.func if isinstance(d, ast.Call) else d))
                        except Untranslatable:
                            decs.append("?")
                    kind = "MStub" if is_stub(st) else "MFun"
                    if any(x in ("property", "cached_property", "functools.cached_property") or x.endswith(".setter") for x in decs):
                        kind = "MOther"
                    if st.name in meths and meths[st.name][0] != kind:
                        kind = "MOther" if "MOther" in (kind, meths[st.name][0]) else kind
                    meths[st.name] = (kind, decs, st)
                elif isinstance(st, ast.Assign):
                    for t in st.targets:
                        if isinstance(t, ast.Name):
                            meths[t.id] = ("MOther", [], st)
            out[node.name] = (node, meths)
    return out


# ----------------------------------------------------------------------------------------------

def import_package(repo):
    """import linear_operator from `repo` (must be the first hit on sys.path)"""
    if repo not in sys.path:
        sys.path.insert(0, repo)
    import linear_operator
    got = os.path.realpath(os.path.dirname(os.path.dirname(linear_operator.__file__)))
    if got != os.path.realpath(repo):
        raise Untranslatable("linear_operator imported from %s, expected %s (run through ./check, which sets PYTHONPATH)" % (got, repo))
    import linear_operator.operators as O
    for m in pkgutil.iter_modules(O.__path__):
        if m.name == "keops_linear_operator":
            pass
        importlib.import_module("linear_operator.operators." + m.name)
    return linear_operator, O


def all_subclasses(root):
    seen, todo = [], [root]
    while todo:
        c = todo.pop(0)
        if c in seen:
            continue
        seen.append(c)
        todo += sorted(c.__subclasses__(), key=lambda k: (k.__module__, k.__qualname__))
    return seen


def measure_tensor_binops():
    """which torch function do Tensor's binary dunders hand to __torch_function__ (running torch)"""
    import operator
    import torch
    log = []

    class Probe:
        @classmethod
        def __torch_function__(cls, func, types, args=(), kwargs=None):
            log.append((func, types, args))
            return 0
    names = {}
    for k in sorted(dir(torch.Tensor)):
        if k.startswith("__") and k not in ("__rsub__", "__rmatmul__", "__rtruediv__"):
            continue
        try:
            names.setdefault(id(getattr(torch.Tensor, k)), "torch.Tensor." + k)
        except Exception:
            pass
    out = []
    t = torch.ones(2, 2)
    for tag, op in [("BAdd", operator.add), ("BSub", operator.sub), ("BMul", operator.mul), ("BDiv", operator.truediv),
                    ("BMatmul", operator.matmul)]:
        del log[:]
        p = Probe()
        op(t, p)
        if len(log) != 1:
            raise Untranslatable("Tensor %s probe: %d dispatches" % (tag, len(log)))
        f, types, args = log[0]
        if id(f) not in names or tuple(types) != (Probe,) or len(args) != 2 or args[0] is not t or args[1] is not p:
            raise Untranslatable("Tensor %s probe: unexpected dispatch %r %r" % (tag, f, types))
        out.append((tag, names[id(f)]))
    return out


def translate(repo, extra_classes=()):
    """extra_classes: user subclasses of LinearOperator defined by the harness (e.g. opbuild's UserMinimal);
    they are added to the class list with their runtime MRO and __dict__ (no source cross-check)."""
    src_path = os.path.join(repo, ROOT_FILE)
    tree = ast.parse(open(src_path).read())
    meta = {"repo": repo}

    # ---- tables are created empty and written only by the decorators
    creates = {}
    for node in tree.body:
        if isinstance(node, ast.Assign):
            for t in node.targets:
                if isinstance(t, ast.Name) and t.id in TABLES:
                    if not (isinstance(node.value, ast.Dict) and not node.value.keys) or t.id in creates:
                        raise Untranslatable("%s is not created exactly once as {}" % t.id)
                    creates[t.id] = node.lineno
        elif isinstance(node, (ast.AugAssign, ast.AnnAssign)) and isinstance(node.target, ast.Name) and node.target.id in TABLES:
            raise Untranslatable("table %s assigned by aug/ann assignment" % node.target.id)
    if set(creates) != set(TABLES):
        raise Untranslatable("tables not found: %s" % sorted(set(TABLES) - set(creates)))
    decos = {}
    for node in tree.body:
        if isinstance(node, ast.FunctionDef) and node.name.startswith("_implements"):
            decos[node.name] = classify_decorator(node)
    if not decos:
        raise Untranslatable("no registration decorators found")
    tr = TableRefs()
    tr.visit(tree)
    for name, stack, ctx, line in tr.refs:
        if not stack:
            if ctx == "Store" and creates.get(name) == line:
                continue
            raise Untranslatable("module-level use of %s at line %d" % (name, line))
        if stack[0] in decos or stack == (ROOT, "__torch_function__"):
            continue
        raise Untranslatable("%s is used in %s (line %d), outside the decorators and __torch_function__" % (name, ".".join(stack), line))

    # ---- registrations on the root class
    classes_root = scan_classes(tree)
    if ROOT not in classes_root:
        raise Untranslatable("class %s not found" % ROOT)
    rootnode, rootmeths = classes_root[ROOT]
    first, second = {}, {}
    regs = []
    for node in ast.walk(tree):
        if isinstance(node, (ast.FunctionDef, ast.ClassDef)):
            for d in node.decorator_list:
                nm = None
                try:
                    nm = dotted(d.func if isinstance(d, ast.Call) else d)
                except Untranslatable:
                    pass
                if nm in decos and not (isinstance(node, ast.FunctionDef) and node in rootnode.body):
                    raise Untranslatable("registration decorator used outside class %s (on %s)" % (ROOT, node.name))
    for st in rootnode.body:
        if not isinstance(st, ast.FunctionDef):
            continue
        for d in reversed(st.decorator_list):      # applied bottom-up
            if isinstance(d, ast.Call) and isinstance(d.func, ast.Name) and d.func.id in decos:
                if len(d.args) != 1 or d.keywords:
                    raise Untranslatable("registration on %s" % st.name)
                fname = dotted(d.args[0])
                if not fname.startswith("torch."):
                    raise Untranslatable("registered function %s is not a torch.* name" % fname)
                regs.append((d.func.id, fname, st.name))
                for tb in decos[d.func.id]:
                    (first if tb == "First" else second)[fname] = st.name
            elif isinstance(d, ast.Name) and d.id in decos:
                raise Untranslatable("bare registration decorator on %s" % st.name)
    # a method name registered must be the *last* definition of that name in the class body (func.__name__)
    meta["registrations"] = regs

    # ---- __torch_function__
    if "__torch_function__" not in rootmeths:
        raise Untranslatable("__torch_function__ not defined on %s" % ROOT)
    tf = tr_torch_function(rootmeths["__torch_function__"][2])

    # ---- the imported package
    lo, O = import_package(repo)
    import torch
    L = importlib.import_module("linear_operator.operators._linear_operator")
    rt_first, rt_second = L._HANDLED_FUNCTIONS, L._HANDLED_SECOND_ARG_FUNCTIONS

    def resolve(name):
        obj = torch
        parts = name.split(".")
        if parts[0] != "torch":
            raise Untranslatable("cannot resolve %s" % name)
        for p in parts[1:]:
            if not hasattr(obj, p):
                raise Untranslatable("torch has no %s" % name)
            obj = getattr(obj, p)
        return obj
    for tab, rt, label in ((first, rt_first, "first"), (second, rt_second, "second")):
        objs = {}
        for fname, m in tab.items():
            o = resolve(fname)
            if o in objs:
                raise Untranslatable("%s and %s are the same function object" % (fname, objs[o]))
            objs[o] = fname
            if rt.get(o) != m:
                raise Untranslatable("runtime %s table maps %s to %r, source says %r" % (label, fname, rt.get(o), m))
        if len(rt) != len(tab):
            extra = [getattr(k, "__name__", repr(k)) for k in rt if k not in objs]
            raise Untranslatable("runtime %s table has entries not found in the source: %s" % (label, extra))

    # ---- class hierarchy
    root_cls = L.LinearOperator
    subs = all_subclasses(root_cls)
    lib = [c for c in subs if c.__module__.startswith("linear_operator.")]
    extra = [c for c in extra_classes if c not in lib]
    for c in extra:
        if not issubclass(c, root_cls):
            raise Untranslatable("extra class %s is not a LinearOperator" % c.__name__)
    lib = lib + extra
    names = [c.__name__ for c in lib]
    if len(set(names)) != len(names):
        raise Untranslatable("two library classes share a name")
    relevant = sorted(set(first.values()) | set(second.values()) | set(DUNDERS) | set(SPECIAL) | set(BODY_METHODS) | set(PRIMITIVE)
                      | set(OPTIONAL_BODY_METHODS))
    # AST of every operator module
    ast_classes = dict(classes_root)
    opdir = os.path.join(repo, "linear_operator", "operators")
    for fn_ in sorted(os.listdir(opdir)):
        if fn_.endswith(".py") and fn_ != "_linear_operator.py":
            t2 = ast.parse(open(os.path.join(opdir, fn_)).read())
            for node in ast.walk(t2):
                if isinstance(node, ast.Name) and (node.id in TABLES or node.id.startswith("_implements")):
                    raise Untranslatable("%s refers to %s" % (fn_, node.id))
                if isinstance(node, ast.Attribute) and (node.attr in TABLES or node.attr.startswith("_implements")):
                    raise Untranslatable("%s refers to %s" % (fn_, node.attr))
            for k, v in scan_classes(t2).items():
                if k in ast_classes:
                    raise Untranslatable("class %s defined twice" % k)
                ast_classes[k] = v
    mro_names = {}
    defines = {}
    helper_classes = []
    for c in lib:
        mro = [k for k in c.__mro__ if k is not object]
        for k in mro:
            if not k.__module__.startswith("linear_operator.") and k not in extra:
                raise Untranslatable("class %s has a base outside the library: %s" % (c.__name__, k))
            if k not in lib and k not in helper_classes:
                helper_classes.append(k)
        mro_names[c.__name__] = [k.__name__ for k in mro]
    for c in lib + helper_classes:
        if c in extra:
            # harness-defined user subclass: runtime __dict__ only
            ds = []
            for nm in relevant:
                if nm in c.__dict__:
                    v = c.__dict__[nm]
                    ds.append((nm, "MFun" if (callable(v) and not isinstance(v, (classmethod, staticmethod))) else "MOther"))
            defines[c.__name__] = ds
            for nm in SPECIAL:
                if nm in c.__dict__:
                    raise Untranslatable("%s overrides %s" % (c.__name__, nm))
            continue
        if c.__name__ not in ast_classes:
            raise Untranslatable("class %s not found in the operator sources" % c.__name__)
        node, meths = ast_classes[c.__name__]
        ds = []
        for nm in relevant:
            in_rt = nm in c.__dict__
            in_ast = nm in meths
            if in_rt != in_ast:
                raise Untranslatable("%s.%s: runtime class dict and source disagree (%s vs %s)" % (c.__name__, nm, in_rt, in_ast))
            if in_rt:
                kind = meths[nm][0]
                v = c.__dict__[nm]
                if kind != "MOther" and not callable(v) and not isinstance(v, (classmethod, staticmethod)):
                    kind = "MOther"
                if isinstance(v, (classmethod, staticmethod)) and nm != "__torch_function__":
                    kind = "MOther"
                ds.append((nm, kind))
        defines[c.__name__] = ds
        if c is not root_cls:
            for nm in SPECIAL:
                if nm in c.__dict__:
                    raise Untranslatable("%s overrides %s" % (c.__name__, nm))
    for c in helper_classes:
        mro_names.setdefault(c.__name__, [k.__name__ for k in c.__mro__ if k is not object])
    for nm in ("__getattr__", "__getattribute__"):
        if nm in root_cls.__dict__:
            raise Untranslatable("%s defines %s" % (ROOT, nm))
    # metaclass must be `type` (no class-level attribute hooks)
    import abc
    for c in lib:
        for mc in type(c).__mro__:
            if mc in (type, abc.ABCMeta, object):
                continue
            for nm in list(relevant) + ["__getattr__", "__getattribute__", "__instancecheck__", "__subclasscheck__"]:
                if nm in mc.__dict__:
                    raise Untranslatable("metaclass %s of %s defines %s" % (mc.__name__, c.__name__, nm))

    # ---- bodies
    bodies = []
    for m in BODY_METHODS:
        if m not in rootmeths or rootmeths[m][0] == "MOther":
            raise Untranslatable("root method %s missing" % m)
        bodies.append((m, BodyTr(rootmeths[m][2]).translate()))
    for m in OPTIONAL_BODY_METHODS:
        if m in rootmeths and rootmeths[m][0] == "MFun":
            bodies.append((m, BodyTr(rootmeths[m][2]).translate()))
    for m in PRIMITIVE:
        if m not in rootmeths or rootmeths[m][0] != "MFun":
            raise Untranslatable("primitive root method %s missing or a stub" % m)

    binops = measure_tensor_binops()

    # ---- emit
    out = []
    out.append("(* GENERATED by harness/c15_tables.py from linear_operator/operators/ -- do not edit *)")
    out.append("From Coq Require Import List String ZArith.\nImport ListNotations.\nRequire Import C15.Model.\nOpen Scope string_scope.\n")
    out.append("Definition gen_first : list (string * string) :=\n  %s.\n" % clist(["(%s, %s)" % (cstr(f), cstr(m)) for f, m in first.items()]).replace("; (", ";\n   ("))
    out.append("Definition gen_second : list (string * string) :=\n  %s.\n" % clist(["(%s, %s)" % (cstr(f), cstr(m)) for f, m in second.items()]).replace("; (", ";\n   ("))
    cl = []
    for c in lib + helper_classes:
        cl.append("(%s, %s)" % (cstr(c.__name__), clist([cstr(x) for x in mro_names[c.__name__]])))
    out.append("(* class -> linearised MRO (the class itself first; `object` dropped) *)\nDefinition gen_classes : list (string * list string) :=\n  [%s].\n" % ";\n   ".join(cl))
    out.append("(* the operator classes (subclasses of %s); the remaining entries of gen_classes are mix-ins *)\nDefinition gen_operator_classes : list string :=\n  %s.\n" % (ROOT, clist([cstr(c.__name__) for c in lib])))
    dl = []
    for c in lib + helper_classes:
        dl.append("(%s, %s)" % (cstr(c.__name__), clist(["(%s, %s)" % (cstr(n), k) for n, k in defines[c.__name__]])))
    out.append("(* class -> relevant names found in the class's own __dict__ *)\nDefinition gen_defines : list (string * list (string * mkind)) :=\n  [%s].\n" % ";\n   ".join(dl))
    out.append("Definition gen_tf : tf_prog :=\n  %s.\n" % tf)
    out.append("Definition gen_tensor_binop : list (binop * string) :=\n  %s.\n" % clist(["(%s, %s)" % (t, cstr(f)) for t, f in binops]))
    out.append("Definition gen_bodies : list (string * mdef) :=\n  [%s].\n" % ";\n   ".join("(%s,\n    %s)" % (cstr(m), b) for m, b in bodies))
    out.append("Definition W : world :=\n  {| w_first := gen_first; w_second := gen_second; w_classes := gen_classes; w_opclasses := gen_operator_classes;\n"
               "     w_defines := gen_defines; w_root := %s; w_tf := gen_tf; w_tensor_binop := gen_tensor_binop; w_bodies := gen_bodies |}.\n" % cstr(ROOT))
    meta.update({
        "first": first, "second": second, "classes": {c.__name__: mro_names[c.__name__] for c in lib},
        "helpers": [c.__name__ for c in helper_classes], "extra": [c.__name__ for c in extra],
        "relevant": relevant,
        "defines": {k: [list(x) for x in v] for k, v in defines.items()}, "binops": binops, "decorators": decos,
        "body_methods": BODY_METHODS,
    })
    return "\n".join(out), meta


# ----------------------------------------------------------------------------------------------
# introspection only (no AST): what the failing-input search uses when the source cannot be translated

def torch_function_names():
    """function object id -> dotted torch name, for every overridable function (and the names the property uses)"""
    import torch
    import torch.overrides as TO
    names = {}

    def walk(name):
        obj = torch
        for p in name.split(".")[1:]:
            obj = getattr(obj, p, None)
            if obj is None:
                return None
        return obj
    for ns, fs in TO.get_overridable_functions().items():
        for f in fs:
            try:
                nm = TO.resolve_name(f)
            except Exception:          # noqa
                nm = None
            cands = [nm] if nm else []
            base = getattr(f, "__name__", None)
            if base:
                cands += [pre + base for pre in ("torch.", "torch.linalg.", "torch.Tensor.", "torch.special.", "torch.fft.", "torch.nn.functional.")]
                cands += ["torch.linalg." + base.replace("linalg_", "")]
            for c in cands:
                if c and c.startswith("torch.") and '"' not in c and walk(c) is f:
                    names.setdefault(id(f), (c, f))
                    break
    return names


def runtime_tables(L):
    """the two registration tables of the imported module as {dotted name: method name}; found by their names, else
    by shape (module-level dicts from callables to strings).  Returns (first, second, notes) or None."""
    notes = []
    cand = {}
    for nm in TABLES:
        v = getattr(L, nm, None)
        if isinstance(v, dict):
            cand[TABLES[nm]] = v
    if len(cand) < 2:
        for nm, v in sorted(vars(L).items()):
            if isinstance(v, dict) and v and all(callable(k) for k in v) and all(isinstance(x, str) for x in v.values()):
                which = "Second" if ("SECOND" in nm.upper() or "REVERSE" in nm.upper()) else "First"
                if which not in cand:
                    cand[which] = v
                    notes.append("table %s found under the name %s" % (which, nm))
    if "First" not in cand:
        return None
    names = torch_function_names()
    out = []
    for which in ("First", "Second"):
        tab = {}
        for f, m in cand.get(which, {}).items():
            if id(f) in names and isinstance(m, str):
                tab[names[id(f)][0]] = m
            else:
                notes.append("%s table: entry %r -> %r has no resolvable torch name" % (which, getattr(f, "__name__", f), m))
        out.append(tab)
    return out[0], out[1], notes


def introspect(repo, extra_classes=(), last_good=None):
    """the part of `translate`'s meta the correspondence harness needs, from the imported package only"""
    lo, O = import_package(repo)
    L = importlib.import_module("linear_operator.operators._linear_operator")
    rt = runtime_tables(L)
    notes = []
    if rt is None:
        if not last_good:
            raise Untranslatable("registration tables not found in the imported module and no earlier tables available")
        first, second = dict(last_good["first"]), dict(last_good["second"])
        notes.append("tables taken from the last successful translation")
    else:
        first, second, notes = rt
    root_cls = L.LinearOperator
    lib = [c for c in all_subclasses(root_cls) if c.__module__.startswith("linear_operator.")]
    lib += [c for c in extra_classes if c not in lib]
    helper = []
    mro_names = {}
    for c in lib:
        mro = [k for k in c.__mro__ if k is not object]
        for k in mro:
            if k not in lib and k not in helper:
                helper.append(k)
        mro_names[c.__name__] = [k.__name__ for k in mro]
    relevant = sorted(set(first.values()) | set(second.values()) | set(DUNDERS) | set(SPECIAL) | set(BODY_METHODS) | set(PRIMITIVE)
                      | set(OPTIONAL_BODY_METHODS))
    defines = {}
    for c in lib + helper:
        defines[c.__name__] = [[nm, "MFun" if callable(c.__dict__[nm]) else "MOther"] for nm in relevant if nm in c.__dict__]
    return {"repo": repo, "first": first, "second": second, "classes": {c.__name__: mro_names[c.__name__] for c in lib},
            "helpers": [c.__name__ for c in helper], "extra": [c.__name__ for c in extra_classes], "relevant": relevant,
            "defines": defines, "introspected": True, "notes": notes}


if __name__ == "__main__":
    code, meta = translate(os.environ.get("VERIF_REPO", "/repo"))
    print(code)
