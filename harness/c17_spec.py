"""C17 — the independent side of the check: nothing in this module looks at the translated model.

* `Spec`      : small executable reference of the SPECIFICATION of settings contexts (mirror of spec_enter /
                spec_composite_args / the stack discipline of coq/C17/Generic.v + Laws.v): entering a context puts
                exactly the constructor's arguments in force (dtype contexts: only the slots that were given;
                composites: the documented argument of every part), every other observer of every class keeps its
                value, constructing changes nothing, and an exit re-instates the observations in force immediately
                before the matching enter.  It yields the expected value of EVERY observer of EVERY class after
                every event of a well-nested history.
* `introspect_meta` : class table obtained by importing the real modules (used when the translator rejects the
                source, so that the failing-input search does not depend on the translator or on an old gen/ file)
* family grids: structured, deterministic enumeration of histories (enter/exit skeletons x placement of the
                constructions x argument cells); the seed only picks the values
* `shrink`    : reduces a failing history to a locally minimal one
"""
import itertools

# documented meaning of the composite constructors' arguments (mirror of spec_composite_args in coq/C17/Laws.v)
COMP_SPEC = {
    "fast_computations": lambda a: [("_fast_covar_root_decomposition", [a[0]]), ("_fast_log_prob", [a[1]]), ("_fast_solves", [a[2]])],
    "linalg_dtypes": lambda a: [("_linalg_dtype_symeig", [a[1] if a[1] is not None else a[0]]),
                                ("_linalg_dtype_cholesky", [a[2] if a[2] is not None else a[0]])],
}
COMP_NPARAMS = {"fast_computations": 3, "linalg_dtypes": 3}
SLOT_ATTRS = ["_state", "_global_value", "_global_float_value", "_global_double_value", "_global_half_value"]
DT_NAMES = ["float_value", "double_value", "half_value"]


# ----------------------------------------------------------------------------------------
# class table without the translator

def introspect_meta(S, B, torch):
    """meta (same layout as settings_tr's) from the imported modules: every class of settings / beta_features
    that has __enter__/__exit__; kind from the slot attribute it carries; composites = context classes without
    a slot attribute.  Base classes (those that have a subclass in the table) are left out, as in the translator."""
    found = {}
    for mod in (S, B):
        for name, k in vars(mod).items():
            if isinstance(k, type) and hasattr(k, "__enter__") and hasattr(k, "__exit__") and \
                    k.__module__ in (S.__name__, B.__name__):
                found.setdefault(name, k)
    # left out: only the framework bases (classes that are subclassed AND define __enter__ themselves); a concrete
    # setting that happens to have a subclass (e.g. a private _linalg_dtype_* class) stays in the table
    bases = {b.__name__ for k in found.values() for b in k.__mro__[1:] if "__enter__" in vars(b)}
    prim, comp, kinds = [], [], {}
    for name, k in sorted(found.items()):
        if name in bases:
            continue
        if hasattr(k, "_state") and hasattr(k, "on"):
            kinds[name] = "KFlag"
        elif hasattr(k, "_global_float_value"):
            kinds[name] = "KDtype"
        elif hasattr(k, "_global_value"):
            kinds[name] = "KValue"
        else:
            comp.append(name)
            continue
        prim.append(name)
    observers = {c: {"KFlag": ["on", "off"], "KValue": ["value"], "KDtype": ["value_float", "value_double", "value_half"]}[kinds[c]]
                 for c in prim}
    consts = ["0"]                       # token 0 is reserved for numeric zero (see settings_tr.Translator.tok)
    for c in prim:
        k = found[c]
        for a in SLOT_ATTRS:
            v = getattr(k, a, None)
            if v is None or isinstance(v, bool):
                continue
            r = canon_repr(v, torch)
            if r not in consts:
                consts.append(r)
    for r in ("torch.float", "torch.double", "torch.half"):
        if r not in consts:
            consts.append(r)
    comp_info = {}
    for c in list(comp):
        if c not in COMP_SPEC:
            comp.remove(c)          # an unknown composite: no documented meaning to check it against
            continue
        parts = [[None, p[0]] for p in COMP_SPEC[c]([None] * COMP_NPARAMS[c])]
        if any(p[1] not in prim for p in parts):
            comp.remove(c)
            continue
        comp_info[c] = {"params": ["p%d" % i for i in range(COMP_NPARAMS[c])], "parts": parts}
    return {"prim": prim, "comp": comp, "kinds": kinds, "observers": observers, "consts": consts,
            "comp_info": comp_info, "resets": {}, "introspected": True}


def canon_repr(v, torch=None):
    """canonical text of a setting value: numbers by value (0, 0.0, -0.0 -> '0'; 1 and 1.0 -> '1'), dtypes by name"""
    if torch is not None and isinstance(v, torch.dtype):
        return {torch.float: "torch.float", torch.double: "torch.double", torch.half: "torch.half"}.get(v, repr(v))
    if isinstance(v, (int, float)) and not isinstance(v, bool):
        if v == 0:
            return "0"
        if float(v) == int(v) and abs(v) < 2 ** 53:
            return repr(int(v))
    return repr(v)


# ----------------------------------------------------------------------------------------
# the reference specification

class Spec:
    def __init__(self, meta, base_obs, enc):
        """base_obs[i] = observers of class meta['prim'][i] in the initial state (measured on the real classes:
        defaults are data, not part of the property); enc(arg) = encoded observation of a value passed as argument"""
        self.meta, self.base, self.enc = meta, base_obs, enc
        self.idx = {c: i for i, c in enumerate(meta["prim"])}

    def parts_of(self, k, args):
        if k in self.idx:
            return [(k, args)]
        if k in COMP_SPEC and len(args) == COMP_NPARAMS[k]:
            ps = COMP_SPEC[k](args)
            if all(p[0] in self.idx for p in ps):
                return ps
        return None

    def apply_enter(self, cur, k, args):
        """cur: dict class index -> observer list (absent = base).  Returns the new dict or None (no spec)."""
        ps = self.parts_of(k, args)
        if ps is None:
            return None
        new = dict(cur)
        for pk, pargs in ps:
            i = self.idx[pk]
            kind = self.meta["kinds"][pk]
            old = new.get(i, self.base[i])
            if kind == "KFlag":
                if not isinstance(pargs[0], bool):
                    return None
                o = [pargs[0], not pargs[0]]
            elif kind == "KValue":
                o = [self.enc(pargs[0])]
            else:
                o = [self.enc(pargs[j]) if pargs[j] is not None else old[j] for j in range(3)]
            if o == self.base[i]:
                new.pop(i, None)
            else:
                new[i] = o
        return new

    def run(self, hist, obs=None):
        """expected sparse observation after every event; the list ends before the first event that is not
        covered by the specification (exit that does not match the innermost open enter, unknown class).
        obs (the implementation's run) only tells which constructions / enters RAISED ('err') and which events
        were therefore not executed ('skip'): such events leave everything as it is and open no block."""
        cur, stack, objs, out = {}, [], [], []
        for j, e in enumerate(hist):
            tag = obs[j][0] if (obs is not None and j < len(obs)) else "ok"
            if e[0] == "new":
                objs.append((e[1], e[2]))
            elif tag in ("err", "skip"):
                pass
            elif e[0] == "enter":
                if e[1] >= len(objs):
                    break
                nxt = self.apply_enter(cur, *objs[e[1]])
                if nxt is None:
                    break
                stack.append((e[1], cur))
                cur = nxt
            else:
                if not stack or stack[-1][0] != e[1]:
                    break
                cur = stack.pop()[1]
            out.append(sorted(cur.items()))
        return out


def invalid_args(args):
    """argument patterns a validating setter may legitimately refuse: a negative number among the arguments"""
    return any(isinstance(a, (int, float)) and not isinstance(a, bool) and a < 0 for a in args)


def touched(meta, k):
    if k in meta["prim"]:
        return [k]
    if k in COMP_SPEC:
        return [p[0] for p in COMP_SPEC[k]([None] * COMP_NPARAMS[k])]
    return [p[1] for p in meta.get("comp_info", {}).get(k, {}).get("parts", [])]


def spec_failure(meta, spec, hist, obs):
    """compare the implementation's observations with the reference specification.
    returns None or (category, event index, text)"""
    exp = spec.run(hist, obs)
    objk, obja = [], []
    for j, e in enumerate(hist):
        if e[0] == "new":
            objk.append(e[1])
            obja.append(e[2])
        if j >= len(exp) or j >= len(obs):
            return None
        o = obs[j]
        k = e[1] if e[0] == "new" else (objk[e[1]] if e[1] < len(objk) else "?")
        if o[0] == "err":
            args = e[2] if e[0] == "new" else (obja[e[1]] if e[1] < len(obja) else [])
            if e[0] in ("new", "enter") and invalid_args(args) and len(o) > 2:
                # a refused construction / enter is legitimate for such arguments, but it must be all-or-nothing
                if dict(o[2]) != dict(exp[j]):
                    got, want = dict(o[2]), dict(exp[j])
                    i = next(i for i in sorted(set(got) | set(want)) if got.get(i, spec.base[i]) != want.get(i, spec.base[i]))
                    c = meta["prim"][i]
                    return ("failed-enter-changes-settings", j,
                            "event %d: %s of %s%s raised %s, but afterwards observers %s of %s report %s instead of %s (a refused "
                            "%s must leave every setting as it was)" % (j, e[0], k, tuple(args), o[1], "/".join(meta["observers"][c]), c,
                                                                        show(meta, got.get(i, spec.base[i])), show(meta, want.get(i, spec.base[i])), e[0]))
                continue
            return ("raises", j, "event %d %s on %s raised %s (construct/enter/exit of a well-nested history must not fail)" % (j, e[0], k, o[1]))
        if o[0] == "skip":
            if dict(o[1]) != dict(exp[j]):
                return ("failed-enter-changes-settings", j, "event %d (not executed: its enter was refused) finds settings %s instead of %s" % (j, o[1], exp[j]))
            continue
        if o[2]:
            return ("swallows-exception", j, "event %d: %s.__exit__ returned a true value (the exception of the with-block would be swallowed)" % (j, k))
        if len(o) > 3 and o[3]:
            return ("stale-probe-cache", j, "event %d %s on %s: deterministic_probes.probe_vectors filled under an earlier state of the flag "
                                            "is still in place after the state was set again" % (j, e[0], k))
        got, want = dict(o[1]), dict(exp[j])
        if got != want:
            for i in sorted(set(got) | set(want)):
                g, w = got.get(i, spec.base[i]), want.get(i, spec.base[i])
                if g != w:
                    c = meta["prim"][i]
                    own = c in touched(meta, k)
                    if e[0] == "new":
                        cat = "construct-changes-settings"
                    elif e[0] == "enter":
                        cat = "enter-wrong-effect" if own else "enter-cross-talk"
                    else:
                        cat = "exit-not-restored" if own else "exit-cross-talk"
                    return (cat, j, "after event %d (%s of object %s): observers %s of %s report %s, the scoping semantics requires %s"
                            % (j, e[0], "c%d=%s" % (e[1], k) if e[0] != "new" else k, "/".join(meta["observers"][c]), c, show(meta, g), show(meta, w)))
    return None


# ----------------------------------------------------------------------------------------
# structured family grids

def dyck(n):
    """all balanced sequences of n pairs as strings of '(' and ')'"""
    if n == 0:
        return [""]
    out = []
    for k in range(n):
        for a in dyck(k):
            for b in dyck(n - 1 - k):
                out.append("(" + a + ")" + b)
    return out


def kind_variants(n):
    if n == 1:
        return [("exit",), ("exitexc",)]
    vs = [("exit",) * n, ("exitexc",) * n, tuple(("exit", "exitexc")[i % 2] for i in range(n)),
          tuple(("exitexc", "exit")[i % 2] for i in range(n))]
    return sorted(set(vs))


def skeletons(max_pairs, nobj):
    """enter/exit skeletons: every balanced shape with <= max_pairs pairs, every labelling of the pairs with object
    indices (objects used must be 0..m-1), exit kinds all-normal / all-exceptional / alternating"""
    out = []
    for n in range(1, max_pairs + 1):
        for shape in dyck(n):
            for labels in itertools.product(range(nobj), repeat=n):
                used = sorted(set(labels))
                if used != list(range(len(used))):
                    continue
                for kv in kind_variants(n):
                    ev, stack, p = [], [], 0
                    for ch in shape:
                        if ch == "(":
                            ev.append(("enter", labels[p]))
                            stack.append(p)
                            p += 1
                        else:
                            q = stack.pop()
                            ev.append((kv[q], labels[q]))
                    out.append(ev)
    return out


def placements(sk, full):
    """positions (in skeleton coordinates, 'before event p') of the constructions: object j is constructed at any
    point not later than its first enter — before any context is entered, between two blocks, or inside a block of
    another object; objects are numbered in construction order.  full=False: only earliest / latest position."""
    nobj = 1 + max(e[1] for e in sk)
    first = [next(p for p, e in enumerate(sk) if e[0] == "enter" and e[1] == j) for j in range(nobj)]
    choices = []
    for j in range(nobj):
        choices.append(list(range(first[j] + 1)) if full else sorted({0, first[j]}))
    out = []
    for ps in itertools.product(*choices):
        if all(ps[j] <= ps[j + 1] for j in range(nobj - 1)):
            out.append(ps)
    return out


def weave(sk, ps, news):
    """history = skeleton with ('new', k, args) of object j inserted before skeleton position ps[j]"""
    h = []
    for p in range(len(sk) + 1):
        for j, q in enumerate(ps):
            if q == p:
                h.append(("new", news[j][0], news[j][1]))
        if p < len(sk):
            h.append(sk[p])
    return h


def family(sk_full, sk_red, cells_full, cells_red):
    """cells_*: list of tuples (news for object 0, news for object 1[, object 2]); a cell is used with the skeletons
    that use at most as many objects as it provides"""
    hs = []
    for sks, cells, full in ((sk_full, cells_full, True), (sk_red, cells_red, False)):
        for sk in sks:
            nobj = 1 + max(e[1] for e in sk)
            seen = set()
            for cell in cells:
                if len(cell) < nobj:
                    continue
                key = repr(cell[:nobj])
                if key in seen:
                    continue
                seen.add(key)
                for ps in placements(sk, full):
                    hs.append(weave(sk, ps, cell[:nobj]))
    return hs


def dtype_cells(k, vals, zero):
    """argument cells of a per-dtype class: every subset of {float, double, half} for each of two objects, values
    distinct from the defaults and from each other (vals[obj][slot]); plus cells with the falsy value 0.0"""
    def args(j, sub):
        return [vals[j][s] if s in sub else None for s in range(3)]
    subs = [tuple(s for s in range(3) if m >> s & 1) for m in range(8)]
    full = [((k, args(0, a)), (k, args(1, b))) for a in subs for b in subs]
    zs = [((k, [None, zero, None]), (k, args(1, (0,)))), ((k, [zero, zero, None]), (k, args(1, (1, 2)))),
          ((k, args(0, (0, 1))), (k, [None, None, zero])), ((k, [zero, None, None]), (k, [zero, zero, zero]))]
    red_pairs = [((0,), (1,)), ((1,), (0,)), ((0,), (2,)), ((2,), (1,)), ((0, 1), (2,)), ((2,), (0, 1)), ((0, 1), (1, 2)),
                 ((1, 2), (0, 1)), ((0,), (0, 1, 2)), ((0, 1, 2), (1,)), ((), (2,)), ((0, 1, 2), (0, 1, 2)), ((1,), (1,))]
    red = [((k, args(0, a)), (k, args(1, b))) for a, b in red_pairs] + zs[:2]
    return full + zs, red


def pool_cells(pool):
    return [(a, b) for a in pool for b in pool]


def triple_histories(news3):
    """three objects nested three deep in every entry order, constructions all up front / each just before its
    enter / the innermost one first, normal and exceptional exits, plus re-entry of the outermost at the bottom"""
    hs = []
    for order in itertools.permutations(range(3)):
        for kv in ("exit", "exitexc"):
            body = [("enter", j) for j in order] + [(kv, j) for j in reversed(order)]
            hs.append([("new",) + tuple(n) for n in news3] + body)
            deep = [("enter", j) for j in order] + [("enter", order[0]), (kv, order[0])] + [(kv, j) for j in reversed(order)]
            hs.append([("new",) + tuple(n) for n in news3] + deep)
        # lazily constructed: object numbering follows construction order = entry order
        lazy = []
        for j in range(3):
            lazy += [("new",) + tuple(news3[order[j]]), ("enter", j)]
        lazy += [("exit", 2), ("exitexc", 1), ("exit", 0)]
        hs.append(lazy)
    return hs


# ----------------------------------------------------------------------------------------
# shrinking

def _renumber(h):
    """drop constructions of objects that are never entered and renumber"""
    used = sorted({e[1] for e in h if e[0] != "new"})
    news = [e for e in h if e[0] == "new"]
    keep = {j: i for i, j in enumerate(used)}
    out, n = [], 0
    for e in h:
        if e[0] == "new":
            if n in keep:
                out.append(e)
            n += 1
        else:
            out.append((e[0], keep[e[1]]))
    return out if len(news) != len(used) else h


def _pairs(h):
    st, ps = [], []
    for p, e in enumerate(h):
        if e[0] == "enter":
            st.append(p)
        elif e[0] in ("exit", "exitexc") and st:
            ps.append((st.pop(), p))
    return ps, st


def shrink(h, fails, dtype_classes=(), budget=4000):
    """greedy reduction: truncate after the failing event, remove matched enter/exit pairs, close or drop
    unmatched enters, drop unused constructions, turn exceptional exits into normal ones, omit given arguments of
    per-dtype contexts — as long as `fails(h)` keeps returning a failure of the same category."""
    f0 = fails(h)
    if not f0:
        return h, f0
    cat = f0[0]
    n = [0]

    def ok(c):
        n[0] += 1
        if n[0] > budget:
            return None
        f = fails(c)
        return f if f and f[0] == cat else None
    cur, fcur = list(h), f0
    changed = True
    while changed and n[0] <= budget:
        changed = False
        # 1. truncate behind the failing event
        if fcur[1] + 1 < len(cur):
            c = _renumber(cur[:fcur[1] + 1])
            f = ok(c)
            if f:
                cur, fcur, changed = c, f, True
                continue
        # 2. remove a matched pair / an unmatched enter / a construction
        pairs, open_ = _pairs(cur)
        cands = [[e for p, e in enumerate(cur) if p not in pq] for pq in pairs] + \
                [[e for p, e in enumerate(cur) if p != q] for q in open_]
        for c in cands:
            c = _renumber(c)
            f = ok(c)
            if f:
                cur, fcur, changed = c, f, True
                break
        if changed:
            continue
        # 3. move a construction to the front (simplest placement)
        for p, e in enumerate(cur):
            if e[0] == "new" and p > 0 and cur[p - 1][0] != "new":
                nn = sum(1 for x in cur[:p] if x[0] == "new")
                first_non_new = next(q for q, x in enumerate(cur) if x[0] != "new")
                if first_non_new < p and nn == sum(1 for x in cur[:first_non_new] if x[0] == "new"):
                    c = cur[:first_non_new] + [e] + cur[first_non_new:p] + cur[p + 1:]
                    f = ok(c)
                    if f:
                        cur, fcur, changed = c, f, True
                        break
        if changed:
            continue
        # 4. simplify events / arguments
        for p, e in enumerate(cur):
            c = None
            if e[0] == "exitexc":
                c = cur[:p] + [("exit", e[1])] + cur[p + 1:]
                f = ok(c)
                if f:
                    cur, fcur, changed = c, f, True
                    break
            if e[0] == "new" and e[1] in dtype_classes and sum(a is not None for a in e[2]) > 1:
                for s in range(3):
                    if e[2][s] is not None:
                        a = list(e[2])
                        a[s] = None
                        c = cur[:p] + [("new", e[1], a)] + cur[p + 1:]
                        f = ok(c)
                        if f:
                            cur, fcur, changed = c, f, True
                            break
                if changed:
                    break
    return cur, fcur


def pretty(meta, hist, obs=None):
    """the history as Python source (for the replay file)"""
    lines, ind, objk = [], 0, []
    for j, e in enumerate(hist):
        if e[0] == "new":
            k, args = e[1], e[2]
            if meta["kinds"].get(k) == "KDtype":
                a = ", ".join("%s=%r" % (DT_NAMES[s], args[s]) for s in range(3) if args[s] is not None)
            else:
                a = ", ".join(str(x) if isinstance(x, str) else repr(x) for x in args)
            lines.append("    " * ind + "c%d = %s(%s)" % (len(objk), k, a))
            objk.append(k)
        elif e[0] == "enter":
            lines.append("    " * ind + "with c%d:" % e[1])
            ind += 1
        else:
            if e[0] == "exitexc":
                lines.append("    " * ind + "raise ValueError  # caught outside this block")
            else:
                lines.append("    " * ind + "pass")
            ind = max(0, ind - 1)
        if obs is not None and j < len(obs) and obs[j][0] == "ok" and obs[j][1]:
            lines.append("    " * ind + "# now differing from the defaults: " + "; ".join(
                "%s.%s=%s" % (meta["prim"][i], "/".join(meta["observers"][meta["prim"][i]]), show(meta, v)) for i, v in obs[j][1]))
        elif obs is not None and j < len(obs) and obs[j][0] == "ok":
            lines.append("    " * ind + "# now: every observer reports its default")
    return "\n".join(lines)


def show(meta, v):
    """encoded observation -> readable text (tokens through the constant table)"""
    if isinstance(v, (list, tuple)) and len(v) >= 2 and v[0] == "tok":
        if len(v) > 2:
            return str(v[2])
        n = v[1]
        return meta["consts"][n] if 0 <= n < len(meta["consts"]) else str(n)
    if isinstance(v, (list, tuple)):
        return "(" + ", ".join(show(meta, x) for x in v) + ")"
    return repr(v)
