"""C11 property predicates evaluated directly on the implementation's outputs, with an independent dense
float64 oracle (plain torch: solve / eigh / cholesky / lstsq on dense tensors; never minres,
contour_integral_quad or any LinearOperator method)."""
import math

import torch

from . import c11_sys as S

F64 = torch.float64


# ------------------------------------------------------------------------------------------ shapes

def expected_shape(spec, T):
    """the documented output shape of minres: leading shift dimension iff shifts.numel() > 1; a 1-D rhs gives
    no column dimension"""
    batch = tuple(spec["batch"])
    n, c = spec["n"], len(spec["cols"])
    s = T["shifts"]
    lead = []
    if s is not None and s.numel() > 1:
        lead = [int(s.shape[0])]
    return lead + list(batch) + [n] + ([] if spec.get("rhs_vec") else [c])


def zero_cols(spec):
    """flat column indices (b*c + j) whose rhs norm is below the 1e-10 threshold (kinds z and t)"""
    B = S.prod(spec["batch"])
    c = len(spec["cols"])
    return [b * c + j for b in range(B) for j, k in enumerate(spec["cols"]) if k in "zt"]


# ------------------------------------------------------------------------------------------ iterates

def minres_iterate_oracle(A, b, P, k):
    """the k-th MINRES iterate characterised mathematically (no recurrences): with P = L L^T the
    preconditioner matrix (None = I), x_k = L y_k where y_k minimises || L^T b - (L^T A L) y || over the
    Krylov space span{bh, Ah bh, ..., Ah^(k-1) bh}.  A: (n, n) symmetric, b: (n,).  Arnoldi with full
    re-orthogonalisation (twice) + dense least squares."""
    n = A.shape[0]
    if P is not None:
        L = torch.linalg.cholesky(P)
        Ah = L.T @ A @ L
        bh = L.T @ b
    else:
        L, Ah, bh = None, A, b
    nb = bh.norm()
    if nb == 0:
        return torch.zeros_like(b)
    V = [bh / nb]
    for _ in range(1, min(k, n)):
        w = Ah @ V[-1]
        for _rep in range(2):
            for v in V:
                w = w - (v @ w) * v
        nw = w.norm()
        if nw < 1e-10 * max(1.0, float(Ah.abs().max())):
            break
        V.append(w / nw)
    Vm = torch.stack(V, dim=1)
    y = torch.linalg.lstsq(Ah @ Vm, bh.unsqueeze(-1)).solution.squeeze(-1)
    x = Vm @ y
    return x if L is None else L @ x


def iterate_oracle(T, spec, k):
    """(Q, C, n): the k-th MINRES iterate of every shifted system and column"""
    batch = tuple(spec["batch"])
    n, c = spec["n"], len(spec["cols"])
    B = S.prod(batch)
    Aq = S.system_matrices(T, spec)
    Q = Aq.shape[0]
    Aq = Aq.reshape(Q, B, n, n)
    b = S.full_cols(T["rhs"], spec).reshape(B, n, c)
    Pm = None if T["P"] is None else T["P"].reshape(B, n, n)
    out = torch.zeros(Q, B * c, n, dtype=F64)
    for q in range(Q):
        for bi in range(B):
            for j in range(c):
                out[q, bi * c + j] = minres_iterate_oracle(Aq[q, bi], b[bi, :, j], None if Pm is None else Pm[bi], k)
    return out


def rel_err_cols(x, y):
    """max over entries of |x - y| relative to the max-norm of the column (Q, C, n) -> (Q, C)"""
    sc = torch.maximum(x.abs().amax(-1), y.abs().amax(-1)).clamp_min(1e-300)
    return (x - y).abs().amax(-1) / sc
