"""C11 property predicates evaluated directly on the implementation's outputs, with an independent dense
float64 oracle (plain torch: solve / eigh / cholesky / lstsq on dense tensors; never minres,
contour_integral_quad or any LinearOperator method)."""
import math

import torch

from . import c11_sys as S

F64 = torch.float64


# ------------------------------------------------------------------------------------------ shapes

def expected_shape(spec, T):
    """the documented output shape of minres: leading shift dimension iff shifts.numel() > 1; a 1-D rhs gives
    no column dimension"""
    batch = tuple(spec["batch"])
    n, c = spec["n"], len(spec["cols"])
    s = T["shifts"]
    lead = []
    if s is not None and s.numel() > 1:
        lead = [int(s.shape[0])]
    return lead + list(batch) + [n] + ([] if spec.get("rhs_vec") else [c])


def zero_cols(spec):
    """flat column indices (b*c + j) whose rhs norm is below the 1e-10 threshold (kinds z and t)"""
    B = S.prod(spec["batch"])
    c = len(spec["cols"])
    return [b * c + j for b in range(B) for j, k in enumerate(spec["cols"]) if k in "zt"]


# ------------------------------------------------------------------------------------------ iterates

def minres_iterate_oracle(A, b, P, k):
    """the k-th MINRES iterate characterised mathematically (no recurrences): with P = L L^T the
    preconditioner matrix (None = I), x_k = L y_k where y_k minimises || L^T b - (L^T A L) y || over the
    Krylov space span{bh, Ah bh, ..., Ah^(k-1) bh}.  A: (n, n) symmetric, b: (n,).  Arnoldi with full
    re-orthogonalisation (twice) + dense least squares."""
    n = A.shape[0]
    if P is not None:
        L = torch.linalg.cholesky(P)
        Ah = L.T @ A @ L
        bh = L.T @ b
    else:
        L, Ah, bh = None, A, b
    nb = bh.norm()
    if nb == 0:
        return torch.zeros_like(b)
    V = [bh / nb]
    for _ in range(1, min(k, n)):
        w = Ah @ V[-1]
        for _rep in range(2):
            for v in V:
                w = w - (v @ w) * v
        nw = w.norm()
        if nw < 1e-10 * max(1.0, float(Ah.abs().max())):
            break
        V.append(w / nw)
    Vm = torch.stack(V, dim=1)
    y = torch.linalg.lstsq(Ah @ Vm, bh.unsqueeze(-1)).solution.squeeze(-1)
    x = Vm @ y
    return x if L is None else L @ x


def iterate_oracle(T, spec, k):
    """(Q, C, n): the k-th MINRES iterate of every shifted system and column"""
    batch = tuple(spec["batch"])
    n, c = spec["n"], len(spec["cols"])
    B = S.prod(batch)
    Aq = S.system_matrices(T, spec)
    Q = Aq.shape[0]
    Aq = Aq.reshape(Q, B, n, n)
    b = S.full_cols(T["rhs"], spec).reshape(B, n, c)
    Pm = None if T["P"] is None else T["P"].reshape(B, n, n)
    out = torch.zeros(Q, B * c, n, dtype=F64)
    for q in range(Q):
        for bi in range(B):
            for j in range(c):
                out[q, bi * c + j] = minres_iterate_oracle(Aq[q, bi], b[bi, :, j], None if Pm is None else Pm[bi], k)
    return out


def rel_err_cols(x, y):
    """max over entries of |x - y| relative to the max-norm of the column (Q, C, n) -> (Q, C)"""
    sc = torch.maximum(x.abs().amax(-1), y.abs().amax(-1)).clamp_min(1e-300)
    return (x - y).abs().amax(-1) / sc


# ------------------------------------------------------------------------------------------ contour integral quadrature

def spectral(K):
    """dense K^(1/2), K^(-1/2), K^(-1) by torch.linalg.eigh (float64)"""
    w, v = torch.linalg.eigh(K)
    f = lambda d: (v * d.unsqueeze(-2)) @ v.mT
    return w, f(w.sqrt()), f(w.rsqrt()), f(1.0 / w)


def relerr(a, b):
    return float((a - b).norm() / b.norm().clamp_min(1e-300))


def ciq_in_scope(spec):
    """the property scopes the quadrature identities to sizes <= 20 or condition number <= 1e2"""
    return spec["n"] <= 20 or float(spec["kappa"]) <= 1e2


def quad_bound(spec, nq):
    """theoretical accuracy of the Hale-Higham-Trefethen rule, exp(-2 pi^2 N / (ln kappa + 6)), with a factor 30
    (measured ratio <= 8)"""
    return 30.0 * math.exp(-2.0 * math.pi ** 2 * nq / (math.log(max(float(spec["kappa"]), 1.0)) + 6.0))


def minres_reaches_tolerance(spec):
    """spectra on which the inner MINRES reaches a tight tolerance within its iteration cap n + 3 in float64 (measured on
    the unchanged tree: equispaced spectra, n <= 20, kappa <= 1e3, operators whose spectrum IS the family: final error
    <= 2e-12); geometric spectra lose orthogonality (known finding C11-minres-iteration-cap), Kronecker spectra are products"""
    return spec["fam"] == "uniform" and spec["n"] <= 20 and float(spec["kappa"]) <= 1e3 and spec["op"] != "kron"


def ciq_bounds(spec, tol, nq=15):
    """(bound on the root / inverse errors, bound on the shifted-equation residuals, bound on the scalar rule).
    Support only: MINRES convergence and quadrature accuracy are not proved.  Measured on the unchanged tree
    (design_notes/C11.md): root <= 4e-5 at the default minres_tolerance 1e-4, <= 5e-6 at 1e-10 in general and <= 2e-12
    where MINRES reaches the tolerance (then the bound is the accuracy of the rule itself, floor 1e-10: 60 x the
    measured error); rule <= 2e-6 at the default 15 nodes."""
    tight = tol <= 1e-8
    qb = quad_bound(spec, nq)
    floor = 1e-3
    if tight:
        floor = 1e-10 if (tol <= 1e-9 and minres_reaches_tolerance(spec)) else 1e-5
    return max(floor, qb), (1e-5 if tight else 2e-3), max(1e-5, qb)


def ciq_direct_pred(spec, K, rhs, out, tol, nq=15):
    """contour_integral_quad(op, rhs, inverse): shifted equations, weighted sum = K^(-+1/2) rhs, no-shift solve, scalar rule"""
    solves, weights, no_shift, shifts = out
    fails = []
    n = spec["n"]
    Nq = solves.shape[0]
    batch = torch.broadcast_shapes(K.shape[:-2], rhs.shape[:-2])
    Kb = K.expand(*batch, n, n)
    rb = rhs.expand(*batch, n, rhs.shape[-1])
    w, Ksq, Kisq, Kinv = spectral(Kb)
    b_root, b_eq, b_rule = ciq_bounds(spec, tol, nq)
    if list(solves.shape) != [Nq] + list(batch) + [n, rhs.shape[-1]] or list(shifts.shape) != [Nq + 1] + list(batch) \
            or list(no_shift.shape) != list(batch) + [n, rhs.shape[-1]] or list(weights.shape) != [Nq] + list(batch) + [1, 1]:
        return [("shape", "contour_integral_quad output shapes %s %s %s %s" % (list(solves.shape), list(weights.shape),
                                                                                list(no_shift.shape), list(shifts.shape)))]
    if not ciq_in_scope(spec):
        return fails
    res = (solves * weights).sum(0)
    target = (Kisq if spec["inverse"] else Ksq) @ rb
    e = relerr(res, target)
    if not e <= b_root:
        fails.append(("root", "(solves * weights).sum(0) differs from K^(%s1/2) rhs by %.3g (rel., bound %.1g)" % ("-" if spec["inverse"] else "", e, b_root)))
    if spec.get("rhs_kind") == "orth":
        # rhs orthogonal: res = R Q, so res res^T = R R^T must be K^-1 (inverse) / K (covariance of ciq samples), whatever
        # root (symmetric or not) the quadrature produces
        G = res @ res.mT
        e = relerr(G, Kinv if spec["inverse"] else Kb)
        if not e <= 3 * b_root:
            fails.append(("gram", "R R^T of the computed root R = (solves * weights).sum(0) rhs^T differs from K^(%s1) by %.3g (rel.)"
                          % ("-" if spec["inverse"] else "", e)))
    if spec.get("precond"):
        # with a preconditioner the individual solves belong to (-K + t P) x = b and the nodes to the preconditioned
        # spectrum: only the weighted sum is claimed
        return fails
    e = relerr(no_shift, -(Kinv @ rb))
    if not e <= b_eq:
        fails.append(("no-shift", "no_shift_solves differs from -K^-1 rhs by %.3g (rel.)" % e))
    sol = solves if spec["inverse"] else None
    if sol is not None:
        r = shifts[1:].reshape(Nq, *batch, 1, 1) * sol - Kb.unsqueeze(0) @ sol - rb.unsqueeze(0)
        e = float((r.norm(dim=-2) / rb.norm(dim=-2).clamp_min(1e-300)).max())
        if not e <= b_eq:
            fails.append(("shifted-eq", "a shifted solve has relative residual %.3g (bound %.1g)" % (e, b_eq)))
    # scalar rule on the true eigenvalues
    ws = weights.reshape(Nq, *batch, 1)
    ss = shifts[1:].reshape(Nq, *batch, 1)
    rule = ((ws / (ss - w.unsqueeze(0))).sum(0) * w.sqrt() - 1.0).abs().max()
    if not float(rule) <= b_rule:
        fails.append(("rule", "scalar quadrature rule sum_q w_q/(s_q - lambda) lambda^(1/2) deviates from 1 by %.3g on an eigenvalue" % float(rule)))
    return fails


def sim_pred(spec, K, rhs, lhs, out, twice, tol, nq=15):
    """op.sqrt_inv_matmul(rhs[, lhs]) and, without lhs, applying it twice"""
    fails = []
    n = spec["n"]
    batch = torch.broadcast_shapes(K.shape[:-2], rhs.shape[:-2], *([lhs.shape[:-2]] if lhs is not None else []))
    Kb = K.expand(*batch, n, n)
    rb = rhs.expand(*batch, n, rhs.shape[-1])
    w, Ksq, Kisq, Kinv = spectral(Kb)
    b_root, _, _ = ciq_bounds(spec, tol, nq)
    if lhs is None:
        res = out
        exp_shape = list(batch) + [n, rhs.shape[-1]]
        if list(res.shape) != exp_shape:
            return [("shape", "sqrt_inv_matmul output shape %s, expected %s" % (list(res.shape), exp_shape))]
        if not ciq_in_scope(spec):
            return fails
        e = relerr(res, Kisq @ rb)
        if not e <= b_root:
            fails.append(("root", "sqrt_inv_matmul(rhs) differs from K^(-1/2) rhs by %.3g (rel., bound %.1g)" % (e, b_root)))
        if twice is not None:
            e = relerr(twice, Kinv @ rb)
            if not e <= 3 * b_root:
                fails.append(("twice", "sqrt_inv_matmul applied twice differs from K^-1 rhs by %.3g (rel., bound %.1g)" % (e, 3 * b_root)))
    else:
        res, iq = out
        lb = lhs.expand(*batch, lhs.shape[-2], n)
        # diag(L K^-1 L^T) is a function of K and L only: when rhs carries batch dimensions that neither K nor L have (not
        # supported by the generic path, whose signature gives rhs and lhs one common batch shape) both the full batch
        # shape and broadcast(K.batch, L.batch) are legitimate for the second output
        iq_shapes = [list(batch) + [lhs.shape[-2]],
                     list(torch.broadcast_shapes(K.shape[:-2], lhs.shape[:-2])) + [lhs.shape[-2]]]
        if list(res.shape) != list(batch) + [lhs.shape[-2], rhs.shape[-1]] or list(iq.shape) not in iq_shapes:
            return [("shape", "sqrt_inv_matmul(rhs, lhs) output shapes %s %s, expected %s %s"
                     % (list(res.shape), list(iq.shape), list(batch) + [lhs.shape[-2], rhs.shape[-1]], iq_shapes[0]))]
        iq = iq.expand(*batch, lhs.shape[-2])
        if not ciq_in_scope(spec):
            return fails
        e = relerr(res, lb @ Kisq @ rb)
        if not e <= b_root:
            fails.append(("root", "sqrt_inv_matmul(rhs, lhs)[0] differs from L K^(-1/2) R by %.3g (rel.)" % e))
        e = relerr(iq, torch.diagonal(lb @ Kinv @ lb.mT, dim1=-2, dim2=-1))
        if not e <= b_root:
            fails.append(("inv-quad", "sqrt_inv_matmul(rhs, lhs)[1] differs from diag(L K^-1 L^T) by %.3g (rel.)" % e))
    return fails


def generic_pred(out, gen, has_lhs, tol, spec, nq=15):
    """a class-specific sqrt_inv_matmul override against the generic base-class path (contour quadrature on a Dense copy of
    the same matrix, same arguments): same shapes, values equal to quadrature accuracy"""
    b_root, _, _ = ciq_bounds(spec, tol, nq)
    pairs = [("sqrt_inv_matmul result", out[0] if has_lhs else out, gen[0] if has_lhs else gen)]
    if has_lhs:
        pairs.append(("inv_quad output", out[1], gen[1]))
    fails = []
    for name, a, b in pairs:
        if list(a.shape) != list(b.shape):
            fails.append(("generic-shape", "%s has shape %s but the generic path on a Dense copy gives %s"
                          % (name, list(a.shape), list(b.shape))))
        else:
            e = relerr(a, b)
            if not e <= 3 * b_root:
                fails.append(("generic-values", "%s differs from the generic path on a Dense copy by %.3g (rel.)" % (name, e)))
    return fails


def sample_pred(spec, K, samples, tol, nq=15, base=None):
    """ciq samples s_k = R z_k for prescribed base samples z_k (columns of `base`, (*batch, n, ns)).  ns >= n and base with
    orthonormal rows (default: the identity): sum_k s_k s_k^T = R R^T = K.  ns < n (orthonormal columns): without a
    preconditioner the root is the symmetric one, s_k = K^(1/2) z_k."""
    n = spec["n"]
    batch = tuple(K.shape[:-2])
    ns = n if base is None else base.shape[-1]
    if list(samples.shape) != [ns] + list(batch) + [n]:
        return [("shape", "zero_mean_mvn_samples shape %s, expected %s" % (list(samples.shape), [ns] + list(batch) + [n]))]
    if not ciq_in_scope(spec):
        return []
    b_root, _, _ = ciq_bounds(spec, tol, nq)
    Sm = samples.permute(*range(1, len(batch) + 1), 0, len(batch) + 1)      # (*batch, k, n): rows are samples
    if ns >= n:
        cov = Sm.mT @ Sm
        e = relerr(cov, K)
        if not e <= 3 * b_root:
            return [("covariance", "ciq samples (%d samples of size %d, base samples with orthonormal rows) have sum_k s_k s_k^T "
                                   "differing from K by %.3g (rel.)" % (ns, n, e))]
    elif not spec.get("precond"):
        w, Ksq, _, _ = spectral(K)
        e = relerr(Sm.mT, Ksq @ base)
        if not e <= 3 * b_root:
            return [("sample-root", "ciq samples (%d samples of size %d) differ from K^(1/2) z_k by %.3g (rel.)" % (ns, n, e))]
    return []
