"""C14 translator: constructor signature / forwarding table  ->  coq/C14/gen/Ctors.v

For every operator class of the package the `__init__` chain is followed symbolically (Python `ast` of the
source files under common.REPO, the MRO taken from the imported classes) from the class's own `__init__`
through every `super().__init__(...)` / `super(X, self).__init__(...)` / `LinearOperator.__init__(self, ...)`
call down to `LinearOperator.__init__(*args, **kwargs)`, which stores what every rebuild (clone, detach, to,
type, representation tree) later passes back to the constructor.  The result says, per declared parameter,
whether it reaches the base constructor

    positionally, in declaration order           (cs_npos / cs_varargs)
    as a keyword under its own name              (PKw     -> survives every rebuild)
    not at all, but is kept as an attribute      (PAttr   -> silently reset to its default by every rebuild)
    not at all and leaves no attribute           (PConsumed)

Re-binding of a parameter name (`x = to_linear_operator(x)`, batch expansion, ...) keeps the parameter's
identity here; what those normalisations do structurally is transcribed by hand in coq/C14/Model.v
(`norm_pos`) and tied by the correspondence.  Everything the translator does not recognise raises
Untranslatable (fail closed).
"""
import ast
import importlib
import inspect
import os
import sys
import textwrap

from . import c14_names

# Python class name -> constructor of `cls` in coq/C14/Types.v
CLASSES = [
    ("DenseLinearOperator", "CDense"), ("DiagLinearOperator", "CDiag"), ("ConstantDiagLinearOperator", "CConstantDiag"),
    ("IdentityLinearOperator", "CIdentity"), ("ZeroLinearOperator", "CZero"), ("ToeplitzLinearOperator", "CToeplitz"),
    ("TriangularLinearOperator", "CTriangular"), ("CholLinearOperator", "CChol"), ("RootLinearOperator", "CRoot"),
    ("LowRankRootLinearOperator", "CLowRankRoot"), ("KroneckerProductLinearOperator", "CKron"),
    ("KroneckerProductTriangularLinearOperator", "CKronTriangular"), ("KroneckerProductDiagLinearOperator", "CKronDiag"),
    ("KroneckerProductAddedDiagLinearOperator", "CKronAddedDiag"), ("SumKroneckerLinearOperator", "CSumKron"),
    ("AddedDiagLinearOperator", "CAddedDiag"), ("LowRankRootAddedDiagLinearOperator", "CLowRankRootAddedDiag"),
    ("SumLinearOperator", "CSum"), ("PsdSumLinearOperator", "CPsdSum"), ("MatmulLinearOperator", "CMatmul"),
    ("MulLinearOperator", "CMul"), ("ConstantMulLinearOperator", "CConstantMul"), ("BlockDiagLinearOperator", "CBlockDiag"),
    ("BlockInterleavedLinearOperator", "CBlockInterleaved"), ("SumBatchLinearOperator", "CSumBatch"),
    ("BatchRepeatLinearOperator", "CBatchRepeat"), ("CatLinearOperator", "CCat"),
    ("InterpolatedLinearOperator", "CInterpolated"), ("MaskedLinearOperator", "CMasked"),
    ("PermutationLinearOperator", "CPermutation"), ("TransposePermutationLinearOperator", "CTransposePermutation"),
    ("KernelLinearOperator", "CKernel"),
]
# abstract helpers / classes that cannot be constructed in this sandbox (pykeops missing)
IGNORED = {"LinearOperator", "BlockLinearOperator", "KeOpsLinearOperator", "AbstractPermutationLinearOperator"}
# `**name` forwarded to the base constructor that is a re-partition of the class's own **kwargs
VARKW_ALIASES = {"KernelLinearOperator": {"tensor_params", "nontensor_params"}}


class Untranslatable(Exception):
    pass


def _func_ast(fn):
    src = textwrap.dedent(inspect.getsource(fn))
    tree = ast.parse(src)
    f = tree.body[0]
    if not isinstance(f, ast.FunctionDef):
        raise Untranslatable("not a plain function: %r" % fn)
    return f


def _is_super_init_call(node):
    """-> None | ("super", None) | ("super", "ClassName") | ("direct", "ClassName")"""
    if not (isinstance(node, ast.Call) and isinstance(node.func, ast.Attribute) and node.func.attr == "__init__"):
        return None
    v = node.func.value
    if isinstance(v, ast.Call) and isinstance(v.func, ast.Name) and v.func.id == "super":
        if not v.args:
            return ("super", None)
        if len(v.args) == 2 and isinstance(v.args[0], ast.Name):
            return ("super", v.args[0].id)
        raise Untranslatable("unusual super(...) call")
    if isinstance(v, ast.Name):
        return ("direct", v.id)
    return None


def _find_init_calls(f):
    out = []
    for node in ast.walk(f):
        k = _is_super_init_call(node)
        if k:
            out.append((node, k))
    return out


def _sym_of(expr, env):
    """symbolic value of an argument expression: ('param', name) | ('const', value) | ('opaque',)"""
    if isinstance(expr, ast.Name):
        return env.get(expr.id, ("opaque",))
    if isinstance(expr, ast.Call) and isinstance(expr.func, ast.Name) and expr.func.id == "to_linear_operator" \
            and len(expr.args) == 1 and isinstance(expr.args[0], ast.Name):
        return env.get(expr.args[0].id, ("opaque",))
    if isinstance(expr, ast.Constant):
        return ("const", expr.value)
    return ("opaque",)


def _follow(concrete, owner, fn, actual_pos, actual_star, actual_kw, actual_starstar, depth=0):
    """Interpret owner.__init__ (function fn) called with symbolic actuals; return what reaches
    LinearOperator.__init__: (positional list, star-list, kw dict, starstar set)."""
    from linear_operator.operators import LinearOperator
    if depth > 8:
        raise Untranslatable("constructor chain too deep")
    if owner is LinearOperator:
        return list(actual_pos), list(actual_star), dict(actual_kw), set(actual_starstar)
    f = _func_ast(fn)
    a = f.args
    if a.posonlyargs:
        raise Untranslatable("positional-only parameters")
    formals = [x.arg for x in a.args][1:]          # drop self
    env = {}
    pos = list(actual_pos)
    # bind positionals
    for i, name in enumerate(formals):
        if i < len(pos):
            env[name] = pos[i]
        elif name in actual_kw:
            env[name] = actual_kw[name]
        else:
            nd = len(a.defaults)
            j = i - (len(formals) - nd)
            if j < 0:
                if actual_star:      # may be filled from the caller's *args
                    raise Untranslatable("%s.__init__: parameter %s would be filled from *args" % (owner.__name__, name))
                raise Untranslatable("%s.__init__: missing argument %s" % (owner.__name__, name))
            env[name] = ("default", name)
    extra_pos = pos[len(formals):]
    star = []
    if a.vararg:
        env[a.vararg.arg] = ("star", extra_pos, list(actual_star))
    elif extra_pos or actual_star:
        raise Untranslatable("%s.__init__ takes no *args but receives some" % owner.__name__)
    for x, d in zip(a.kwonlyargs, a.kw_defaults):
        env[x.arg] = actual_kw.get(x.arg, ("default", x.arg))
    known = set(formals) | {x.arg for x in a.kwonlyargs}
    rest_kw = {k: v for k, v in actual_kw.items() if k not in known}
    if a.kwarg:
        env[a.kwarg.arg] = ("starstar", rest_kw, set(actual_starstar))
        for al in VARKW_ALIASES.get(owner.__name__, ()):
            env[al] = ("starstar-alias", a.kwarg.arg)
    elif rest_kw or actual_starstar:
        raise Untranslatable("%s.__init__ takes no **kwargs but receives some" % owner.__name__)
    calls = _find_init_calls(f)
    if len(calls) != 1:
        raise Untranslatable("%s.__init__: %d base-constructor calls" % (owner.__name__, len(calls)))
    call, kind = calls[0]
    # target class
    mro = list(concrete.__mro__)
    if kind[0] == "super":
        start = owner if kind[1] is None else next((c for c in mro if c.__name__ == kind[1]), None)
        if start is None or start not in mro:
            raise Untranslatable("super(%s, self) not in the MRO of %s" % (kind[1], concrete.__name__))
        tail = mro[mro.index(start) + 1:]
        target = next((c for c in tail if "__init__" in c.__dict__), None)
    else:
        target = next((c for c in mro if c.__name__ == kind[1]), None)
    if target is None or target is object:
        raise Untranslatable("%s.__init__: base constructor not found" % owner.__name__)
    cargs = list(call.args)
    if kind[0] == "direct":
        if not (cargs and isinstance(cargs[0], ast.Name) and cargs[0].id == "self"):
            raise Untranslatable("direct base-constructor call without self")
        cargs = cargs[1:]
    npos, nstar = [], []
    for e in cargs:
        if isinstance(e, ast.Starred):
            if not isinstance(e.value, ast.Name):
                raise Untranslatable("starred expression")
            s = env.get(e.value.id)
            if not s or s[0] != "star":
                raise Untranslatable("*%s is not the constructor's own *args" % e.value.id)
            if nstar:
                raise Untranslatable("two starred arguments")
            npos += s[1]
            nstar = s[2] if s[2] else [("star-of", owner.__name__, e.value.id)]
            if s[2]:
                nstar = s[2]
        else:
            if nstar:
                raise Untranslatable("positional after *args")
            npos.append(_sym_of(e, env))
    nkw, nss = {}, set()
    for k in call.keywords:
        if k.arg is None:
            if not isinstance(k.value, ast.Name):
                raise Untranslatable("**expression")
            s = env.get(k.value.id)
            if s and s[0] == "starstar-alias":
                s = env[s[1]]
            if not s or s[0] != "starstar":
                raise Untranslatable("**%s is not the constructor's own **kwargs" % k.value.id)
            nkw.update(s[1])
            nss |= s[2] if s[2] else {(owner.__name__, k.value.id)}
        else:
            nkw[k.arg] = _sym_of(k.value, env)
    return _follow(concrete, target, target.__dict__["__init__"], npos, nstar, nkw, nss, depth + 1)


def _default_value(node, torch_names=("torch",)):
    """Coq `value` literal of a default expression (None for 'required')."""
    if isinstance(node, ast.Constant):
        v = node.value
        if v is None:
            return "VNone"
        if v is True or v is False:
            return "(VBool %s)" % ("true" if v else "false")
        if isinstance(v, int):
            return "(VInt %s)" % _z(v)
        raise Untranslatable("default constant %r" % (v,))
    if isinstance(node, ast.UnaryOp) and isinstance(node.op, ast.USub) and isinstance(node.operand, ast.Constant) \
            and isinstance(node.operand.value, int):
        return "(VInt %s)" % _z(-node.operand.value)
    if isinstance(node, ast.Tuple) and all(isinstance(e, ast.Constant) and isinstance(e.value, int) for e in node.elts):
        return "(VSize [%s])" % "; ".join(_z(e.value) for e in node.elts)
    src = ast.unparse(node).replace(" ", "")
    if src in ("torch.float", "torch.float32"):
        return "(VDtype F32)"
    if src in ("torch.double", "torch.float64"):
        return "(VDtype F64)"
    if src.startswith("torch.Size("):
        inner = node.args[0] if isinstance(node, ast.Call) and node.args else None
        if isinstance(inner, (ast.Tuple, ast.List)) and all(isinstance(e, ast.Constant) for e in inner.elts):
            return "(VSize [%s])" % "; ".join(_z(e.value) for e in inner.elts)
    raise Untranslatable("default expression %s" % src)


def _z(v):
    return "(%d)%%Z" % v if v < 0 else "%d%%Z" % v


def _assigned_attr(f, pname):
    """does the body contain  self.<attr> = <expr mentioning pname>  ?"""
    for node in ast.walk(f):
        if isinstance(node, ast.Assign):
            for t in node.targets:
                if isinstance(t, ast.Attribute) and isinstance(t.value, ast.Name) and t.value.id == "self":
                    if any(isinstance(n, ast.Name) and n.id == pname for n in ast.walk(node.value)):
                        return True
    return False


def spec_of_class(cls):
    """-> dict(npos, varargs, named=[(name, default_lit or None, kind)], varkw)"""
    owner = next(c for c in cls.__mro__ if "__init__" in c.__dict__)
    fn = owner.__dict__["__init__"]
    f = _func_ast(fn)
    a = f.args
    formals = [x.arg for x in a.args][1:]
    pos = [("param", n) for n in formals]
    star = [("own-star", a.vararg.arg)] if a.vararg else []
    kw = {x.arg: ("param", x.arg) for x in a.kwonlyargs}
    ss = {("own-starstar", a.kwarg.arg)} if a.kwarg else set()
    fpos, fstar, fkw, fss = _follow(cls, owner, fn, pos, star, kw, ss)
    # leading parameters forwarded positionally, in order
    npos = 0
    for i, s in enumerate(fpos):
        if i < len(formals) and s == ("param", formals[i]):
            npos += 1
        else:
            raise Untranslatable("%s: positional argument %d of the base constructor is %r" % (cls.__name__, i, s))
    varargs = bool(a.vararg)
    if varargs and fstar != [("own-star", a.vararg.arg)]:
        raise Untranslatable("%s: *%s is not forwarded as *args" % (cls.__name__, a.vararg.arg))
    if varargs and npos != 0:
        raise Untranslatable("%s: named positionals before *args" % cls.__name__)
    varkw = bool(a.kwarg)
    if varkw and fss != {("own-starstar", a.kwarg.arg)}:
        raise Untranslatable("%s: **%s is not forwarded as **kwargs" % (cls.__name__, a.kwarg.arg))
    defaults = {}
    nd = len(a.defaults)
    for i, name in enumerate(formals):
        j = i - (len(formals) - nd)
        defaults[name] = a.defaults[j] if j >= 0 else None
    for x, d in zip(a.kwonlyargs, a.kw_defaults):
        defaults[x.arg] = d
    named = []
    for name in formals[npos:] + [x.arg for x in a.kwonlyargs]:
        d = defaults[name]
        dl = _default_value(d) if d is not None else None
        if name in fkw:
            if fkw[name] != ("param", name):
                raise Untranslatable("%s: keyword %s of the base constructor is %r" % (cls.__name__, name, fkw[name]))
            kind = "PKw"
        else:
            chain = [c for c in cls.__mro__ if "__init__" in c.__dict__ and c.__name__ != "LinearOperator" and c is not object]
            kept = any(_assigned_attr(_func_ast(c.__dict__["__init__"]), name) for c in chain[:1])
            kind = "PAttr" if kept else "PConsumed"
        named.append((name, dl, kind))
    for k, v in fkw.items():
        if k not in [n for n, _, _ in named]:
            raise Untranslatable("%s: base constructor receives keyword %s=%r that is not a parameter" % (cls.__name__, k, v))
    return {"npos": npos, "varargs": varargs, "named": named, "varkw": varkw}


def load_classes():
    import linear_operator.operators as O
    from linear_operator.operators import LinearOperator
    found = {n: getattr(O, n) for n in dir(O)
             if inspect.isclass(getattr(O, n)) and issubclass(getattr(O, n), LinearOperator)}
    return found


def translate():
    """-> (coq source of gen/Ctors.v, meta dict)"""
    found = load_classes()
    known = dict(CLASSES)
    unknown = sorted(n for n in found if n not in known and n not in IGNORED)
    specs = {}
    for py, cq in CLASSES:
        if py not in found:
            raise Untranslatable("class %s no longer exists" % py)
        specs[cq] = spec_of_class(found[py])
    names = sorted({n for s in specs.values() for n, _, _ in s["named"]} | set(c14_names.KNOWN))
    lines = ["(* GENERATED by harness/c14_ctors.py from the constructors of the package - do not edit *)",
             "From Coq Require Import List ZArith Bool.", "Import ListNotations.", "Require Import C14.Types.",
             "Definition mk (n : nat) (va : bool) (named : list (Z * option value * pk)) (vk : bool) : cspec :=",
             "  {| cs_npos := n; cs_varargs := va; cs_named := named; cs_varkw := vk |}."]
    for n in names:
        if n not in c14_names.KNOWN:
            lines.append("Definition k_%s : Z := %d%%Z." % (n, c14_names.enc(n)))
    lines.append("Definition spec_of (c : cls) : cspec :=\n  match c with")
    for py, cq in CLASSES:
        s = specs[cq]
        named = "; ".join("(k_%s, %s, %s)" % (n, "Some %s" % d if d is not None else "None", k) for n, d, k in s["named"])
        lines.append("  | %s => mk %d %s [%s] %s" % (cq, s["npos"], "true" if s["varargs"] else "false", named,
                                                     "true" if s["varkw"] else "false"))
    lines.append("  | CUser _ => mk 1 false [] false\n  end.")
    meta = {"specs": {cq: specs[cq] for _, cq in CLASSES}, "unknown_classes": unknown}
    return "\n".join(lines) + "\n", meta


# methods whose generic implementation in LinearOperator the model transcribes; a class that defines its own is an
# "override" the model must know about
OVERRIDABLE = ["to", "type", "clone", "detach", "detach_", "cpu", "cuda", "double", "float", "half", "representation",
               "representation_tree", "evaluate_kernel", "dtype", "device", "requires_grad", "_set_requires_grad",
               "requires_grad_", "_args", "_kwargs"]


def translate_overrides():
    """-> coq source of gen/Overrides.v: every (class, method) where the class (or a base class other than
    LinearOperator) defines one of the copy / conversion / representation methods itself"""
    from linear_operator.operators import LinearOperator
    found = load_classes()
    pairs = []
    for py, cq in CLASSES:
        k = found[py]
        for m in OVERRIDABLE:
            owner = next((c for c in k.__mro__ if m in c.__dict__), None)
            if owner is not None and owner is not LinearOperator and owner is not object:
                pairs.append((cq, m))
    lines = ["(* GENERATED by harness/c14_ctors.py: overrides of the copy / conversion methods - do not edit *)",
             "From Coq Require Import List String.", "Import ListNotations.", "Require Import C14.Types.",
             "Open Scope string_scope.", "Definition overrides : list (cls * string) := ["]
    lines.append(";\n".join('  (%s, "%s")' % (c, m) for c, m in pairs))
    lines.append("].")
    return "\n".join(lines) + "\n", pairs


# ---------------------------------------------------------------------------------------- shapes of the copy methods
COPY_METHODS = ["to", "type", "clone", "detach", "cpu", "cuda", "double", "float", "half"]
SELF_DT_ATTRS = {"dtype", "_dtype", "device", "_device"}


def method_shape(fn):
    """syntactic shape of one copy / conversion method -> (can_return_self, returns_under_dtype_test, mutates_self,
    reuses_components - see _reuses_components)

    can_return_self        some `return` yields `self` or a local name bound to `self` (directly, or as an arm of a
                           conditional expression / boolean operator)
    returns_under_dtype_test  an `if` whose test reads self.dtype / self._dtype / self.device / self._device has a
                           `return` somewhere in its body or else-branch (an early exit decided by the NOMINAL dtype)
    mutates_self           an attribute of `self` (or of a local name bound to `self`) is assigned"""
    f = _func_ast(fn)
    self_name = f.args.args[0].arg if f.args.args else "self"
    aliases = {self_name}
    changed = True
    while changed:
        changed = False
        for n in ast.walk(f):
            if isinstance(n, ast.Assign) and _may_be(n.value, aliases):
                for t in n.targets:
                    if isinstance(t, ast.Name) and t.id not in aliases:
                        aliases.add(t.id)
                        changed = True
            if isinstance(n, (ast.AnnAssign, ast.NamedExpr)) and n.value is not None and _may_be(n.value, aliases):
                t = n.target
                if isinstance(t, ast.Name) and t.id not in aliases:
                    aliases.add(t.id)
                    changed = True
    ret_self = any(isinstance(n, ast.Return) and n.value is not None and _may_be(n.value, aliases) for n in ast.walk(f))
    reads = lambda e: any(isinstance(x, ast.Attribute) and isinstance(x.value, ast.Name) and x.value.id in aliases
                          and x.attr in SELF_DT_ATTRS for x in ast.walk(e))
    cond = False
    for n in ast.walk(f):
        if isinstance(n, ast.If) and reads(n.test):
            if any(isinstance(x, ast.Return) for b in (n.body + n.orelse) for x in ast.walk(b)):
                cond = True
        if isinstance(n, ast.Return) and n.value is not None and isinstance(n.value, ast.IfExp) and reads(n.value.test):
            cond = True
    mut = False
    for n in ast.walk(f):
        targets = n.targets if isinstance(n, ast.Assign) else [n.target] if isinstance(n, (ast.AugAssign, ast.AnnAssign)) else []
        for t in targets:
            for x in ast.walk(t):
                if isinstance(x, ast.Attribute) and isinstance(x.value, ast.Name) and x.value.id in aliases:
                    mut = True
        if isinstance(n, ast.Call) and isinstance(n.func, ast.Name) and n.func.id == "setattr" and n.args \
                and _may_be(n.args[0], aliases):
            mut = True
    return ret_self, cond, mut, _reuses_components(f, aliases)


def _hasattr_only(t):
    """is the test built from hasattr(...) calls only (and / or / not)?  Such a test asks whether the component CAN be
    copied / converted at all; anything else (requires_grad, dtype, device, identity ...) decides on the data"""
    if isinstance(t, ast.Call) and isinstance(t.func, ast.Name) and t.func.id == "hasattr":
        return True
    if isinstance(t, ast.BoolOp):
        return all(_hasattr_only(v) for v in t.values)
    if isinstance(t, ast.UnaryOp) and isinstance(t.op, ast.Not):
        return _hasattr_only(t.operand)
    return False


def _reuses_components(f, aliases):
    """can the method put one of the operator's OWN components (an element of self._args / self._kwargs, a parameter of
    a nested helper applied to them) into the result unchanged, other than because the component lacks the method?

      * `*self._args` / `**self._kwargs` / `{**self._kwargs, ...}` handed to a call, or
      * an element name (loop / comprehension target, parameter of a nested function) used bare - as an arm of a
        conditional expression, the argument of .append(), the value of a subscript assignment or of a `return` inside
        a nested function, the element of a comprehension - at a place that is not governed solely by hasattr(...) tests
        (no test at all counts as well)."""
    hit = []
    elems = set()
    for n in ast.walk(f):
        if isinstance(n, (ast.For, ast.comprehension)):
            for x in ast.walk(n.target):
                if isinstance(x, ast.Name):
                    elems.add(x.id)
        if isinstance(n, (ast.FunctionDef, ast.Lambda)) and n is not f:
            for a in n.args.args:
                elems.add(a.arg)

    def own(e):
        return isinstance(e, ast.Attribute) and isinstance(e.value, ast.Name) and e.value.id in aliases and \
            e.attr in ("_args", "_kwargs", "_differentiable_kwargs", "_nondifferentiable_kwargs")

    def bare(e):
        return isinstance(e, ast.Name) and e.id in elems

    def visit(n, tests, nested):
        if isinstance(n, ast.Call):
            for a in n.args:
                if isinstance(a, ast.Starred) and own(a.value):
                    hit.append("star")
            for k in n.keywords:
                if k.arg is None and own(k.value):
                    hit.append("starstar")
            if isinstance(n.func, ast.Attribute) and n.func.attr == "append" and n.args and bare(n.args[0]):
                if not (tests and all(_hasattr_only(t) for t in tests)):
                    hit.append("append")
        if isinstance(n, ast.Dict):
            for k, v in zip(n.keys, n.values):
                if k is None and own(v):
                    hit.append("dictsplat")
        if isinstance(n, ast.Assign) and any(isinstance(t, ast.Subscript) for t in n.targets) and bare(n.value):
            if not (tests and all(_hasattr_only(t) for t in tests)):
                hit.append("setitem")
        if isinstance(n, ast.Return) and nested and n.value is not None and bare(n.value):
            if not (tests and all(_hasattr_only(t) for t in tests)):
                hit.append("return")
        if isinstance(n, (ast.ListComp, ast.GeneratorExp, ast.SetComp)) and bare(n.elt):
            hit.append("comp")
        if isinstance(n, ast.DictComp) and bare(n.value):
            hit.append("comp")
        if isinstance(n, ast.IfExp):
            visit(n.test, tests, nested)
            for arm in (n.body, n.orelse):
                if bare(arm) and not all(_hasattr_only(t) for t in tests + [n.test]):
                    hit.append("ifexp")
                visit(arm, tests + [n.test], nested)
            return
        if isinstance(n, ast.If):
            visit(n.test, tests, nested)
            for b in n.body + n.orelse:
                visit(b, tests + [n.test], nested)
            return
        if isinstance(n, (ast.FunctionDef, ast.Lambda)) and n is not f:
            body = n.body if isinstance(n.body, list) else [n.body]
            if isinstance(n, ast.Lambda) and bare(n.body):
                hit.append("lambda")
            for b in body:
                visit(b, [], True)
            return
        for ch in ast.iter_child_nodes(n):
            visit(ch, tests, nested)
    for b in f.body:
        visit(b, [], False)
    return bool(hit)


def _may_be(e, aliases):
    """can the value of expression e be (the object bound to) one of the names?"""
    if isinstance(e, ast.Name):
        return e.id in aliases
    if isinstance(e, ast.IfExp):
        return _may_be(e.body, aliases) or _may_be(e.orelse, aliases)
    if isinstance(e, ast.BoolOp):
        return any(_may_be(v, aliases) for v in e.values)
    if isinstance(e, ast.NamedExpr):
        return _may_be(e.value, aliases)
    return False


def translate_shapes():
    """-> (coq source fragment defining method_shapes, list of rows): one row per (class that DEFINES one of the copy /
    conversion methods - LinearOperator itself and every class in the MRO of a library operator class -, method)"""
    from linear_operator.operators import LinearOperator
    found = load_classes()
    owners = {}
    for k in list(found.values()) + [LinearOperator]:
        for c in k.__mro__:
            if c is object:
                continue
            owners[c.__name__] = c
    rows = []
    for name in sorted(owners):
        c = owners[name]
        for m in COPY_METHODS:
            if m in c.__dict__:
                fn = c.__dict__[m]
                fn = getattr(fn, "__func__", fn)
                if not inspect.isfunction(inspect.unwrap(fn)):
                    raise Untranslatable("%s.%s is not a plain function" % (name, m))
                rows.append((name, m) + method_shape(inspect.unwrap(fn)))
    b = lambda x: "true" if x else "false"
    lines = ["(* syntactic shape of every definition of a copy / conversion method: (owner class, method,",
             "   (can return self, returns under a test of self.dtype/device, assigns an attribute of self,",
             "    can embed a component of self unchanged for another reason than a missing method)) *)",
             "Definition method_shapes : list (string * string * (bool * bool * bool * bool)) := ["]
    lines.append(";\n".join('  ("%s", "%s", (%s, %s, %s, %s))' % (o, m, b(r), b(c), b(u), b(w)) for o, m, r, c, u, w in rows))
    lines.append("].")
    return "\n".join(lines) + "\n", rows


if __name__ == "__main__":
    code, meta = translate()
    print(code)
    print(meta["unknown_classes"])
