import importlib
import json
import os
import sys
import traceback

from . import common


def main(argv):
    if not argv:
        print("usage: check <PROPERTY> [quick|thorough] | setup | replay <path>")
        return 2
    if argv[0] == "setup":
        rc, out = common.build_base()
        if rc != 0:
            print(out[-3000:])
            return 1
        ok = True
        from concurrent.futures import ThreadPoolExecutor
        # only properties that are claimed in the manifest (harness/manifest.py table + manifest.d fragments)
        from . import manifest as _mf
        _mf.load_entries()
        props = sorted(p for p in _mf.CHECKS if os.path.isdir(os.path.join(common.COQ, p)))

        def one(p):
            try:
                mod = importlib.import_module("harness.%s" % p.lower())
                if hasattr(mod, "regenerate"):
                    mod.regenerate()
            except Exception:
                return p, 1, traceback.format_exc()
            rc, out = common.build_prop(p)
            return p, rc, out
        with ThreadPoolExecutor(max_workers=4) as ex:
            for p, rc, out in ex.map(one, props):
                print("setup", p, "ok" if rc == 0 else "FAILED")
                if rc != 0:
                    print(out[-2000:])
                    ok = False
        return 0 if ok else 1
    if argv[0] == "replay":
        rp = json.load(open(argv[1]))
        mod = importlib.import_module("harness.%s" % rp["property"].lower())
        return mod.replay(rp)
    prop = argv[0]
    tier = argv[1] if len(argv) > 1 else os.environ.get("VERIF_TIER", "quick")
    seed = int(os.environ.get("VERIF_SEED", "0"))
    ctx = common.Ctx(prop, tier, seed)
    mod = importlib.import_module("harness.%s" % prop.lower())
    try:
        mod.run(ctx)
    except Exception:
        traceback.print_exc()
        ctx.violation({"kind": "harness-crash", "trace": traceback.format_exc()[-1500:]}, no_input=True)
    return ctx.finish()


if __name__ == "__main__":
    sys.exit(main(sys.argv[1:]))
