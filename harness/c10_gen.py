"""C10 helpers: matrix families, operator builders (several classes denoting the same dense K), the
independent reference (plain float loop) and the property predicates evaluated directly on what the
implementation returned.  No linear_operator code is used for the oracle side."""
import math

import torch

DT = torch.float64


# ------------------------------------------------------------------------------------------------
# matrix families (all entries dyadic rationals with few bits: products/sums below are exact in
# binary64, so every operator class denotes bit-for-bit the same dense matrix)

def _dy(rng, lo=-16, hi=16, den=8):
    return rng.randint(lo, hi) / den


def fam_full(rng, n):
    B = [[_dy(rng) for _ in range(n)] for _ in range(n)]
    c = rng.choice([0.25, 1.0, 2.0])
    Bt = torch.tensor(B, dtype=DT).reshape(n, n)
    return Bt @ Bt.T + c * torch.eye(n, dtype=DT), {"root": None}


def fam_lowrank(rng, n):
    q = max(1, [n // 2, n - 1, (n + 1) // 2][n % 3])      # the same numerical rank for every member of a batch
    B = torch.tensor([[_dy(rng) for _ in range(q)] for _ in range(n)], dtype=DT).reshape(n, q)
    if float(B.abs().max()) == 0.0:
        B[0, 0] = 1.0                      # the zero matrix (largest diagonal entry 0) is outside the property's domain
    return B @ B.T, {"root": B, "q": q}


def fam_lowrank_mixed(rng, n):
    # members of different numerical rank in one batch (the loop guard is shared by the batch)
    q = max(1, rng.choice([1, n // 2, n - 1]))
    B = torch.tensor([[_dy(rng) for _ in range(q)] for _ in range(n)], dtype=DT).reshape(n, q)
    if float(B.abs().max()) == 0.0:
        B[0, 0] = 1.0                      # the zero matrix (largest diagonal entry 0) is outside the property's domain
    return B @ B.T, {"root": B, "q": q}


def fam_tied_kernel(rng, n):
    # Laplace kernel 2^-|x_i - x_j| on distinct integer points: unit diagonal, exact entries, SPD
    pts = rng.sample(range(0, n + 3), n)
    K = torch.tensor([[2.0 ** (-abs(a - b)) for b in pts] for a in pts], dtype=DT).reshape(n, n)
    return K, {"pts": pts}


def fam_persym(rng, n):
    K0, _ = fam_full(rng, n)
    J = torch.eye(n, dtype=DT).flip(0)
    return K0 + J @ K0 @ J, {}


def fam_blocksym(rng, n):
    # identical diagonal blocks: exact ties at (almost) every step
    m = max(1, n // 2)
    B0, _ = fam_full(rng, m)
    reps = n // m
    K = torch.zeros(n, n, dtype=DT)
    for r in range(reps):
        K[r * m:(r + 1) * m, r * m:(r + 1) * m] = B0
    for i in range(reps * m, n):
        K[i, i] = B0[0, 0]
    return K, {"block": B0, "m": m, "reps": reps}


def fam_diag(rng, n):
    d = [rng.choice([0.5, 1.0, 2.0, 4.0]) for _ in range(n)]
    return torch.diag(torch.tensor(d, dtype=DT)), {"diag": d}


def fam_toeplitz(rng, n):
    c = [rng.choice([3.0, 4.0, 6.0])] + [_dy(rng, -8, 8, 8) * (0.5 ** k) for k in range(1, n)]
    # diagonally dominant -> SPD
    s = sum(abs(x) for x in c[1:])
    c[0] = float(math.ceil(2 * s + 1))
    K = torch.tensor([[c[abs(i - j)] for j in range(n)] for i in range(n)], dtype=DT).reshape(n, n)
    return K, {"col": c}


def fam_scaled(rng, n):
    K0, _ = fam_full(rng, n)
    e = torch.tensor([2.0 ** rng.randint(-6, 6) for _ in range(n)], dtype=DT)
    return e[:, None] * K0 * e[None, :], {}


def fam_geometric(rng, n):
    # K = P A diag(r^-i) A^T P^T, A unit lower triangular with dyadic entries, r = 16 (n <= 8) or 8: the relative residual
    # trace falls by a factor r per column and crosses 2^-23 (float32 eps) well before full rank; every entry is exact
    r = 16.0 if n <= 8 else 8.0
    A = torch.eye(n, dtype=DT)
    for i in range(n):
        for j in range(i):
            A[i, j] = rng.randint(-4, 4) / 4
    lam = torch.tensor([r ** (-i) for i in range(n)], dtype=DT)
    K = (A * lam) @ A.T
    p = list(range(n))
    rng.shuffle(p)
    return sym_permute(K, p), {}


FAMILIES = {
    "full": fam_full, "lowrank": fam_lowrank, "lowrank_mixed": fam_lowrank_mixed, "tied_kernel": fam_tied_kernel, "persym": fam_persym,
    "blocksym": fam_blocksym, "diag": fam_diag, "toeplitz": fam_toeplitz, "scaled": fam_scaled,
    "geometric": fam_geometric,
}


def sym_permute(K, perm):
    p = torch.tensor(perm)
    return K[p][:, p]


# ------------------------------------------------------------------------------------------------
# operator classes: build(cls, Ks (list of members), metas, batch_shape) -> LinearOperator or None

def _stack(ts, batch_shape):
    if len(batch_shape) == 0:
        return ts[0].clone()
    return torch.stack(ts).reshape(*batch_shape, *ts[0].shape).clone()


def exact_chol_root(K):
    return None


def build_op(cls, Ks, metas, batch_shape, fam):
    """Returns an operator whose dense matrix is exactly stack(Ks), built through class `cls`,
    or None when the class cannot represent this family."""
    import linear_operator.operators as O
    n = Ks[0].shape[-1]
    Kt = _stack(Ks, batch_shape)
    if cls == "Dense":
        return O.DenseLinearOperator(Kt)
    if cls == "Sum":
        return O.DenseLinearOperator(Kt * 0.25) + O.DenseLinearOperator(Kt * 0.75)
    if cls == "ConstantMul":
        return O.DenseLinearOperator(Kt * 0.5) * 2.0
    if cls == "AddedDiagK":
        dg = torch.diagonal(Kt, dim1=-2, dim2=-1) * 0.5
        return O.AddedDiagLinearOperator(O.DenseLinearOperator(Kt - torch.diag_embed(dg)), O.DiagLinearOperator(dg))
    if cls == "Root":
        if fam != "lowrank":
            return None
        if len({m["q"] for m in metas}) != 1:
            return None
        return O.RootLinearOperator(_stack([m["root"] for m in metas], batch_shape))
    if cls == "Matmul":
        if fam != "lowrank" or len({m["q"] for m in metas}) != 1:
            return None
        Bt = _stack([m["root"] for m in metas], batch_shape)
        return O.MatmulLinearOperator(O.DenseLinearOperator(Bt), O.DenseLinearOperator(Bt.mT.contiguous()))
    if cls == "Diag":
        if fam != "diag":
            return None
        return O.DiagLinearOperator(_stack([torch.tensor(m["diag"], dtype=DT) for m in metas], batch_shape))
    if cls == "Toeplitz":
        if fam != "toeplitz":
            return None
        return O.ToeplitzLinearOperator(_stack([torch.tensor(m["col"], dtype=DT) for m in metas], batch_shape))
    if cls == "BlockDiag":
        if fam != "blocksym" or any(m["reps"] * m["m"] != n for m in metas):
            return None
        m0 = metas[0]
        blocks = [torch.stack([m["block"]] * m["reps"]) for m in metas]      # (reps, m, m) per member
        bt = _stack(blocks, batch_shape)
        return O.BlockDiagLinearOperator(O.DenseLinearOperator(bt))
    if cls == "Kronecker":
        if fam != "blocksym" or any(m["reps"] * m["m"] != n for m in metas):
            return None
        eye = [torch.eye(m["reps"], dtype=DT) for m in metas]
        return O.KroneckerProductLinearOperator(O.DenseLinearOperator(_stack(eye, batch_shape)),
                                                O.DenseLinearOperator(_stack([m["block"] for m in metas], batch_shape)))
    if cls == "Kernel":
        if fam != "tied_kernel":
            return None
        x = _stack([torch.tensor(m["pts"], dtype=DT).unsqueeze(-1) for m in metas], batch_shape)

        def covar(x1, x2, **kw):
            return torch.pow(torch.tensor(2.0, dtype=DT), -(x1 - x2.mT).abs())
        return O.KernelLinearOperator(x, x, covar_func=covar)
    raise ValueError(cls)


OP_CLASSES = ["Dense", "Sum", "ConstantMul", "AddedDiagK", "Root", "Matmul", "Diag", "Toeplitz",
              "BlockDiag", "Kronecker", "Kernel"]
CLASSES_FOR = {
    "full": ["Dense", "Sum", "ConstantMul", "AddedDiagK"],
    "lowrank": ["Dense", "Root", "Matmul", "Sum"],
    "lowrank_mixed": ["Dense"],
    "tied_kernel": ["Dense", "Kernel", "ConstantMul"],
    "persym": ["Dense", "AddedDiagK"],
    "blocksym": ["Dense", "BlockDiag", "Kronecker"],
    "diag": ["Dense", "Diag"],
    "toeplitz": ["Dense", "Toeplitz"],
    "scaled": ["Dense", "Sum"],
    "geometric": ["Dense", "Sum"],
}


# ------------------------------------------------------------------------------------------------
# independent reference: textbook greedy pivoted Cholesky on python floats (right-looking on the
# explicit residual matrix — a different algorithm organisation than the library's)

def ref_pivchol(Ks, rank, tol):
    """Ks: list of n x n nested lists.  Returns (r, [(L (n x r), perm)], info) where info carries,
    per executed step, the error of every member (for the guard margin filter)."""
    n = len(Ks[0])
    kmax = min(rank, n)
    if kmax == 0:
        return None
    st = []
    for K in Ks:
        Rm = [row[:] for row in K]
        orig = max(K[i][i] for i in range(n))
        st.append({"R": Rm, "orig": orig, "perm": list(range(n)), "cols": [], "err": sum(abs(K[i][i]) for i in range(n)) / orig})
    m = 0
    errs_hist = []
    while m == 0 or (m < kmax and max(s["err"] for s in st) > tol):
        for s in st:
            Rm, perm = s["R"], s["perm"]
            cand = perm[m:]
            vals = [Rm[i][i] for i in cand]
            best = 0
            for t in range(1, len(vals)):
                if vals[t] > vals[best] or (vals[t] != vals[t] and vals[best] == vals[best]):
                    best = t
            mi = best + m
            perm[m], perm[mi] = perm[mi], perm[m]
            p = perm[m]
            piv = Rm[p][p]
            sq = math.sqrt(piv) if piv >= 0 else float("nan")
            col = [0.0] * n
            col[p] = sq
            if m + 1 < n:
                for i in perm[m + 1:]:
                    col[i] = (Rm[p][i] / sq) if sq != 0 else (float("nan") if Rm[p][i] == 0 or Rm[p][i] != Rm[p][i] else math.copysign(float("inf"), Rm[p][i]))
                for i in perm[m + 1:]:
                    for j in perm[m + 1:]:
                        Rm[i][j] -= col[i] * col[j]
                s["err"] = sum(abs(Rm[i][i]) for i in perm[m + 1:]) / s["orig"]
            s["cols"].append(col)
        m += 1
        errs_hist.append([s["err"] for s in st])
    out = []
    for s in st:
        L = [[s["cols"][j][i] for j in range(m)] for i in range(n)]
        out.append((L, s["perm"]))
    return m, out, errs_hist


# ------------------------------------------------------------------------------------------------
# property predicates on the implementation's outputs

def replay_diag(K, L, perm, r):
    """Recompute, bit for bit, the diagonal the implementation tracked (same elementwise IEEE
    operations: d[x] -= L[x, j]**2 on the not-yet-pivoted x) and the permutation as it stood before
    each body.  K, L: torch (n x n), (n x r); perm: list.  Returns list of (perm_before_j, d_j)."""
    n = K.shape[-1]
    d = [K[i, i].item() for i in range(n)]
    cur = list(range(n))
    hist = []
    for j in range(r):
        hist.append((cur[:], d[:]))
        p = perm[j]
        pos = cur.index(p)
        cur[j], cur[pos] = cur[pos], cur[j]
        if j + 1 < n:
            for x in cur[j + 1:]:
                v = L[x, j].item()
                d[x] = d[x] - v * v
    hist.append((cur[:], d[:]))
    return hist


def model_arith_diag(K, perm, r):
    """The tracked diagonal before each body as the MODEL's arithmetic computes it (sequential left-to-right sums
    starting from 0.0, exactly Model.pc_step), driven by the implementation's pivot sequence `perm`.
    K: nested lists.  Returns list of (perm_before_j, d_j) like replay_diag."""
    n = len(K)
    d = [K[i][i] for i in range(n)]
    cur = list(range(n))
    Lrows = []
    hist = []
    for j in range(r):
        hist.append((cur[:], d[:]))
        p = perm[j]
        pos = cur.index(p)
        cur[j], cur[pos] = cur[pos], cur[j]
        row = [0.0] * n
        if d[p] < 0 or d[p] != d[p]:
            break
        piv = math.sqrt(d[p])
        row[p] = piv
        if j + 1 < n:
            for x in cur[j + 1:]:
                if j > 0:
                    acc = 0.0
                    for l in range(j):
                        acc = acc + Lrows[l][p] * Lrows[l][x]
                    v = K[p][x] - acc
                else:
                    v = K[p][x]
                v = v / piv if piv != 0 else float("nan")
                row[x] = v
            for x in cur[j + 1:]:
                d[x] = d[x] - row[x] * row[x]
        Lrows.append(row)
    return hist


def rounding_dependent_tie(K, L, perm, r):
    """True when, at some body, the set of maximal remaining diagonal entries differs between the implementation's
    arithmetic (bit-wise replay) and the model's arithmetic (sequential sums): a tie that is exact in one of them
    only.  Structural ties (exact in both) are NOT reported: there the tie RULE decides and is compared."""
    try:
        hi = replay_diag(K, L, perm, r)
        hm = model_arith_diag(K.tolist(), perm, r)
    except (ValueError, ZeroDivisionError):
        return False
    for j in range(min(r, len(hm))):
        cur, di = hi[j]
        _, dm = hm[j]
        cand = cur[j:]
        vi = [di[x] for x in cand]
        vm = [dm[x] for x in cand]
        if any(v != v for v in vi + vm):
            return False
        si = {x for x, v in zip(cand, vi) if v == max(vi)}
        sm = {x for x, v in zip(cand, vm) if v == max(vm)}
        if si != sm:
            return True
    return False


def check_pc_member(K, L, perm, r, rtol=1e-8):
    """The C10 pivoted-Cholesky predicates for one member.  Returns (list of failures, info)."""
    n = K.shape[-1]
    fails = []
    info = {"min_gap": float("inf"), "ties": 0}
    scale = max(1e-300, float(K.diagonal().abs().max()))
    if sorted(perm) != list(range(n)):
        return [("perm", "permutation is not a permutation of range(n): %s" % perm)], info
    if tuple(L.shape) != (n, r):
        return [("shape", "factor has shape %s, expected %s" % (tuple(L.shape), (n, r)))], info
    if not torch.isfinite(L).all():
        return [("nonfinite", "factor has non-finite entries")], info
    Rm = K - L @ L.T
    piv = perm[:r]
    if r > 0 and (Rm[piv, :].abs().max().item() > rtol * scale * n or Rm[:, piv].abs().max().item() > rtol * scale * n):
        fails.append(("vanish", "residual does not vanish on pivot rows/columns: max %.3e" % max(Rm[piv, :].abs().max().item(), Rm[:, piv].abs().max().item())))
    ev = torch.linalg.eigvalsh((Rm + Rm.T) / 2)
    if ev.min().item() < -rtol * scale * n:
        fails.append(("psd", "residual is not PSD: min eigenvalue %.3e" % ev.min().item()))
    if r == n and Rm.abs().max().item() > rtol * scale * n:
        fails.append(("exact", "factorisation not exact at full rank: %.3e" % Rm.abs().max().item()))
    # trace monotone, column by column
    tr = [float(K.diagonal().sum())]
    for j in range(r):
        tr.append(tr[-1] - float((L[:, j] ** 2).sum()))
    if any(tr[j + 1] > tr[j] + 1e-12 * scale for j in range(r)):
        fails.append(("trace", "residual trace increases: %s" % tr))
    # greedy choice, exact (bitwise replay of the tracked diagonal), first-maximum tie rule
    hist = replay_diag(K, L, perm, r)
    for j in range(r):
        cur, d = hist[j]
        cand = cur[j:]
        vals = [d[x] for x in cand]
        mx = max(vals)
        first = vals.index(mx)
        chosen = cand.index(perm[j])
        others = [v for v in vals if v != mx]
        if others:
            # relative to the current maximum (late pivots of a fast-decaying matrix are tiny), but never finer than
            # 1e-5 of the matrix scale: rounding noise of the tracked diagonal is ~1e-16 * scale
            info["min_gap"] = min(info["min_gap"], (mx - max(others)) / max(abs(mx), 1e-5 * scale))
        if vals.count(mx) > 1:
            info["ties"] += 1
        if chosen != first:
            if d[perm[j]] < mx - max(1e-9 * abs(mx), 1e-13 * scale):
                fails.append(("argmax", "pivot %d (index %d, residual diagonal %.17g) is not the largest remaining residual diagonal entry (%.17g at index %d)"
                              % (j, perm[j], d[perm[j]], mx, cand[first])))
            elif d[perm[j]] == mx:
                # an exact tie broken towards a later position: still "the largest remaining residual diagonal
                # entry", so NOT a failure of the property; the model (torch.max: first maximum) will disagree and
                # the run reports that as a model-implementation disagreement
                info["tie_rule_differs"] = info.get("tie_rule_differs", 0) + 1
            else:
                info.setdefault("near_tie", []).append(j)
    return fails, info


def residual_error(K, L, perm, r):
    """errors[b] as the property defines it: trace of the residual over the unpivoted indices,
    relative to the largest diagonal entry."""
    n = K.shape[-1]
    d = K.diagonal() - (L ** 2).sum(-1)
    rest = perm[r:]
    return float(d[rest].abs().sum() / K.diagonal().max())


def check_pc_guard(Ks, Ls, perms, r, rank, tol, slack=1e-9):
    """early stop only once every member's error <= tol; and no stop while some error > tol."""
    n = Ks[0].shape[-1]
    kmax = min(rank, n)
    fails = []
    if not (1 <= r <= kmax):
        return ["rank of the factor %d not in 1..min(rank, n) = %d" % (r, kmax)]
    if r < kmax:
        errs = [residual_error(K, L, p, r) for K, L, p in zip(Ks, Ls, perms)]
        if max(errs) > tol * (1 + slack) + 1e-13:
            fails.append("stopped at %d < %d although the residual error %.6e exceeds error_tol %.6e" % (r, kmax, max(errs), tol))
    for m in range(1, r):
        errs = [residual_error(K, L[:, :m], p, m) for K, L, p in zip(Ks, Ls, perms)]
        if max(errs) < tol * (1 - slack) - 1e-13:
            fails.append("continued after %d columns although every residual error (max %.6e) is below error_tol %.6e" % (m, max(errs), tol))
            break
    return fails


def check_precond_member(K, dvec, Lref, clI, Pd, ld, rtol=1e-13):
    """closure(I) is the inverse of M = Lref Lref^T + D, symmetric positive definite; P = M; logdet.
    Tolerances are a few hundred times the accuracy the implementation reaches on the whole grid (measured:
    inverse 4e-16, logdet 2.5e-14, operator 4e-16 in the units below) so that an inexactness of relative size
    1e-7 in D is still seen.  The inverse is normalised by the conditioning of the Woodbury form itself,
    max|M| / min d (the closure computes (1/s)(I - Q1 Q1^T): cancellation of that size is inherent)."""
    n = K.shape[-1]
    fails = []
    M = Lref @ Lref.T + torch.diag(dvec)
    I = torch.eye(n, dtype=DT)
    cond = float(torch.linalg.cond(M))
    wood = M.abs().max().item() / max(1e-300, dvec.min().item())
    sc = n * max(1.0, cond, wood)
    e1 = (clI @ M - I).abs().max().item()
    e2 = (M @ clI - I).abs().max().item()
    if not (e1 <= rtol * sc and e2 <= rtol * sc):
        fails.append(("inverse", "closure is not the inverse of L L^T + D: |closure(I) M - I| = %.3e, |M closure(I) - I| = %.3e (cond %.2e, max|M|/min d %.2e)" % (e1, e2, cond, wood)))
    asym = (clI - clI.T).abs().max().item()
    if asym > 1e-12 * clI.abs().max().item():
        fails.append(("sym", "closure matrix is not symmetric: %.3e" % asym))
    ev = torch.linalg.eigvalsh((clI + clI.T) / 2)
    if not ev.min().item() > 0:
        fails.append(("pd", "closure matrix is not positive definite: min eigenvalue %.3e" % ev.min().item()))
    dP = (Pd - M).abs().max().item()
    if not dP <= 1e-12 * max(1.0, M.abs().max().item()):
        fails.append(("operator", "returned operator is not L L^T + D: max deviation %.3e" % dP))
    ldref = torch.linalg.slogdet(M)[1].item()
    if not abs(ld - ldref) <= 1e-11 * max(1.0, abs(ldref)) + 1e-15 * cond:
        fails.append(("logdet", "reported logdet %.12g differs from log|L L^T + D| = %.12g" % (ld, ldref)))
    return fails
