"""C01 — every operator acts exactly as the dense matrix it represents.

theorems : coq/C01/Property.v over coq/C01/Model.v (transcription of _matmul / _t_matmul / _transpose_nonbatch /
           _size / to_dense / public matmul, rmatmul, size accessors per class) and coq/C01/OpExpr.v (denote = the documented
           dense meaning)
tie      : correspondence, exact in Z: for every generated operator expression the REAL operator is built
           (harness/opbuild.build) and queried ( op @ X for four kinds of right-hand side, op.matmul, X @ op, v @ op,
           op.mT @ X, op._t_matmul, op.to_dense(), op.mT.to_dense(), shape/size()/dim()/batch_shape/matrix_shape/numel() );
           the float64 observations are written as literals into gen/cases_*.v where Coq evaluates the model
           on the same expression (vm_compute) and lists the queries whose result differs
predicate: independently, every observation (float64, float32, and float32 under default dtype float64) is
           compared in Python with plain torch on the dense matrix assembled by opbuild.dense (the oracle)
triage   : model != implementation  and predicate fails  -> violation (or keyed known finding)
           model != implementation  and predicate holds  -> the model is wrong (reported no-failing-input)
           model == implementation  and predicate fails  -> violation (defect transcribed faithfully; known finding)
mechanics: 3 worker processes build and query the cells (chunks of 40; the random stream of a chunk depends only on
           (seed, chunk index)); 3 shard compilers; tensors are written as flat chunks of primitive integers (Check.untable)
"""
import json
import math
import os
import random
import time
import traceback

import torch

from . import common, opbuild as ob
from .common import natlist

PROP = "C01"
SH = 100                     # cases per shard

HDR = ("From Coq Require Import List ZArith Bool Uint63.\nImport ListNotations.\n"
       "Require Import C01.Sums C01.Batch C01.Tensor C01.OpExpr C01.Model C01.Covered C01.Check.\nOpen Scope Z_scope.\n")

FFT_CLASSES = {"Toeplitz"}   # results come out of fft/ifft: integers only up to rounding error


def regenerate():
    os.makedirs(os.path.join(common.COQ, PROP, "gen"), exist_ok=True)
    return {}


# ------------------------------------------------------------------------------------------ Coq literals

def zl(v):
    v = int(v)
    return "(%d)" % v if v < 0 else "%d" % v


def flat_lit(x):
    """integer valued torch tensor -> flat row-major data in chunks of primitive 63-bit integers (sign-magnitude: 2|v| + [v<0]), see
    coq/C01/Check.v untable: primitive integer literals elaborate ~3x faster than nested lists of Z numerals"""
    ints = [2 * abs(int(round(v))) + (1 if v < 0 else 0) for v in x.reshape(-1).tolist()]
    chunks = [ints[i:i + 400] for i in range(0, len(ints), 400)]
    return "[" + "; ".join("[" + "; ".join(map(str, ch)) + "]" for ch in chunks) + "]%uint63"


def bt_lit(x):
    """torch tensor (..., r, c) -> BT literal (batch shape innermost-first)"""
    bs = list(x.shape[:-2])[::-1]
    r, c = x.shape[-2:]
    return "(of_flat %s %d %d %s)" % (natlist(bs), r, c, flat_lit(x))


def bt_mat(t):
    return bt_lit(ob.tt(t, torch.float64))


def bt_vec(t):
    return bt_lit(ob.tt(t, torch.float64).unsqueeze(-1))


def bt_scalar(t):
    return bt_lit(ob.tt(t, torch.float64).unsqueeze(-1).unsqueeze(-1))


def bool_list(t):
    return "[" + "; ".join("true" if v else "false" for v in t["data"]) + "]"


def expr_lit(e):
    c = e["cls"]
    L = expr_lit
    ops = lambda xs: "[" + "; ".join(L(x) for x in xs) + "]"
    if c in ("Dense", "UserMinimal"):
        return "(%s %s)" % (c, bt_mat(e["t"]))
    if c == "Diag":
        return "(Diag %s)" % bt_vec(e["d"])
    if c == "ConstantDiag":
        return "(ConstantDiag %s %d)" % (bt_vec(e["c"]), e["n"])
    if c == "Identity":
        return "(Identity %d %s)" % (e["n"], natlist(list(e.get("batch", []))[::-1]))
    if c == "Zero":
        return "(Zero %s %d %d)" % (natlist(list(e["shape"][:-2])[::-1]), e["shape"][-2], e["shape"][-1])
    if c == "Toeplitz":
        return "(Toeplitz %s)" % bt_vec(e["col"])
    if c in ("Triangular", "Chol"):
        return "(%s %s %s)" % (c, bt_mat(e["t"]), "true" if e["upper"] else "false")
    if c in ("Root", "LowRankRoot"):
        r = e["root"]
        inner = L(r) if (isinstance(r, dict) and "cls" in r) else "(Dense %s)" % bt_mat(r)
        return "(%s %s)" % (c, inner)
    if c in ("Kron", "KronDiag"):
        return "(%s %s)" % (c, ops(e["ops"]))
    if c == "KronTriangular":
        return "(KronTriangular %s %s)" % (ops(e["ops"]), "true" if e["upper"] else "false")
    if c == "KronAddedDiag":
        return "(KronAddedDiag %s %s)" % (L(e["kron"]), L(e["diag"]))
    if c == "SumKron":
        return "(SumKron %s %s)" % (L(e["a"]), L(e["b"]))
    if c == "AddedDiag":
        return "(AddedDiag %s %s)" % (L(e["base"]), L(e["diag"]))
    if c == "LowRankRootAddedDiag":
        return "(LowRankRootAddedDiag %s %s)" % (L(e["root"]), L(e["diag"]))
    if c in ("Sum", "PsdSum"):
        return "(%s %s)" % (c, ops(e["ops"]))
    if c in ("Matmul", "Mul"):
        return "(%s %s %s)" % (c, L(e["l"]), L(e["r"]))
    if c == "ConstantMul":
        return "(ConstantMul %s %s)" % (L(e["base"]), bt_scalar(e["c"]))
    if c in ("BlockDiag", "BlockInterleaved", "SumBatch"):
        # block_dim: "the dimension that specifies the blocks".  The model's constructors take the blocks from the LAST
        # batch dimension; another block_dim is written as the same constructor over the base whose leaf tensors have
        # that batch dimension moved to the last batch position (move_batch: the documented meaning, plain movedim on the
        # leaves) - the library's own route (BlockLinearOperator.__init__ -> _permute_batch of the operator tree) is what
        # is compared against it.
        return "(%s %s)" % (c, L(move_batch(e["base"], e.get("block_dim", -3))))
    if c == "BatchRepeat":
        return "(BatchRepeat %s %s)" % (L(e["base"]), natlist(list(e["rep"])[::-1]))
    if c == "Cat":
        d = e["dim"]
        nb = len(ob.shape_of(e)) - 2
        if d in (-2, nb):
            dim = "CatRows"
        elif d in (-1, nb + 1):
            dim = "CatCols"
        else:
            pos = d if d >= 0 else d + nb + 2          # position from the left in the batch shape
            dim = "(CatBatch %d)" % (nb - 1 - pos)
        return "(Cat %s %s)" % (ops(e["ops"]), dim)
    if c == "Interpolated":
        return "(Interpolated %s %s %s %s %s)" % (L(e["base"]), bt_mat(e["li"]), bt_mat(e["lv"]), bt_mat(e["ri"]), bt_mat(e["rv"]))
    if c == "Masked":
        return "(Masked %s %s %s)" % (L(e["base"]), bool_list(e["row_mask"]), bool_list(e["col_mask"]))
    if c == "Permutation":
        return "(Permutation %s)" % bt_vec(e["perm"])
    if c == "TransposePermutation":
        return "(TransposePermutation %d)" % e["m"]
    if c == "Kernel":
        if e.get("c") is not None:
            raise ValueError("kernel parameter c is not expressible")
        return "(Kernel %s %s %s)" % (bt_mat(e["x1"]), bt_mat(e["x2"]), "true" if e.get("square") else "false")
    raise ValueError("unknown class %s" % c)


# ------------------------------------------------------------------------------------------ block_dim normalisation

def _mv(t, p, nb, trailing):
    """tensor spec with nb batch dims + `trailing` matrix dims: batch dimension p -> last batch position"""
    if len(t["shape"]) != nb + trailing:
        raise ValueError("operand does not carry the full batch shape")
    x = ob.tt(t)
    y = ob.from_torch(torch.movedim(x, p, nb - 1).contiguous())
    return y


def move_batch(e, block_dim):
    """the expression whose leaf tensors have batch dimension `block_dim` (torch convention, counted in the full shape)
    moved to the last batch position; ValueError where an operand does not carry the full batch shape"""
    nb = len(ob.shape_of(e)) - 2
    p = block_dim + nb + 2 if block_dim < 0 else block_dim
    if not 0 <= p < nb:
        raise ValueError("block_dim out of range")
    if p == nb - 1:
        return e

    def go(x):
        c = x["cls"]
        if len(ob.shape_of(x)) - 2 != nb:
            raise ValueError("child does not carry the full batch shape")
        y = dict(x)
        if c in ("Dense", "UserMinimal", "Triangular", "Chol"):
            y["t"] = _mv(x["t"], p, nb, 2)
        elif c == "Diag":
            y["d"] = _mv(x["d"], p, nb, 1)
        elif c == "ConstantDiag":
            y["c"] = _mv(x["c"], p, nb, 1)
        elif c == "Toeplitz":
            y["col"] = _mv(x["col"], p, nb, 1)
        elif c == "Permutation":
            y["perm"] = _mv(x["perm"], p, nb, 1)
        elif c in ("Root", "LowRankRoot"):
            r = x["root"]
            y["root"] = go(r) if (isinstance(r, dict) and "cls" in r) else _mv(r, p, nb, 2)
        elif c == "Identity":
            b = list(x.get("batch", []))
            y["batch"] = b[:p] + b[p + 1:] + [b[p]]
        elif c == "Kernel":
            y["x1"], y["x2"] = _mv(x["x1"], p, nb, 2), _mv(x["x2"], p, nb, 2)
        elif c in ("Sum", "PsdSum", "Kron", "KronDiag", "KronTriangular"):
            y["ops"] = [go(k) for k in x["ops"]]
        elif c == "Matmul":
            y["l"], y["r"] = go(x["l"]), go(x["r"])
        elif c == "ConstantMul":
            y["base"] = go(x["base"])
            if len(x["c"]["shape"]) not in (0, nb):
                raise ValueError("constant with a partial batch shape")
            if len(x["c"]["shape"]) == nb:
                y["c"] = _mv(x["c"], p, nb, 0)
        elif c in ("AddedDiag", "KronAddedDiag", "LowRankRootAddedDiag", "SumKron"):
            for k in ("base", "diag", "kron", "root", "a", "b"):
                if isinstance(x.get(k), dict) and "cls" in x[k]:
                    y[k] = go(x[k])
        else:
            raise ValueError("move_batch: class %s" % c)
        return y
    return go(e)


# ------------------------------------------------------------------------------------------ tree helpers

def kids_of(e):
    out = []
    if "ops" in e:
        out += list(e["ops"])
    for k in ("base", "l", "r", "kron", "diag", "a", "b", "root"):
        if isinstance(e.get(k), dict) and "cls" in e[k]:
            out.append(e[k])
    return out


def tree_classes(e, acc=None):
    acc = set() if acc is None else acc
    acc.add(e["cls"])
    for k in kids_of(e):
        tree_classes(k, acc)
    return acc


def nodes(e):
    yield e
    for k in kids_of(e):
        yield from nodes(k)


def depth_of(e):
    ks = kids_of(e)
    return 1 + (max(depth_of(k) for k in ks) if ks else 0)


def has_chol_upper(e):
    return any(x["cls"] == "Chol" and x["upper"] for x in nodes(e))


def has_batched_zero(e):
    return any(x["cls"] == "Zero" and len(x["shape"]) > 2 for x in nodes(e))


def has_zero_child(e):
    return any(k["cls"] == "Zero" for x in nodes(e) for k in kids_of(x))


# ------------------------------------------------------------------------------------------ pattern tensors

def pattern_t(shape, a=7, b=3, mod=5, off=2):
    """spec of a big tensor with cheap deterministic small-integer values: entry at flat position k (row-major) in row r is
    ((a*k + b*r) mod `mod`) - off   (never written out as a list: the wide / tall family has thousands of columns)"""
    return {"shape": list(shape), "pattern": [a, b, mod, off]}


def rt(t, dtype=torch.float64):
    """ob.tt for tensor specs, also those given by a pattern"""
    if "pattern" not in t:
        return ob.tt(t, dtype)
    a, b, mod, off = t["pattern"]
    n = int(math.prod(t["shape"]))
    k = torch.arange(n, dtype=torch.int64)
    cols = t["shape"][-1] if t["shape"] else 1
    v = ((a * k + b * (k // max(1, cols))) % mod) - off
    return v.to(dtype).reshape(t["shape"])


def rhs_is_wide(rhs):
    return bool(rhs) and any(d > 64 for d in rhs["shape"])


# ------------------------------------------------------------------------------------------ queries

QKINDS = ["matmul_vec", "matmul_mat", "matmul_batched", "matmul_bcast", "rmatmul", "rmatvec", "tmatmul", "t_matmul_internal",
          "to_dense", "t_to_dense", "size", "accessors"]


def make_queries(rng, e):
    """deterministic list of queries (kind, rhs spec or None) for expression e"""
    shp = ob.shape_of(e)
    m, n = shp[-2:]
    batch = shp[:-2]
    qs = []
    for kind in ("vec", "mat", "batched", "bcast"):
        qs.append(("matmul_" + kind, ob.gen_rhs(rng, e, kind)))
    # left multiplication: Y (.., p, m) @ op ; v (m) @ op
    p = rng.choice([1, 2, 3])
    yb = rng.choice([[], batch, [2] + [1] * len(batch)]) if batch else rng.choice([[], [2]])
    qs.append(("rmatmul", ob.rand_t(rng, list(yb) + [p, m])))
    qs.append(("rmatvec", ob.rand_t(rng, [m])))
    # transposed operator times a matrix
    tb = rng.choice([[], batch])
    qs.append(("tmatmul", ob.rand_t(rng, list(tb) + [m, rng.choice([1, 2])])))
    # the internal _t_matmul (reached publicly only below Root-like parents and in backward passes)
    tb2 = rng.choice([[], batch])
    qs.append(("t_matmul_internal", ob.rand_t(rng, list(tb2) + [m, rng.choice([1, 3])])))
    qs += [("to_dense", None), ("t_to_dense", None), ("size", None), ("accessors", None)]
    return qs


def densify(r):
    import linear_operator
    if isinstance(r, linear_operator.operators.LinearOperator):
        return r.to_dense(), type(r).__name__
    return r, None


def run_query(op, kind, rhs, dtype):
    """returns ('ok', tensor, extra) | ('err', text)   -- tensor is what the implementation returned (densified)"""
    try:
        extra = {}
        if kind.startswith("matmul_"):
            X = rt(rhs, dtype)
            if kind == "matmul_batched" and X.dim() >= 2:
                X = X.mT.contiguous().mT          # same values in a NON-contiguous (column-major) layout
            r1, cls1 = densify(op @ X)
            r2, _ = densify(op.matmul(X))
            if r1.shape != r2.shape or not torch.equal(r1, r2):
                return ("err", "op @ X and op.matmul(X) differ")
            if cls1:
                extra["returned"] = cls1
            res = r1
        elif kind in ("rmatmul", "rmatvec"):
            Y = rt(rhs, dtype)
            res, cls1 = densify(Y @ op)
            if cls1:
                extra["returned"] = cls1
        elif kind == "tmatmul":
            X = rt(rhs, dtype)
            res, cls1 = densify(op.mT @ X)
            if cls1:
                extra["returned"] = cls1
        elif kind == "t_matmul_internal":
            X = rt(rhs, dtype)
            res, cls1 = densify(op._t_matmul(X))
            if cls1:
                extra["returned"] = cls1
        elif kind == "to_dense":
            res = op.to_dense()
        elif kind == "t_to_dense":
            res = op.mT.to_dense()
        elif kind == "size":
            s = op.shape
            ok = (tuple(op.size()) == tuple(s) and op.dim() == len(s) and op.ndimension() == len(s)
                  and tuple(op.batch_shape) == tuple(s[:-2]) and tuple(op.matrix_shape) == tuple(s[-2:])
                  and op.numel() == int(math.prod(s)) and op.size(-1) == s[-1] and op.size(-2) == s[-2])
            if not ok:
                return ("err", "size()/dim()/batch_shape/matrix_shape/numel() inconsistent with shape %s" % (tuple(s),))
            return ("ok", tuple(int(v) for v in s), extra)
        elif kind == "accessors":
            return ("ok", (int(op.dim()), int(op.numel())), extra)
        else:
            raise ValueError(kind)
        if not torch.is_tensor(res):
            return ("err", "result is %s" % type(res).__name__)
        return ("ok", res.detach(), extra)
    except Exception as ex:
        return ("err", "%s:%s" % (type(ex).__name__, str(ex)[:60]))


def expected(D, kind, rhs, dtype):
    """oracle: plain torch on the dense matrix D (always evaluated in float64: exact for the integer data)"""
    dtype = torch.float64
    D = D.to(torch.float64)
    if kind.startswith("matmul_"):
        return torch.matmul(D, rt(rhs, dtype))
    if kind in ("rmatmul", "rmatvec"):
        return torch.matmul(rt(rhs, dtype), D)
    if kind in ("tmatmul", "t_matmul_internal"):
        return torch.matmul(D.mT, rt(rhs, dtype))
    if kind == "to_dense":
        return D
    if kind == "t_to_dense":
        return D.mT
    if kind == "size":
        return tuple(D.shape)
    if kind == "accessors":
        return (D.dim(), D.numel())
    raise ValueError(kind)


def tol_for(e, dtype, scale):
    """absolute tolerance for one observation whose dense value has largest entry `scale`.
    Entries are small integers: results are EXACT in float64 (|values| < 2^52) and in float32 as long as the values
    (and, with margin, the intermediate sums) stay below 2^24; deep Kronecker / product nests exceed that in float32, and
    FFT-based Toeplitz products are never exact: there a relative tolerance applies."""
    fft = bool(tree_classes(e) & FFT_CLASSES)
    if dtype == torch.float64:
        return (1e-9 * max(1.0, scale)) if (fft or scale > 2.0 ** 50) else 0.0
    if fft:
        return 2e-4 * max(1.0, scale)
    return 0.0 if scale <= 4096 else 1e-5 * scale


def predicate(e, kind, rhs, dtype, obs, D):
    """None if the observation agrees with the dense oracle, else (failkind, text)"""
    if obs[0] == "err":
        return ("raises", obs[1])
    exp = expected(D, kind, rhs, dtype)
    got = obs[1]
    if kind == "size":
        return None if tuple(got) == tuple(exp) else ("shape", "shape %s, dense %s" % (got, exp))
    if kind == "accessors":
        return None if tuple(got) == tuple(exp) else ("shape", "(dim(), numel()) = %s, dense %s" % (got, exp))
    if tuple(got.shape) != tuple(exp.shape):
        return ("shape", "result shape %s, dense result shape %s" % (tuple(got.shape), tuple(exp.shape)))
    g64, e64 = got.to(torch.float64), exp.to(torch.float64)
    if not bool(torch.all(torch.isfinite(g64))):
        return ("value", "non-finite entries")
    tol = tol_for(e, dtype, float(e64.abs().max()) if e64.numel() else 0.0)
    err = float((g64 - e64).abs().max()) if g64.numel() else 0.0
    if err > tol:
        return ("value", "max abs difference %g" % err)
    if got.dtype != dtype:
        return ("dtype", "result dtype %s, operator dtype %s" % (got.dtype, dtype))
    return None


def obs_lit(kind, obs, vec_rows):
    """observation -> Coq [obs] literal.  1-D results are given as r x 1 matrices."""
    if obs[0] == "err":
        return "ObsErr"
    if kind == "size":
        s = list(obs[1])
        return "(ObsT %s %d %d [])" % (natlist(s[:-2][::-1]), s[-2], s[-1])
    if kind == "accessors":
        return "(ObsT [] %d %d [])" % (obs[1][0], obs[1][1])
    x = obs[1].to(torch.float64)
    if vec_rows:
        x = x.unsqueeze(-1)
    if x.dim() < 2:
        return "ObsErr"
    if not bool(torch.all(torch.isfinite(x))):
        return "ObsErr"
    bs = list(x.shape[:-2])[::-1]
    r, c = x.shape[-2:]
    return "(ObsF %s %d %d %s)" % (natlist(bs), r, c, flat_lit(x))


def query_lit(kind, rhs):
    if kind.startswith("matmul_"):
        X = ob.tt(rhs, torch.float64)
        return "QMatmul %s" % bt_lit(X.unsqueeze(-1) if X.dim() == 1 else X)
    if kind == "rmatmul":
        return "QRmatmul %s" % bt_lit(ob.tt(rhs, torch.float64))
    if kind == "rmatvec":
        return "QRmatvec %s" % bt_lit(ob.tt(rhs, torch.float64).unsqueeze(-1))
    if kind == "tmatmul":
        return "QTMatmul %s" % bt_lit(ob.tt(rhs, torch.float64))
    if kind == "t_matmul_internal":
        return "QTmmInternal %s" % bt_lit(ob.tt(rhs, torch.float64))
    return {"to_dense": "QToDense", "t_to_dense": "QTToDense", "size": "QSize", "accessors": "QAccessors"}[kind]


def is_vec_query(kind):
    return kind in ("matmul_vec", "rmatvec")


# ------------------------------------------------------------------------------------------ grid

SIZES = {"1x1": (1, 1), "sq": (3, 3), "wide": (2, 3), "tall": (3, 2), "sq2": (2, 2), "sq4": (4, 4)}
BKIND = {"()": [], "(1,)": [1], "(2,)": [2], "(2,1)": [2, 1], "(1,3)": [1, 3], "(2,3)": [2, 3]}
CHILDREN = ["Dense", "Diag", "ConstantDiag", "Identity", "Toeplitz", "Triangular", "Chol", "Root", "LowRankRoot", "Permutation",
            "Kernel", "UserMinimal", "Kron", "Sum", "Matmul", "ConstantMul", "BlockDiag", "BlockInterleaved", "SumBatch",
            "AddedDiag", "Masked", "KronDiag", "BatchRepeat", "Cat", "Interpolated", "Mul", "Zero", "PsdSum", "KronTriangular",
            "KronAddedDiag", "SumKron", "LowRankRootAddedDiag"]
TAKES_CHILD = ["Kron", "Sum", "PsdSum", "Matmul", "ConstantMul", "BlockDiag", "BlockInterleaved", "SumBatch", "BatchRepeat", "Cat",
               "Interpolated", "Masked", "AddedDiag", "KronAddedDiag", "Root"]


TILINGS = [([2], [2]), ([2], [3, 2]), ([2, 3], [2, 1]), ([3], [1, 2]), ([2, 1], [1, 3]), ([2], [1])]
TILE_CHILDREN = ["Dense", "Toeplitz", "Kron", "Sum", "Matmul", "Diag", "BlockDiag", "Masked", "Interpolated", "Cat", "Kernel", "UserMinimal"]


# (base batch shape, block_dim) - block_dim in torch convention (index into the full shape, negative from the right)
BLOCKDIMS = [([3, 2, 4], 0), ([3, 2, 2], -5), ([2, 3], 0), ([2, 3, 2], -4), ([2, 3, 1, 2], 1), ([2, 1, 3], -5), ([3, 2, 4], -3)]
BLOCKDIM_CHILDREN = ["Dense", "Toeplitz", "Diag", "Sum", "Root", "Kron", "Matmul", "ConstantMul"]


# (frame batch shape, dim in torch convention, sizes of the pieces along dim)
CATBATCH = [([3], 0, [1, 2]), ([2, 3], 0, [1, 1, 2]), ([2, 3], 1, [2, 1]), ([2, 3], -3, [1, 2, 1]), ([2, 1, 2], 1, [1, 2]),
            ([2, 2], -4, [2, 3])]
CATBATCH_CHILDREN = ["Dense", "Toeplitz", "Diag", "Sum", "Matmul", "Root", "ConstantMul", "Kernel", "UserMinimal", "Triangular"]
SQUARE_KIDS = {"Toeplitz", "Diag", "Root", "Triangular"}


VARIANTS = [("interp-right-default", ["Dense", "Toeplitz", "Kron", "Sum"]), ("interp-left-default", ["Dense", "Toeplitz", "Kron", "Sum"]),
            ("interp-both-default", ["Dense", "Toeplitz", "Kron", "Sum"]), ("interp-values-default", ["Dense", "Kernel"]),
            ("addeddiag-diag-first", ["Dense", "Toeplitz", "Root", "Kernel", "Sum"]), ("triangular-over-operator", ["Dense", "Dense"]),
            ("tensor-arguments", ["Dense", "Diag", "Toeplitz", "Kron"])]


def cells(quick):
    """deterministic structural grid: (cls, child or None, batch kind, size kind, depth)"""
    out = []
    bk = list(BKIND)
    sk = list(SIZES)
    # every class x every batch kind, size kind cycling
    for ci, cls in enumerate(ob.ALL):
        for bi, b in enumerate(bk):
            out.append((cls, None, b, sk[(ci + bi) % len(sk)], 2))
    # every class x every size kind (batch kinds cycling)
    for ci, cls in enumerate(ob.ALL):
        for si, s in enumerate(sk):
            out.append((cls, None, bk[(ci + 2 * si + 1) % len(bk)], s, 1))
    # every composite x every child class
    for pi, par in enumerate(TAKES_CHILD):
        for chi, ch in enumerate(CHILDREN):
            reps = range(1) if quick else range(len(bk))
            for r in reps:
                out.append((par, ch, bk[(pi + chi + r) % len(bk)], sk[(pi + 2 * chi + r) % len(sk)], 2))
    # depth 3
    for pi, par in enumerate(TAKES_CHILD):
        for chi, ch in enumerate(TAKES_CHILD):
            reps = range(1) if quick else range(3)
            for r in reps:
                out.append((par, ch, bk[(pi + 3 * chi + r) % len(bk)], sk[(2 * pi + chi + r) % len(sk)], 3))
    # BatchRepeat with genuine tiling: every tiling pattern x square / rectangular sizes x a range of base classes
    for ti in range(len(TILINGS)):
        for chi, ch in enumerate(TILE_CHILDREN):
            if quick and (ti + chi) % 2:
                continue
            out.append(("BatchRepeatTile", ch, bk[ti], sk[(ti + chi) % len(sk)], 2))
    # block operators with a block_dim that is NOT the last batch dimension (BlockLinearOperator.__init__ moves it there
    # with _permute_batch): 2..4 batch dimensions, block dimension first / second / middle, the batch dimensions that
    # follow it of equal and of different sizes
    for cls in ("BlockDiag", "BlockInterleaved", "SumBatch"):
        for gi, (bb, bd) in enumerate(BLOCKDIMS):
            for chi, ch in enumerate(BLOCKDIM_CHILDREN):
                if quick and (gi + chi) % 2:
                    continue
                out.append(("BlockDim:" + cls, ch, str(gi), ("sq2", "1x1", "wide")[(gi + chi) % 3] if cls != "BlockDiag" else ("sq2", "1x1")[(gi + chi) % 2], 2))
    # concatenation along a BATCH dimension: outer / inner / middle position (positive and negative dim), 2-3 pieces of
    # different sizes, pieces of different classes
    for gi in range(len(CATBATCH)):
        for chi, ch in enumerate(CATBATCH_CHILDREN):
            if quick and (gi + chi) % 2:
                continue
            out.append(("CatBatch", ch, str(gi), ("sq2", "wide", "1x1", "tall")[(gi + chi) % 4], 2))
    # constructor variants opbuild never produces: default (None) interpolation arguments, AddedDiag(diag, base), Triangular over
    # an operator, raw tensors as Sum / Matmul arguments
    vi = 0
    for name, kids in VARIANTS:
        for chi, ch in enumerate(kids):
            for r in range(1 if quick else 3):
                out.append(("Variant:" + name, ch, bk[(vi + chi + r) % len(bk)], sk[(vi + 2 * chi + r) % len(sk)], 2))
        vi += 1
    # children whose batch shapes differ (the constructors _expand_batch them): every child class under 6 parents
    for pi, par in enumerate(BCAST_PARENTS):
        for chi, ch in enumerate(CHILDREN):
            if ch == "Zero" or (quick and (pi + chi) % 2):
                continue
            out.append(("Bcast:" + par, ch, str((pi + chi) % len(BCAST_PAIRS)), sk[(pi + chi) % len(sk)], 2))
    out += wide_cells()           # thin wide / tall family (same in both tiers)
    if not quick:
        for ci, cls in enumerate(ob.ALL):
            for b in bk:
                for s in sk:
                    out.append((cls, None, b, s, 2))
    return out


def gen_expr(rng, cell):
    cls, child, b, s, depth = cell
    m, n = SIZES[s]
    if cls == "BatchRepeatTile":
        # a batch dimension of size > 1 that is REALLY repeated (opbuild.gen only repeats size-1 dimensions)
        base_batch, rep = TILINGS[list(BKIND).index(b) % len(TILINGS)]
        base = ob.gen(rng, child or "Dense", batch=list(base_batch), m=m, n=n, depth=max(1, depth - 1))
        e = {"cls": "BatchRepeat", "base": base, "rep": list(rep)}
        return sanitize(rng, e, cell)
    if cls.startswith("Variant:"):
        return sanitize(rng, gen_variant(rng, cls.split(":")[1], child, BKIND[b], m, n), (cls, child, b, s, depth))
    if cls.startswith("Bcast:"):
        return sanitize(rng, gen_bcast(rng, cls.split(":")[1], child, int(b), m, n), (cls, child, "()", s, depth))
    if cls == "CatBatch":
        frame, dim, sizes = CATBATCH[int(b)]
        nb = len(frame)
        pos_ = dim if dim >= 0 else dim + nb + 2
        ci = CATBATCH_CHILDREN.index(child)
        if child in SQUARE_KIDS:
            n = m
        pieces = []
        for k, sz_ in enumerate(sizes):
            kid = child if k == 0 else CATBATCH_CHILDREN[(ci + k) % len(CATBATCH_CHILDREN)]
            if kid in SQUARE_KIDS and m != n:
                kid = "Dense"
            pb = list(frame)
            pb[pos_] = sz_
            x = ob.gen(rng, kid, batch=pb, m=m, n=n, depth=1, child="Dense")
            if ob.shape_of(x) != pb + [m, n]:
                x = ob.gen(rng, "Dense", batch=pb, m=m, n=n)
            pieces.append(x)
        return sanitize(rng, {"cls": "Cat", "ops": pieces, "dim": dim}, ("Cat", child, "()", s, depth))
    if cls.startswith("BlockDim:"):
        bb, bd = BLOCKDIMS[int(b)]
        kind = cls.split(":")[1]
        if child == "Root":
            base = ob.gen(rng, "Root", batch=list(bb), m=m, n=n, depth=1)
        else:
            base = ob.gen(rng, child, batch=list(bb), m=m, n=(m if kind == "BlockDiag" else n), depth=1, child="Dense",
                          psd=(kind == "BlockDiag" and child == "Kron"))
        return {"cls": kind, "base": base, "block_dim": bd}
    if cls == "Root" and child is not None:
        # RootLinearOperator over an OPERATOR root (opbuild.gen only makes tensor roots): R R^T with R of class `child`;
        # this is the public path into the children's _t_matmul
        root = ob.gen(rng, child, batch=list(BKIND[b]), m=m, n=n, depth=max(1, depth - 1))
        e = {"cls": "Root", "root": root}
    else:
        e = ob.gen(rng, cls, batch=list(BKIND[b]), m=m, n=n, depth=depth, child=child)
    return sanitize(rng, e, cell)


def sanitize(rng, e, cell):
    """Zero as a nested child (known findings: representation() / unsqueeze / dtype) would otherwise dominate the grid through
    opbuild's random choices and mask everything around it: it is exercised in DEDICATED cells (class or child == Zero) and
    replaced by a dense block of the same shape elsewhere.  In the dedicated Chol cells the orientation flag is fixed by the
    cell (not by the seed); elsewhere the flag opbuild chose is kept."""
    cls, child, b, s, depth = cell
    chol_cell = "Chol" in (cls, child)
    zero_cell = "Zero" in (cls, child)
    upper = (list(BKIND).index(b) + list(SIZES).index(s)) % 2 == 0

    def walk(x, top):
        if x["cls"] == "Chol":
            want = upper if chol_cell else bool(x["upper"])     # (repaired tree: the upper orientation is right everywhere)
            if bool(x["upper"]) != want:
                t = ob.tt(x["t"]).mT.contiguous()
                x = {"cls": "Chol", "t": ob.from_torch(t), "upper": want}
            return x
        if x["cls"] == "Zero" and not top and not zero_cell:
            return {"cls": "Dense", "t": ob.rand_t(rng, x["shape"])}
        y = dict(x)
        if "ops" in y:
            y["ops"] = [walk(k, False) for k in y["ops"]]
        for k in ("base", "l", "r", "kron", "diag", "a", "b", "root"):
            if isinstance(y.get(k), dict) and "cls" in y[k]:
                y[k] = walk(y[k], False)
        return y
    return walk(e, True)


def main_dtype(e):
    """Permutation operators are float32 by construction (no dtype argument): for expressions containing one, a query
    that fails in float64 only because of that (known findings) is compared in Coq through its float32 observation."""
    return torch.float32 if tree_classes(e) & {"Permutation", "TransposePermutation"} else torch.float64


def valid(e):
    """shape side conditions of the constructors that the library itself does not check (mirrors coq/C01/OpExpr.v wfb):
    opbuild.gen occasionally nests a rectangular operator where the class documents a square one."""
    try:
        for k in kids_of(e):
            if not valid(k):
                return False
        c = e["cls"]
        shp = lambda x: ob.shape_of(x)[-2:]
        if c in ("AddedDiag", "KronAddedDiag", "LowRankRootAddedDiag", "SumKron"):
            a, b = kids_of(e)[0], kids_of(e)[1]
            return shp(a) == shp(b) and shp(a)[0] == shp(a)[1]
        if c in ("Sum", "PsdSum"):
            return len({tuple(shp(x)) for x in e["ops"]}) == 1
        if c == "Matmul":
            return shp(e["l"])[1] == shp(e["r"])[0]
        if c == "Mul":
            return shp(e["l"]) == shp(e["r"])
        if c == "BlockDiag":
            return shp(e["base"])[0] == shp(e["base"])[1]
        if c == "Interpolated":
            # the base's batch shape must expand to the batch shape of the interpolation tensors
            bb, ib = ob.shape_of(e["base"])[:-2], list(e["li"]["shape"][:-2])
            try:
                return list(torch.broadcast_shapes(tuple(bb), tuple(ib))) == ib
            except RuntimeError:
                return False
        if c == "Masked":
            return [len(e["row_mask"]["data"]), len(e["col_mask"]["data"])] == shp(e["base"])
        return True
    except Exception:
        return False


def numel_ok(e, limit=2500):
    try:
        shp = ob.shape_of(e)
    except Exception:
        return False
    return int(math.prod(shp)) <= limit and shp[-1] > 0 and shp[-2] > 0


# ------------------------------------------------------------------------------------------ constructor variants

def build(e, dtype):
    """opbuild.build plus constructor variants opbuild never produces (field "variant", only at the TOP of an expression):
    the expression itself is always the explicit form (it is what the Coq literal, the oracle and a replay use); the variant
    only changes HOW the real operator is constructed."""
    v = e.get("variant")
    if not v:
        return ob.build(e, dtype)
    import linear_operator.operators as O
    c = e["cls"]
    if c == "Interpolated":          # default (None) interpolation arguments: identity interpolation on that side
        base = ob.build(e["base"], dtype)
        li, lv, ri, rv = ob.tt(e["li"]), ob.tt(e["lv"], dtype), ob.tt(e["ri"]), ob.tt(e["rv"], dtype)
        if v == "right-default":
            return O.InterpolatedLinearOperator(base, li, lv)
        if v == "left-default":
            return O.InterpolatedLinearOperator(base, right_interp_indices=ri, right_interp_values=rv)
        if v == "both-default":
            return O.InterpolatedLinearOperator(base)
        if v == "values-default":
            return O.InterpolatedLinearOperator(base, left_interp_indices=li, right_interp_indices=ri)
    if c == "AddedDiag" and v == "diag-first":
        return O.AddedDiagLinearOperator(ob.build(e["diag"], dtype), ob.build(e["base"], dtype))
    if c == "Triangular" and v == "over-operator":
        return O.TriangularLinearOperator(O.DenseLinearOperator(ob.tt(e["t"], dtype)), upper=e["upper"])
    if c in ("Sum", "Matmul") and v == "tensor-arguments":     # raw tensors are wrapped by to_linear_operator
        raw = lambda x: ob.tt(x["t"], dtype) if x["cls"] == "Dense" else ob.build(x, dtype)
        if c == "Sum":
            return O.SumLinearOperator(*[raw(x) for x in e["ops"]])
        return O.MatmulLinearOperator(raw(e["l"]), raw(e["r"]))
    raise ValueError("unknown variant %s of %s" % (v, c))


def identity_interp(batch, n):
    idx = {"shape": list(batch) + [n, 1], "data": list(range(n)) * int(math.prod(batch)), "long": True}
    val = {"shape": list(batch) + [n, 1], "data": [1] * (n * int(math.prod(batch)))}
    return idx, val


def gen_variant(rng, name, child, batch, m, n):
    if name.startswith("interp-"):
        cc = child if child not in ob.SQUARE_ONLY or m == n else "Dense"
        base = ob.gen(rng, cc, batch=list(batch), m=m, n=n, depth=1, child="Dense")
        bm, bn = ob.shape_of(base)[-2:]
        k = rng.choice([1, 2])
        rows, cols = rng.choice([2, 3]), rng.choice([1, 3])
        li = {"shape": list(batch) + [rows, k], "data": [rng.randrange(bm) for _ in range(int(math.prod(list(batch) + [rows, k])))], "long": True}
        lv = ob.rand_t(rng, list(batch) + [rows, k], -2, 2)
        ri = {"shape": list(batch) + [cols, k], "data": [rng.randrange(bn) for _ in range(int(math.prod(list(batch) + [cols, k])))], "long": True}
        rv = ob.rand_t(rng, list(batch) + [cols, k], -2, 2)
        v = name[len("interp-"):]
        if v in ("left-default", "both-default"):
            li, lv = identity_interp(batch, bm)
        if v in ("right-default", "both-default"):
            ri, rv = identity_interp(batch, bn)
        if v == "values-default":
            lv = {"shape": list(li["shape"]), "data": [1] * len(li["data"])}
            rv = {"shape": list(ri["shape"]), "data": [1] * len(ri["data"])}
        return {"cls": "Interpolated", "base": base, "li": li, "lv": lv, "ri": ri, "rv": rv, "variant": v}
    if name == "addeddiag-diag-first":
        cc = child if child not in ("Diag", "ConstantDiag", "Identity", "KronDiag", "Zero") else "Dense"
        base = ob.gen(rng, cc, batch=list(batch), m=m, n=m, depth=1, child="Dense")
        N = ob.shape_of(base)[-1]
        if ob.shape_of(base)[-2] != N:
            base = ob.gen(rng, "Dense", batch=list(batch), m=m, n=m)
            N = m
        diag = ob.gen(rng, rng.choice(["Diag", "ConstantDiag"]), batch=list(batch), m=N, psd=True)
        return {"cls": "AddedDiag", "base": base, "diag": diag, "variant": "diag-first"}
    if name == "triangular-over-operator":
        e = ob.gen(rng, "Triangular", batch=list(batch), m=m)
        e["variant"] = "over-operator"
        return e
    if name == "tensor-arguments":
        other = ob.gen(rng, child, batch=list(batch), m=m, n=n, depth=1, child="Dense")
        om, on = ob.shape_of(other)[-2:]
        if rng.getrandbits(1):
            return {"cls": "Sum", "ops": [ob.gen(rng, "Dense", batch=list(batch), m=om, n=on), other], "variant": "tensor-arguments"}
        return {"cls": "Matmul", "l": ob.gen(rng, "Dense", batch=list(batch), m=rng.choice([1, 2]), n=om), "r": other,
                "variant": "tensor-arguments"}
    raise ValueError(name)


# children of DIFFERENT but broadcastable batch shapes: the constructors call _expand_batch on them (opbuild gives all children
# the same batch shape, so no other cell reaches any class's _expand_batch)
BCAST_PAIRS = [([], [2]), ([1], [3]), ([2, 1], [1, 3]), ([3], [2, 3]), ([1, 3], [2, 1]), ([2], [])]
BCAST_PARENTS = ["Sum", "MatmulL", "MatmulR", "Kron", "AddedDiag", "Interpolated"]


def gen_bcast(rng, parent, child, pi, m, n):
    small, big = BCAST_PAIRS[pi % len(BCAST_PAIRS)]
    sq = parent in ("AddedDiag",) or child in ob.SQUARE_ONLY
    if parent == "AddedDiag" and child in ("Diag", "ConstantDiag", "Identity", "KronDiag", "Zero"):
        child = "Dense"
    first = ob.gen(rng, child, batch=list(small), m=m, n=(m if sq else n), depth=1, child="Dense")
    fm, fn = ob.shape_of(first)[-2:]
    if parent == "Sum":
        return {"cls": "Sum", "ops": [first, ob.gen(rng, "Dense", batch=list(big), m=fm, n=fn)]}
    if parent == "MatmulL":
        return {"cls": "Matmul", "l": first, "r": ob.gen(rng, "Dense", batch=list(big), m=fn, n=rng.choice([1, 2]))}
    if parent == "MatmulR":
        return {"cls": "Matmul", "l": ob.gen(rng, "Dense", batch=list(big), m=rng.choice([1, 3]), n=fm), "r": first}
    if parent == "Kron":
        return {"cls": "Kron", "ops": [first, ob.gen(rng, "Dense", batch=list(big), m=2, n=rng.choice([1, 2]))]}
    if parent == "AddedDiag":
        if fm != fn:
            first = ob.gen(rng, "Dense", batch=list(small), m=m, n=m)
            fm = fn = m
        return {"cls": "AddedDiag", "base": first, "diag": ob.gen(rng, rng.choice(["Diag", "ConstantDiag"]), batch=list(big), m=fm, psd=True)}
    if parent == "Interpolated":
        try:
            ok = list(torch.broadcast_shapes(tuple(small), tuple(big))) == list(big)
        except RuntimeError:
            ok = False
        ib = list(big) if ok else list(small)
        k = rng.choice([1, 2])
        rows, cols = rng.choice([2, 3]), rng.choice([1, 2])
        li = {"shape": ib + [rows, k], "data": [rng.randrange(fm) for _ in range(int(math.prod(ib + [rows, k])))], "long": True}
        ri = {"shape": ib + [cols, k], "data": [rng.randrange(fn) for _ in range(int(math.prod(ib + [cols, k])))], "long": True}
        return {"cls": "Interpolated", "base": first, "li": li, "lv": ob.rand_t(rng, ib + [rows, k], -2, 2),
                "ri": ri, "rv": ob.rand_t(rng, ib + [cols, k], -2, 2)}
    raise ValueError(parent)


# ------------------------------------------------------------------------------------------ wide / tall family

# Size thresholds: code that chunks / loops / allocates by a column or row COUNT only misbehaves beyond a threshold the small grid
# never reaches.  WIDE_COLS = {1, 2} + {T-1, T, T+1, 2T+1} for T in {1024} + every integer literal >= 64 the source scan
# (harness/c01_scan.py) finds in the anchored files; set by run() before the cells are enumerated, handed to the workers.
WIDE_COLS = [1, 2, 1023, 1024, 1025, 2049]
WIDE_LEAVES = ["Interpolated", "Toeplitz"]            # kernel-heavy children put under every composite parent
WIDE_BIG = ["Interpolated", "InterpolatedWide", "InterpolatedTall", "Toeplitz", "Diag", "Permutation", "BlockDiag", "Kron", "Masked", "Cat"]


def gen_wide(rng, cell):
    """(expression, queries) of one cell of the wide / tall family: a SMALL operator multiplied with right-hand sides of
    WIDE_COLS columns / left-hand sides of that many rows, or an operator that itself has that many rows / columns.
    Values come from pattern_t; judged by the direct predicate only (no Coq literal)."""
    kind, name, b, s, depth = cell
    m, n = SIZES[s]
    batch = list(BKIND.get(b, []))
    if kind == "Wide":                     # every class on top
        e = ob.gen(rng, name, batch=batch, m=m, n=n, depth=1, child="Dense")
    elif kind.startswith("WideNest:"):     # a kernel-heavy leaf below every composite parent (the non-public _matmul path)
        par = kind.split(":")[1]
        if par == "Root":
            e = {"cls": "Root", "root": ob.gen(rng, name, batch=batch, m=m, n=n, depth=1, child="Dense")}
        else:
            e = ob.gen(rng, par, batch=batch, m=m, n=n, depth=2, child=name)
    else:                                  # WideBig: the operator itself is big
        T = int(b)
        e = gen_big(rng, name, T)
        mm_, nn_ = ob.shape_of(e)[-2:]
        qs = [("matmul_mat", pattern_t([nn_, 2])), ("rmatmul", pattern_t([2, mm_], 5, 2, 7, 3)), ("to_dense", None),
              ("t_to_dense", None), ("size", None), ("accessors", None)]
        return sanitize(rng, e, ("Dense", None, "()", "sq", 1)), qs
    e = sanitize(rng, e, (kind, name, b, s, depth))
    shp = ob.shape_of(e)
    mm_, nn_ = shp[-2:]
    eb = shp[:-2]
    qs = []
    for i, c in enumerate(WIDE_COLS):
        xb = [] if (i % 2 == 0 or not eb) else list(eb)
        qs.append(("matmul_mat" if not xb else "matmul_batched", pattern_t(xb + [nn_, c], 7, 3, 5, 2)))
        qs.append(("rmatmul", pattern_t(xb + [c, mm_], 5, 2, 7, 3)))
        if i % 3 == 0:
            qs.append(("tmatmul", pattern_t([mm_, c], 3, 1, 5, 2)))
            qs.append(("t_matmul_internal", pattern_t([mm_, c], 11, 1, 3, 1)))
    return e, qs


def gen_big(rng, name, T):
    """an operator with T rows and / or columns"""
    small = lambda shape: ob.from_torch(rt(pattern_t(shape, 7, 3, 5, 2)))
    idx = lambda rows, k, bound: {"shape": [rows, k], "data": [(3 * i + 5 * j + i // 7) % bound for i in range(rows) for j in range(k)], "long": True}
    if name.startswith("Interpolated"):
        rows = 3 if name == "InterpolatedWide" else T
        cols = 3 if name == "InterpolatedTall" else T
        base = {"cls": "Dense", "t": small([4, 3])}
        return {"cls": "Interpolated", "base": base, "li": idx(rows, 2, 4), "lv": small([rows, 2]), "ri": idx(cols, 2, 3), "rv": small([cols, 2])}
    if name == "Toeplitz":
        return {"cls": "Toeplitz", "col": small([T])}
    if name == "Diag":
        return {"cls": "Diag", "d": small([T])}
    if name == "Permutation":
        return {"cls": "Permutation", "perm": {"shape": [T], "data": [(i * 7 + 3) % T if math.gcd(7, T) == 1 else (T - 1 - i) for i in range(T)], "long": True}}
    if name == "BlockDiag":
        k = next((d for d in (5, 3, 7, 2) if T % d == 0), 1)
        return {"cls": "BlockDiag", "base": {"cls": "Dense", "t": small([T // k, k, k])}, "block_dim": -3}
    if name == "Kron":
        k = next((d for d in (5, 3, 7, 2) if T % d == 0), 1)
        return {"cls": "Kron", "ops": [{"cls": "Dense", "t": small([k, 2])}, {"cls": "Dense", "t": small([T // k, 2])}]}
    if name == "Masked":
        mask = lambda sz: {"shape": [sz], "data": [0 if i == 1 else 1 for i in range(sz)], "bool": True}
        return {"cls": "Masked", "base": {"cls": "Dense", "t": small([4, T + 1])}, "row_mask": mask(4), "col_mask": mask(T + 1)}
    if name == "Cat":
        return {"cls": "Cat", "ops": [{"cls": "Dense", "t": small([3, T - 2])}, {"cls": "Toeplitz", "col": small([3])}], "dim": -1}
    raise ValueError(name)


def wide_cells():
    out = []
    bk, sk = list(BKIND), list(SIZES)
    for ci, cls in enumerate(ob.ALL):
        out.append(("Wide", cls, ("()", "(2,)", "(2,1)")[ci % 3], ("sq", "wide", "tall", "sq2")[ci % 4], 1))
    for pi, par in enumerate(TAKES_CHILD):
        for li, leaf in enumerate(WIDE_LEAVES):
            out.append(("WideNest:" + par, leaf, ("()", "(2,)")[(pi + li) % 2], ("sq", "sq2")[(pi + li) % 2], 2))
    for T in sorted({c for c in WIDE_COLS if c > 64 and (c - 1) in WIDE_COLS and (c - 2) in WIDE_COLS}):   # the T + 1 members
        for name in WIDE_BIG:
            out.append(("WideBig", name, str(T), "sq", 1))
    return out


# ------------------------------------------------------------------------------------------ keys / shrinking

EXC_CLASSES = [
    ("Representation of a LinearOperator should consist only of Te", "representation-not-tensors"),
    ("Can only unsqueeze batch dimensions of ZeroLinearOperator", "zero-unsqueeze"),
    ("expected scalar type", "dtype-mismatch"),
    ("expected m1 and m2 to have the same dtype", "dtype-mismatch"),
    ("view size is not compatible with input tensor", "view-noncontiguous"),
    ("The expanded size of the tensor", "broadcast-size-mismatch"),
    ("The size of tensor a", "broadcast-size-mismatch"),
    ("Attempting to broadcast a dimension", "broadcast-size-mismatch"),
]


def exc_class(text):
    for pat, name in EXC_CLASSES:
        if pat in text:
            return name
    return text[:50]


def fail_key(e, kind, fk, text, dtype_tag, rhs=None):
    """structural key of a failing (expression, query); e is the smallest sub-expression that still fails"""
    cl = tree_classes(e)
    key = {"class": e["cls"], "fail": fk,
           "op": "matmul" if kind.startswith("matmul_") else kind,
           "batched": len(ob.shape_of(e)) > 2,
           "zero_child": has_zero_child(e),
           "has_perm": bool(cl & {"Permutation", "TransposePermutation"}),
           "children": ",".join(sorted({k["cls"] for k in kids_of(e)})),
           "square": ob.shape_of(e)[-1] == ob.shape_of(e)[-2],
           "chol_upper_kid": any(k["cls"] == "Chol" and bool(k.get("upper")) for k in kids_of(e)),
           "kid_batch_differs": any(ob.shape_of(k)[:-2] != ob.shape_of(e)[:-2] for k in kids_of(e)),
           "dtype": dtype_tag}
    key["wide"] = rhs_is_wide(rhs) or max(ob.shape_of(e)[-2:]) > 64      # a dimension beyond the small grid (wide / tall family)
    if kind.startswith("matmul_"):
        key["rhs"] = kind[len("matmul_"):]
    if e["cls"] in ("Chol", "Triangular", "KronTriangular"):
        key["upper"] = bool(e.get("upper"))
    if fk == "raises":
        key["exc"] = exc_class(text)
    return key


DT = {"float64": torch.float64, "float32": torch.float32, "float32-default64": torch.float32}


def check_one(e, kind, rhs, dtype_tag="float64"):
    dtype = DT[dtype_tag]
    old = torch.get_default_dtype()
    try:
        if dtype_tag == "float32-default64":
            torch.set_default_dtype(torch.float64)
        op = build(e, dtype)
        D = ob.dense(e, dtype)
        obs = run_query(op, kind, rhs, dtype)
        return predicate(e, kind, rhs, dtype, obs, D), obs
    finally:
        torch.set_default_dtype(old)


def shrink(e, kind, fk, dtype_tag, text=""):
    """descend into a child that, on its own, fails some query with the same kind of failure (same exception class)"""
    rng = random.Random(20240917)
    cur = e
    for _ in range(8):
        nxt = None
        for k in kids_of(cur):
            try:
                qs = make_queries(rng, k)
                qs.sort(key=lambda qr: qr[0] != kind)          # the same kind of query first
                for q, rhs in qs:
                    f, _ = check_one(k, q, rhs, dtype_tag)
                    if f and f[0] == fk and (fk != "raises" or exc_class(f[1]) == exc_class(text)):
                        nxt = k
                        break
            except Exception:
                continue
            if nxt is not None:
                break
        if nxt is None:
            return cur
        cur = nxt
    return cur


# ------------------------------------------------------------------------------------------ main stages

def _observe_chunk(args):
    """worker: build, query and judge one chunk of cells.  The random stream of a chunk depends only on (seed, chunk index),
    so the result does not depend on how the chunks are distributed over the workers."""
    global WIDE_COLS
    seed, ci, chunk, WIDE_COLS = args
    torch.set_num_threads(1)
    rng = random.Random(seed * 1000003 + ci)
    cases = []
    skipped = {"gen": 0, "build": 0, "size": 0, "inexpressible": 0, "invalid": 0}
    for cell in chunk:
        wide = cell[0].startswith("Wide")
        qs = None
        try:
            if wide:
                e, qs = gen_wide(rng, cell)
            else:
                e = gen_expr(rng, cell)
        except Exception:
            skipped["gen"] += 1
            continue
        if not wide and not numel_ok(e):
            skipped["size"] += 1
            continue
        if not valid(e):
            skipped["invalid"] += 1      # generator artefact: arguments outside what the class documents
            continue
        lit = None                       # the wide / tall family is judged by the direct predicate only
        if not wide:
            try:
                lit = expr_lit(e)
            except ValueError:
                skipped["inexpressible"] += 1    # no Coq literal: the case is still judged by the direct predicate
        try:
            op64 = build(e, torch.float64)
            op32 = build(e, torch.float32)
            D64 = ob.dense(e, torch.float64)
            D32 = ob.dense(e, torch.float32)
        except Exception:
            skipped["build"] += 1        # the constructor refuses the combination: not constructible, outside the property
            continue
        if qs is None:
            qs = make_queries(rng, e)
        rows = []
        for kind, rhs in qs:
            o64 = run_query(op64, kind, rhs, torch.float64)
            f64 = predicate(e, kind, rhs, torch.float64, o64, D64)
            o32 = run_query(op32, kind, rhs, torch.float32)
            f32 = predicate(e, kind, rhs, torch.float32, o32, D32)
            main32 = main_dtype(e) == torch.float32 and f64 is not None and f32 is None
            rows.append({"kind": kind, "rhs": rhs, "o64": o32 if main32 else o64, "f64": f64, "f32": f32,
                         "fmain": f32 if main32 else f64})
        cases.append({"cell": cell, "e": e, "lit": lit, "rows": rows})
    # default dtype != operator dtype (float32 operators while the default is float64)
    nd = 0
    old = torch.get_default_dtype()
    try:
        torch.set_default_dtype(torch.float64)
        for cs in cases:
            e = cs["e"]
            try:
                op32 = build(e, torch.float32)
                D32 = ob.dense(e, torch.float32)
            except Exception:
                continue
            for row in cs["rows"]:
                o = run_query(op32, row["kind"], row["rhs"], torch.float32)
                row["fdd"] = predicate(e, row["kind"], row["rhs"], torch.float32, o, D32)
                nd += 1
    finally:
        torch.set_default_dtype(old)
    return cases, skipped, nd


CHUNK = 40
WORKERS = 3


def observe_all(ctx, seed, cell_list):
    """build, query and judge every cell (3 worker processes).  returns (cases, skipped, number of default-dtype evaluations)"""
    import multiprocessing
    from concurrent.futures import ProcessPoolExecutor
    tasks = [(seed, i // CHUNK, cell_list[i:i + CHUNK], list(WIDE_COLS)) for i in range(0, len(cell_list), CHUNK)]
    results, failed = [None] * len(tasks), []
    try:
        with ProcessPoolExecutor(max_workers=WORKERS, mp_context=multiprocessing.get_context("spawn")) as ex:
            futs = [ex.submit(_observe_chunk, t) for t in tasks]
            for i, f in enumerate(futs):
                try:
                    results[i] = f.result()
                except Exception as exn:      # a worker died (e.g. out of memory on a loaded machine)
                    failed.append(repr(exn)[:80])
    except Exception as exn:
        failed.append(repr(exn)[:80])
    if failed:
        ctx.say("worker pool: %d chunk(s) recomputed in the main process (%s)" % (sum(r is None for r in results), failed[0]))
    for i, t in enumerate(tasks):             # same computation, same random stream: the result does not depend on who ran it
        if results[i] is None:
            results[i] = _observe_chunk(t)
    cases, nd = [], 0
    skipped = {"gen": 0, "build": 0, "size": 0, "inexpressible": 0, "invalid": 0}
    for cs, sk, n in results:
        cases += cs
        nd += n
        for k, v in sk.items():
            skipped[k] += v
    return cases, skipped, nd


def shard_src(cases):
    items = []
    for cs in cases:
        qs = []
        for row in cs["rows"]:
            qs.append("(%s, %s)" % (query_lit(row["kind"], row["rhs"]), obs_lit(row["kind"], row["o64"], is_vec_query(row["kind"]))))
        items.append("(%s,\n   [%s])" % (cs["lit"], ";\n    ".join(qs)))
    return (HDR + "Definition cases : list case := [\n %s].\n" % ";\n ".join(items)
            + "Eval vm_compute in (bad_cases cases 0).\n"
            + "Eval vm_compute in (count_covered cases).\n")


def _small(x):
    """observed tensor for a replay file: big results (wide / tall family) are summarised"""
    return x.tolist() if x.numel() <= 4000 else {"shape": list(x.shape), "first_row": x.reshape(-1, x.shape[-1])[0][:64].tolist()}


def case_replay(cs, row, what, extra=None):
    rp = {"kind": what, "expr": cs["e"], "query": row["kind"], "rhs": row["rhs"], "cell": list(cs["cell"]),
          "observed": (_small(row["o64"][1]) if (row["o64"][0] == "ok" and torch.is_tensor(row["o64"][1])) else str(row["o64"][1]))}
    if extra:
        rp.update(extra)
    return rp


def report_predicate_failures(ctx, rng, cases, stats):
    """the property evaluated directly on the implementation for every generated case"""
    seen = set()
    memo = {}
    for cs in cases:
        for row in cs["rows"]:
            for tag, f in (("float64", row["f64"]), ("float32", row["f32"]), ("float32-default64", row.get("fdd"))):
                if not f:
                    continue
                stats["predicate_failures"] += 1
                mk = (id(cs), row["kind"], f[0], tag, exc_class(f[1]) if f[0] == "raises" else "")
                if mk not in memo:
                    memo[mk] = shrink(cs["e"], row["kind"], f[0], tag, f[1])
                sub = memo[mk]
                key = fail_key(sub, row["kind"], f[0], f[1], tag, row["rhs"])
                sig = json.dumps(key, sort_keys=True)
                if sig in seen:
                    continue
                seen.add(sig)
                ctx.violation(case_replay(cs, row, "property-fails-on-implementation",
                                          {"what": f[1], "dtype": tag, "shrunk_to": ob.describe(sub), "shrunk_expr": sub,
                                           "expected": "torch on the dense matrix assembled by opbuild.dense"}), key=key)


def replay_known(ctx):
    """the witness of every listed known finding of C01 is replayed on the implementation on every run (independent of the
    seed): still failing -> reported through its structural key (KNOWN-FINDING line); repaired -> nothing"""
    n = 0
    for ent in common.load_known():
        if ent.get("property") != PROP or ent.get("status") != "known":
            continue
        rp = ent.get("replay") or {}
        if "expr" not in rp:
            continue
        tag = rp.get("dtype", "float64")
        try:
            f, _ = check_one(rp["expr"], rp["query"], rp.get("rhs"), tag)
        except Exception as ex:
            f = ("raises", "%s:%s" % (type(ex).__name__, str(ex)[:60]))
        if f:
            n += 1
            sub = shrink(rp["expr"], rp["query"], f[0], tag, f[1])
            ctx.violation({"kind": "property-fails-on-implementation", "expr": rp["expr"], "query": rp["query"], "rhs": rp.get("rhs"),
                           "dtype": tag, "what": f[1], "witness_of": ent.get("id")}, key=fail_key(sub, rp["query"], f[0], f[1], tag, rp.get("rhs")))
    return n


def run_shards3(ctx, shards, timeout=900):
    """common.run_shards with a pool of exactly 3 shard compilers working through the whole list (no rounds)"""
    from concurrent.futures import ThreadPoolExecutor
    paths = []
    for name, src in shards:
        p = os.path.join(ctx.gen, "cases_%s.v" % name)
        with open(p, "w") as f:
            f.write(src)
        paths.append((name, p))

    def one(np_):
        name, p = np_
        return name, common.coqc_file(ctx.prop, p, timeout=timeout)
    res = {}
    with ThreadPoolExecutor(max_workers=3) as ex:
        # largest shards first: the pool then finishes evenly
        for name, r in ex.map(one, sorted(paths, key=lambda np_: -os.path.getsize(np_[1]))):
            res[name] = r
    for name, p in paths:
        for ext in (".vo", ".vok", ".vos", ".glob"):
            try:
                os.remove(p[:-2] + ext)
            except OSError:
                pass
        try:
            os.remove(os.path.join(os.path.dirname(p), "." + os.path.basename(p)[:-2] + ".aux"))
        except OSError:
            pass
    return res


def run(ctx):
    t0 = time.time()
    torch.set_num_threads(1)
    regenerate()
    rng = random.Random(ctx.seed)
    # source scan: size thresholds in the anchored files widen the column family of the wide / tall cells
    global WIDE_COLS
    scan_info = {}
    try:
        from . import c01_scan
        items = c01_scan.scan(common.REPO)
        ts, too_big = c01_scan.thresholds(items)
        WIDE_COLS = c01_scan.family(ts)
        new_it = c01_scan.new_items(items)
        scan_info = {"thresholds_straddled": ts, "thresholds_too_large": too_big, "column_family": list(WIDE_COLS),
                     "items": len(items), "new_items": None if new_it is None else [c01_scan.key(i) for i in new_it]}
        if new_it:
            ctx.say("NOTE property=C01 source scan: %d new size-threshold candidate(s) in the anchored files: %s"
                    % (len(new_it), "; ".join(c01_scan.key(i) for i in new_it[:6]) + (" ..." if len(new_it) > 6 else "")))
    except Exception as exn:
        scan_info = {"error": repr(exn)[:200]}
    cell_list = cells(ctx.quick)

    def on_fail(info):
        # a proof obligation broke: search the implementation at thorough width with the oracle only
        r2 = random.Random(ctx.seed + 1)
        cs, _, _ = observe_all(ctx, ctx.seed + 1, cells(False) if ctx.quick else cell_list)
        st = {"predicate_failures": 0}
        before = ctx.violations
        report_predicate_failures(ctx, r2, cs, st)
        return ctx.violations > before
    ok = common.proof_stage(ctx, on_fail)
    stage = {"proof_s": round(time.time() - t0, 1)}

    t1 = time.time()
    n_kf = replay_known(ctx)
    stage["replay_known_s"] = round(time.time() - t1, 1)
    t1 = time.time()
    cases, skipped, n_dd = observe_all(ctx, ctx.seed, cell_list)
    stage["observe_s"] = round(time.time() - t1, 1)
    t1 = time.time()
    stats = {"predicate_failures": 0, "model_mismatches": 0, "repaired_cells": 0}
    report_predicate_failures(ctx, rng, cases, stats)
    stage["triage_s"] = round(time.time() - t1, 1)
    t1 = time.time()

    n_cov = 0
    mism = []
    if ok:
        shards = []
        all_cases, cases = cases, [cs for cs in cases if cs["lit"] is not None]
        for i in range(0, len(cases), SH):
            shards.append(("c01_%d" % (i // SH), shard_src(cases[i:i + SH])))
        res = run_shards3(ctx, shards)
        for si, (name, _) in enumerate(shards):
            rc, out = res[name]
            bad = common.parse_coq_list_of_nat(out) if rc == 0 else None
            if bad is None:
                ctx.violation({"kind": "shard-failed", "shard": name, "out": out[-800:]}, no_input=True)
                continue
            import re
            mc = re.findall(r"=\s*(\d+)(?:%nat)?\s*:\s*nat", out)
            n_cov += int(mc[-1]) if mc else 0
            for code in bad:
                mism.append((si * SH + code // 100, code % 100))
        reported = set()
        for ci, qi in mism:
            cs = cases[ci]
            stats["model_mismatches"] += 1
            if qi == 99:
                sig = ("wf", cs["e"]["cls"])
                if sig not in reported:
                    reported.add(sig)
                    ctx.violation({"kind": "generated-expression-not-wf-in-model", "expr": cs["e"], "cell": list(cs["cell"])}, no_input=True)
                continue
            row = cs["rows"][qi]
            if row["fmain"]:
                continue                 # already reported by the direct predicate (violation or known finding)
            sig = (cs["e"]["cls"], row["kind"])
            if sig in reported:
                continue
            reported.add(sig)
            ctx.violation(case_replay(cs, row, "model-implementation-disagreement",
                                      {"note": "the implementation agrees with the dense oracle; coq/C01/Model.v does not"}),
                          no_input=True)

    if ok:
        cases = all_cases
    stage["shards_s"] = round(time.time() - t1, 1)
    # informational: which transcribed functions moved since Model.v was written (never a VIOLATION)
    try:
        from . import c01_pins
        drift = c01_pins.drift(common.REPO)
    except Exception:
        drift = None
    if drift:
        ctx.say("NOTE property=C01 the source of %d transcribed function(s) differs from the tree coq/C01/Model.v was written "
                "against: %s" % (len(drift), ", ".join(drift[:8]) + (" ..." if len(drift) > 8 else "")))
    evals = sum(len(cs["rows"]) for cs in cases)
    keys = set()
    cls_hist = {}
    for cs in cases:
        cls, child, b, s, depth = cs["cell"]
        d = ob.describe(cs["e"])
        cls_hist[cls] = cls_hist.get(cls, 0) + 1
        if depth_of(cs["e"]) >= 2:
            for row in cs["rows"]:
                keys.add((d, b, s, row["kind"]))
    samples = []
    plain = [cs for cs in cases if not cs["cell"][0].startswith("Wide")]
    for cs in (plain[len(plain) // 3], plain[-1]) if plain else ():
        row = cs["rows"][1]
        samples.append({"expr": cs["e"], "query": row["kind"], "rhs": row["rhs"],
                        "observed": row["o64"][1].tolist() if row["o64"][0] == "ok" else row["o64"][1]})
    ctx.coverage.update({
        "trusted_base": common.COQ_TRUSTED + [
            "primitive 63-bit integers of Coq (only in the literals of the generated shards, coq/C01/Check.v untable)",
            "torch primitives modelled by their mathematical meaning in coq/C01/Model.v: matmul, elementwise */+ with broadcasting, "
            "expand, view/reshape/transpose/permute as row-major index maps, cat/narrow/mask indexing, gather; fft->multiply->ifft "
            "replaced by the circular convolution it computes",
            "_expand_batch of children inside the Sum/Matmul/Kronecker constructors is modelled by its meaning (broadcasting)",
            "builders and literal writers harness/opbuild.py (build), harness/c01.py (expr_lit, obs_lit) and the comparator coq/C01/Check.v",
            "dense oracle harness/opbuild.py (dense): used for triage and for the direct predicate only",
        ],
        "evaluations": evals, "distinct_nontrivial": len(keys),
        "rule": "one evaluation = one query (op@X for 4 rhs kinds, X@op, v@op, op.mT@X, to_dense, mT.to_dense, size family) on one generated "
                "expression, float64 compared in Coq and float64/float32/float32-under-default-float64 against the oracle; "
                "non-trivial = expression with at least one composite node; distinct by (class tree, batch kind, size kind, query kind)",
        "expressions": len(cases), "cells": len(cell_list), "skipped": skipped,
        "expressions_inside_covered": n_cov, "default_dtype_mismatch_evaluations": n_dd,
        "classes": len(cls_hist), "class_histogram": cls_hist,
        "model_mismatches": stats["model_mismatches"], "predicate_failures": stats["predicate_failures"],
        "known_finding_witnesses_still_failing": n_kf,
        "samples": samples, "wall_python_s": round(time.time() - t0, 1), "stage_seconds": stage,
        "transcription_drift": drift, "source_scan": scan_info,
        "wide_family": {"cells": sum(1 for c in cell_list if c[0].startswith("Wide")),
                        "expressions": sum(1 for cs in cases if cs["cell"][0].startswith("Wide")),
                        "evaluations": sum(len(cs["rows"]) for cs in cases if cs["cell"][0].startswith("Wide"))},
    })
    ctx.assumptions = [
        "entries are small integers, so float32/float64 results are exact (FFT-based Toeplitz products up to 1e-6 / 2e-2)",
        "KeOpsLinearOperator is excluded (pykeops is not installed); Kernel operators only with polynomial covariance functions",
        "operators are built through the public constructors with valid arguments (invalid shapes belong to C19)",
    ]


def replay(rp):
    torch.set_num_threads(1)
    e, kind, rhs = rp["expr"], rp["query"], rp.get("rhs")
    f, obs = check_one(e, kind, rhs, rp.get("dtype", "float64"))
    print("expression:", ob.describe(e))
    print("query:", kind, "rhs:", rhs)
    print("observed:", obs[1].tolist() if (obs[0] == "ok" and torch.is_tensor(obs[1])) else obs[1])
    D = ob.dense(e, torch.float64)
    try:
        ex = expected(D, kind, rhs, torch.float64)
        print("dense oracle:", ex.tolist() if torch.is_tensor(ex) else ex)
    except Exception as ex:
        print("oracle raised", repr(ex))
    print("property failure:" if f else "property holds on this case", f or "")
    return 1 if f else 0
