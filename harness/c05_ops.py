"""C05 helpers: operator specs (positive-definite constructors with an inv_quad_logdet override or the
base-class path), builders of the real operator objects, an independent dense oracle assembled with
plain torch from the leaves, and the writer of Coq literals for coq/C05/Model.v (`bop`).

A spec is a dict {"k": kind, ...}; tensors inside specs are float64 torch tensors (converted to nested
lists when a replay file is written, see to_json / from_json).
"""
import math

import torch

from . import common, opbuild

F64 = torch.float64


# ----------------------------------------------------------------------------------------- values

def rnd(rng, *shape, lo=-1.0, hi=1.0):
    n = int(math.prod(shape)) if shape else 1
    # dyadic values (k/64): short exact literals
    vals = [round(rng.uniform(lo, hi) * 64) / 64 for _ in range(n)]
    return torch.tensor(vals, dtype=F64).reshape(*shape)


def spd(rng, batch, n, shift=1.0):
    """well-conditioned SPD members:  B B^T / n + shift I   (eigenvalues in [shift, shift + ~3])"""
    B = rnd(rng, *batch, n, n)
    return B @ B.mT / n + shift * torch.eye(n, dtype=F64)


def pos(rng, *shape, lo=0.5, hi=2.0):
    return rnd(rng, *shape, lo=lo, hi=hi)


def tri(rng, batch, n, upper, neg=0):
    T = rnd(rng, *batch, n, n)
    T = torch.triu(T) if upper else torch.tril(T)
    d = pos(rng, *batch, n)
    T = T - torch.diag_embed(torch.diagonal(T, dim1=-2, dim2=-1)) + torch.diag_embed(d)
    if neg:      # flip the sign of `neg` diagonal entries of every member
        for i in range(neg):
            T[..., i, i] = -T[..., i, i]
    return T


def expand_full(t, full, nd):
    """materialised expansion of a tensor with batch shape xb (last nd dims = member) to the batch shape `full`"""
    return t.expand(*full, *t.shape[t.dim() - nd:]).clone()


def shrink(t, xb, nd):
    """inverse of expand_full: the (*xb, member) tensor an expanded (*full, member) tensor was made from"""
    full = list(t.shape[:t.dim() - nd])
    pxb = [1] * (len(full) - len(xb)) + list(xb)
    for i, (f, x) in enumerate(zip(full, pxb)):
        if x == 1 and f > 1:
            t = t.narrow(i, 0, 1)
    return t.reshape(*xb, *t.shape[t.dim() - nd:]).clone()


GENERIC = ("Dense", "OB", "SumBatch", "Cat", "Derived", "SumCD")     # classes without an inv_quad_logdet override (base-class path)


# ----------------------------------------------------------------------------------------- spec tools

def spec_batch(s):
    k = s["k"]
    if k == "Dense":
        return list(s["A"].shape[:-2])
    if k == "OB":
        return opbuild.shape_of(s["e"])[:-2]
    if k == "SumBatch":
        return list(s["A"].shape[:-3])
    if k in ("Cat", "Derived", "SumCD"):
        return list(dense(s).shape[:-2])
    if k == "Diag":
        return list(s["d"].shape[:-1])
    if k == "CDiag":
        return list(s["c"].shape[:-1])
    if k == "Ident":
        return list(s["batch"])
    if k in ("Tri", "Chol"):
        return list(s["T"].shape[:-2])
    if k in ("Kron", "KPAD"):
        return list(s["fs"][0].shape[:-2])
    if k == "LRRAD":
        return list(s["U"].shape[:-2])
    if k == "SumKron":
        return list(s["a"][0].shape[:-2])
    if k == "Block":
        return spec_batch(s["base"])[:-1]
    if k == "Repeat":
        bb = spec_batch(s["base"])
        rep = list(s["rep"])
        pb = [1] * (len(rep) - len(bb)) + bb
        return [r * b for r, b in zip(rep, pb)]
    raise ValueError(k)


def spec_size(s):
    k = s["k"]
    if k == "Dense":
        return s["A"].shape[-1]
    if k == "OB":
        return opbuild.shape_of(s["e"])[-1]
    if k == "SumBatch":
        return s["A"].shape[-1]
    if k == "Cat":
        return s["parts"][0].shape[-1]
    if k == "Derived":
        return s["A"].shape[-1] + (s["B"].shape[-2] if s["how"] == "cat_rows" else 0)
    if k == "SumCD":
        return s["A"].shape[-1]
    if k == "Diag":
        return s["d"].shape[-1]
    if k in ("CDiag", "Ident"):
        return s["n"]
    if k in ("Tri", "Chol"):
        return s["T"].shape[-1]
    if k in ("Kron", "KPAD"):
        return int(math.prod(f.shape[-1] for f in s["fs"]))
    if k == "LRRAD":
        return s["U"].shape[-2]
    if k == "SumKron":
        return int(math.prod(f.shape[-1] for f in s["a"]))
    if k == "Block":
        return spec_batch(s["base"])[-1] * spec_size(s["base"])
    if k == "Repeat":
        return spec_size(s["base"])
    raise ValueError(k)


def leaf_kind(s):
    """class of the innermost leaf (what decides the path and the placeholder convention)"""
    while s["k"] in ("Block", "Repeat"):
        s = s["base"]
    return s["k"]


def describe(s):
    k = s["k"]
    if k == "OB":
        return "OB:" + opbuild.describe(s["e"])
    if k == "Block":
        return ("BlockInterleaved" if s["il"] else "BlockDiag") + "(" + describe(s["base"]) + ")"
    if k == "Repeat":
        return "BatchRepeat(" + describe(s["base"]) + ")"
    if k == "KPAD":
        dk = s["dk"]
        return "KPAD[%s%s]" % (dk["k"], ("-const" if dk.get("consts") else "") if dk["k"] == "kron" else "")
    if k in ("Tri", "Chol"):
        return k + ("[upper]" if s["upper"] else "[lower]")
    if k == "Derived":
        return "Derived[%s%s]" % (s["how"], "+warm" if s.get("warm") else "")
    return k


# ----------------------------------------------------------------------------------------- build the real operator

def kdiag_op(dk, fs, grad):
    import linear_operator.operators as O
    g = (lambda t: t.clone().requires_grad_(True)) if grad else (lambda t: t.clone())
    if dk["k"] == "const":
        N = int(math.prod(f.shape[-1] for f in fs))
        return O.ConstantDiagLinearOperator(g(dk["c"]), diag_shape=N)
    if dk["k"] == "diag":
        return O.DiagLinearOperator(g(dk["d"]))
    parts = []
    for d, f in zip(dk["ds"], fs):
        if dk["consts"]:
            parts.append(O.ConstantDiagLinearOperator(g(d[..., :1]), diag_shape=f.shape[-1]))
        else:
            parts.append(O.DiagLinearOperator(g(d)))
    return O.KroneckerProductDiagLinearOperator(*parts)


def build(s, grad=True):
    """the real LinearOperator; leaf tensors require grad (so that the InvQuadLogdet node is reachable)"""
    import linear_operator.operators as O
    g = (lambda t: t.clone().requires_grad_(True)) if grad else (lambda t: t.clone())
    k = s["k"]
    if k == "Diag" and s.get("via") == "BlockDiag":
        kk = 2 if s["d"].shape[-1] % 2 == 0 and s["d"].shape[-1] > 1 else 1
        d = s["d"]
        return O.BlockDiagLinearOperator(O.DiagLinearOperator(g(d.reshape(*d.shape[:-1], kk, d.shape[-1] // kk))))
    n = spec_size(s)

    def xp(op):        # "xb": the operator is built on the smaller batch shape xb and expanded (LinearOperator.expand)
        return op.expand(*spec_batch(s), n, n) if "xb" in s else op

    def sh(t, nd):
        return shrink(t, s["xb"], nd) if "xb" in s else t
    if k == "Dense":
        return xp(O.DenseLinearOperator(g(sh(s["A"], 2))))
    if k == "OB":
        op = opbuild.build(s["e"], F64)
        if grad:
            op.requires_grad_(True)
        return op
    if k == "SumBatch":
        A, bd = s["A"], s.get("bd", -3)
        if bd == -3:
            return O.SumBatchLinearOperator(O.DenseLinearOperator(g(A)))
        return O.SumBatchLinearOperator(O.DenseLinearOperator(g(A.movedim(-3, bd).contiguous())), block_dim=bd)
    if k == "Cat":
        return O.CatLinearOperator(*[O.DenseLinearOperator(g(p)) for p in s["parts"]], dim=s["dim"])
    if k == "SumCD":
        # a CholLinearOperator (either orientation, smaller batch) + a batched dense operator: SumLinearOperator expands
        chol = O.CholLinearOperator(O.TriangularLinearOperator(g(s["T"]), upper=s["upper"]), upper=s["upper"])
        return chol + O.DenseLinearOperator(g(s["A"]))
    if k == "Derived":
        # an operator that ARRIVES with pre-filled caches: derived from a dense operator (whose root_decomposition was
        # computed before when "warm") by a method that transplants / updates the cached roots
        import warnings
        base = O.DenseLinearOperator(g(s["A"]))
        with warnings.catch_warnings():
            warnings.simplefilter("ignore")
            if s.get("warm"):
                base.root_decomposition()
            how = s["how"]
            if how == "cat_rows":
                return base.cat_rows(g(s["B"]), g(s["D"]))
            if how == "add_low_rank":
                return base.add_low_rank(g(s["V"]))
            if how == "add_jitter":
                return base.add_jitter(s["j"])
            if how == "add_diagonal":
                return base.add_diagonal(g(s["d"]))
            if how == "none":
                return base
        raise ValueError(how)
    if k == "Diag":
        return xp(O.DiagLinearOperator(g(sh(s["d"], 1))))
    if k == "CDiag":
        return xp(O.ConstantDiagLinearOperator(g(sh(s["c"], 1)), diag_shape=s["n"]))
    if k == "Ident":
        return xp(O.IdentityLinearOperator(s["n"], batch_shape=torch.Size(s["xb"] if "xb" in s else s["batch"]), dtype=F64))
    if k == "Tri":
        return O.TriangularLinearOperator(g(s["T"]), upper=s["upper"])
    if k == "Chol":
        return xp(O.CholLinearOperator(O.TriangularLinearOperator(g(sh(s["T"], 2)), upper=s["upper"]), upper=s["upper"]))
    if k == "Kron":
        # "fxb": factors with different (broadcasting) batch shapes; "fk"/"fT": a factor given as a CholLinearOperator
        # ("chol-lo" / "chol-up") by its triangular factor fT[i] (fs[i] is then the dense matrix it denotes)
        facs = []
        for i, f in enumerate(s["fs"]):
            xb = s["fxb"][i] if "fxb" in s else None
            kind = s["fk"][i] if "fk" in s else "dense"
            if kind == "dense":
                facs.append(O.DenseLinearOperator(g(f if xb is None else shrink(f, xb, 2))))
            else:
                T = s["fT"][i] if xb is None else shrink(s["fT"][i], xb, 2)
                up = kind == "chol-up"
                facs.append(O.CholLinearOperator(O.TriangularLinearOperator(g(T), upper=up), upper=up))
        return O.KroneckerProductLinearOperator(*facs)
    if k == "KPAD":
        kron = O.KroneckerProductLinearOperator(*[O.DenseLinearOperator(g(f)) for f in s["fs"]])
        return O.KroneckerProductAddedDiagLinearOperator(kron, kdiag_op(s["dk"], s["fs"], grad))
    if k == "LRRAD":
        root = O.LowRankRootLinearOperator(g(s["U"]))
        if s.get("cdiag"):
            diag = O.ConstantDiagLinearOperator(g(s["d"][..., :1]), diag_shape=s["U"].shape[-2])
        else:
            diag = O.DiagLinearOperator(g(s["d"]))
        return O.LowRankRootAddedDiagLinearOperator(root, diag)
    if k == "SumKron":
        a = O.KroneckerProductLinearOperator(*[O.DenseLinearOperator(g(f)) for f in s["a"]])
        b = O.KroneckerProductLinearOperator(*[O.DenseLinearOperator(g(f)) for f in s["b"]])
        return O.SumKroneckerLinearOperator(a, b)
    if k == "Block":
        cls = O.BlockInterleavedLinearOperator if s["il"] else O.BlockDiagLinearOperator
        if s.get("bd", -3) != -3:      # block dimension not last among the batch dimensions (dense base only)
            return cls(O.DenseLinearOperator(g(s["base"]["A"].movedim(-3, s["bd"]).contiguous())), block_dim=s["bd"])
        return cls(build(s["base"], grad))
    if k == "Repeat":
        return O.BatchRepeatLinearOperator(build(s["base"], grad), batch_repeat=torch.Size(s["rep"]))
    raise ValueError(k)


# ----------------------------------------------------------------------------------------- dense oracle (plain torch)

def bkron(mats):
    r = mats[0]
    for m in mats[1:]:
        r = opbuild.bkron(r, m)
    return r


def kdiag_dense(dk, fs):
    N = int(math.prod(f.shape[-1] for f in fs))
    if dk["k"] == "const":
        return torch.diag_embed(dk["c"].expand(*dk["c"].shape[:-1], N))
    if dk["k"] == "diag":
        return torch.diag_embed(dk["d"])
    return bkron([torch.diag_embed(d) for d in dk["ds"]])


def dense(s):
    k = s["k"]
    if k == "Dense":
        return s["A"].clone()
    if k == "OB":
        return opbuild.dense(s["e"], F64)
    if k == "SumBatch":
        return s["A"].sum(-3)
    if k == "Cat":
        return torch.cat([p.clone() for p in s["parts"]], dim=s["dim"])
    if k == "SumCD":
        T = s["T"]
        return (T.mT @ T if s["upper"] else T @ T.mT) + s["A"]
    if k == "Derived":
        A, how = s["A"], s["how"]
        if how == "cat_rows":        # [[A, B^T], [B, D]]  (cross_mat B is K x N)
            return torch.cat([torch.cat([A, s["B"].mT], -1), torch.cat([s["B"], s["D"]], -1)], -2)
        if how == "add_low_rank":
            return A + s["V"] @ s["V"].mT
        if how == "add_jitter":
            return A + s["j"] * torch.eye(A.shape[-1], dtype=F64)
        if how == "add_diagonal":
            return A + torch.diag_embed(s["d"])
        return A.clone()
    if k == "Diag":
        return torch.diag_embed(s["d"])
    if k == "CDiag":
        return torch.diag_embed(s["c"].expand(*s["c"].shape[:-1], s["n"]))
    if k == "Ident":
        return torch.eye(s["n"], dtype=F64).expand(*s["batch"], s["n"], s["n"]).clone()
    if k == "Tri":
        return s["T"].clone()
    if k == "Chol":
        T = s["T"]
        return T.mT @ T if s["upper"] else T @ T.mT
    if k == "Kron":
        return bkron(s["fs"])
    if k == "KPAD":
        return bkron(s["fs"]) + kdiag_dense(s["dk"], s["fs"])
    if k == "LRRAD":
        return s["U"] @ s["U"].mT + torch.diag_embed(s["d"])
    if k == "SumKron":
        return bkron(s["a"]) + bkron(s["b"])
    if k == "Block":
        base = dense(s["base"])
        kk, m = base.shape[-3], base.shape[-1]
        out = torch.zeros(*base.shape[:-3], kk * m, kk * m, dtype=F64)
        for i in range(kk):
            if s["il"]:
                out[..., i::kk, i::kk] = base[..., i, :, :]
            else:
                out[..., i * m:(i + 1) * m, i * m:(i + 1) * m] = base[..., i, :, :]
        return out
    if k == "Repeat":
        base = dense(s["base"])
        rep = list(s["rep"])
        pad = len(rep) + 2 - base.dim()
        if pad > 0:
            base = base.reshape(*([1] * pad), *base.shape)
        return base.repeat(*rep, 1, 1)
    raise ValueError(k)


# ----------------------------------------------------------------------------------------- Coq literals (float_scope open)

def fl(x):
    x = float(x)
    if x != x:
        return "nan"
    if x == float("inf"):
        return "infinity"
    if x == float("-inf"):
        return "neg_infinity"
    h = x.hex()
    return "(-%s)" % h[1:] if h.startswith("-") else h


def nat(n):
    return "%d%%nat" % int(n)


def lst(items):
    return "[:: " + "; ".join(items) + "]" if items else "[::]"


def vec_lit(v):
    return lst([fl(x) for x in v.reshape(-1).tolist()])


def mat_lit(M):
    return lst([vec_lit(r) for r in M])


def natlist(xs):
    return lst([nat(x) for x in xs])


def members(t, nd):
    """flatten the batch dims of a tensor whose last nd dims are the member"""
    if t.dim() <= nd:
        return t.reshape(1, *t.shape)
    B = int(math.prod(t.shape[:t.dim() - nd]))
    return t.reshape(B, *t.shape[t.dim() - nd:])


def expand_to(t, batch, nd):
    return t.expand(*batch, *t.shape[t.dim() - nd:])


def leaf_lit(s, pc=None, croot=None):
    """BLeaf literal: (batch shape, members).  pc: per-member (k, L, d) for AddedDiag operators; croot: the lower
    triangular root found in the operator's root_decomposition cache before the call (tensor (*batch, n, n))."""
    k = s["k"]
    bs = spec_batch(s)
    B = int(math.prod(bs))
    if k in GENERIC or k == "SumKron":
        A = dense(s)
        n = A.shape[-1]
        Ms = members(A, 2)
        ms = []
        for b in range(B):
            if croot is not None:
                Lb = members(expand_to(croot, bs, 2), 2)[b]
                ms.append("Cached %s %s %s" % (nat(n), mat_lit(Ms[b]), mat_lit(Lb)))
                continue
            if pc is not None:
                kk, L, d = pc
                Lb = members(expand_to(L, bs, 2), 2)[b]
                db = members(expand_to(d, bs, 1), 1)[b]
                p = "(Some (%s, %s, %s))" % (nat(kk), mat_lit(Lb), vec_lit(db))
            else:
                p = "None"
            ms.append("Generic %s %s %s" % (nat(n), mat_lit(Ms[b]), p))
        if k == "SumKron":
            ms = ["Exact %s %s" % (nat(n), mat_lit(Ms[b])) for b in range(B)]
    elif k == "Diag":
        ms = ["Diag %s" % vec_lit(d) for d in members(s["d"], 1)]
    elif k == "CDiag":
        ms = ["Diag %s" % vec_lit(c.expand(s["n"])) for c in members(s["c"], 1)]
    elif k == "Ident":
        ms = ["Ident %s" % nat(s["n"])] * B
    elif k in ("Tri", "Chol"):
        n = s["T"].shape[-1]
        ms = ["%s %s %s %s" % (k, "true" if s["upper"] else "false", nat(n), mat_lit(T)) for T in members(s["T"], 2)]
    elif k in ("Kron", "KPAD"):
        fms = [members(f, 2) for f in s["fs"]]
        ms = []
        for b in range(B):
            fsl = lst(["(%s, %s)" % (nat(f.shape[-1]), mat_lit(fm[b])) for f, fm in zip(s["fs"], fms)])
            if k == "Kron":
                ms.append("Kron %s" % fsl)
            else:
                dk = s["dk"]
                if dk["k"] == "const":
                    dl = "(KConst %s)" % fl(members(dk["c"], 1)[b][0])
                elif dk["k"] == "diag":
                    dl = "(KDiag %s)" % vec_lit(members(dk["d"], 1)[b])
                else:
                    dl = "(KKron %s %s)" % ("true" if dk["consts"] else "false",
                                            lst([vec_lit(members(d, 1)[b]) for d in dk["ds"]]))
                ms.append("KPAD %s %s" % (fsl, dl))
    elif k == "LRRAD":
        n, r = s["U"].shape[-2:]
        ms = ["LRRAD %s %s %s %s" % (nat(n), nat(r), mat_lit(U), vec_lit(d))
              for U, d in zip(members(s["U"], 2), members(s["d"], 1))]
    else:
        raise ValueError(k)
    if "xb" in s and croot is None and pc is None and k in ("Dense", "Diag", "CDiag", "Ident", "Chol"):
        # an .expand()-ed batch: the BASE members and the model of _expand_batch (Model.v chol_expand_batch), so that the
        # shard executes the expansion (which keeps the Cholesky orientation flag)
        xb = list(s["xb"])
        pxb = [1] * (len(bs) - len(xb)) + xb
        rep = [f // x for f, x in zip(bs, pxb)]
        idx = torch.arange(B).reshape(*bs) if bs else torch.arange(1)
        base_first = shrink(idx.reshape(*bs, 1, 1), xb, 2).reshape(-1).tolist()   # flat index of one copy of each base member
        return "(BLeaf %s (chol_expand_batch %s %s %s))" % (natlist(bs), natlist(rep), natlist(pxb),
                                                           lst(["(%s)" % ms[i] for i in base_first]))
    return "(BLeaf %s %s)" % (natlist(bs), lst(["(%s)" % m for m in ms]))


def bop_lit(s, pc=None, croot=None):
    k = s["k"]
    if k == "Block":
        return "(BBlock %s %s)" % ("true" if s["il"] else "false", bop_lit(s["base"], pc))
    if k == "Repeat":
        return "(BRepeat %s %s)" % (bop_lit(s["base"], pc), natlist(s["rep"]))
    return leaf_lit(s, pc, croot)


def rhs_lit(R, is_vec, batch):
    """rhs_in literal: R has shape (*batch, n, t) (or (n,) when is_vec)"""
    if R is None:
        return "None"
    if is_vec:
        return "(Some (true, [:: [:: %s]]))" % vec_lit(R)
    ms = members(R, 2)
    return "(Some (false, %s))" % lst([lst([vec_lit(M[:, j]) for j in range(M.shape[-1])]) for M in ms])


def probes_lit(U):
    """probe tensor (*batch, n, m) -> flat member-major list of columns"""
    if U is None:
        return "[::]"
    ms = members(U, 2)
    return lst([vec_lit(M[:, j]) for M in ms for j in range(M.shape[-1])])


def out_lit(o):
    if o is None:
        return "ONone"
    if o.numel() == 0:
        return "OEmpty"
    return "(OVal %s %s)" % (natlist(o.shape), vec_lit(o))


# ----------------------------------------------------------------------------------------- json

def to_json(x):
    if isinstance(x, torch.Tensor):
        return {"__t__": list(x.shape), "v": x.reshape(-1).tolist()}
    if isinstance(x, dict):
        return {k: to_json(v) for k, v in x.items()}
    if isinstance(x, (list, tuple)):
        return [to_json(v) for v in x]
    return x


def from_json(x):
    if isinstance(x, dict):
        if "__t__" in x:
            return torch.tensor(x["v"], dtype=F64).reshape(x["__t__"])
        return {k: from_json(v) for k, v in x.items()}
    if isinstance(x, list):
        return [from_json(v) for v in x]
    return x
