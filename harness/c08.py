"""C08 — conjugate gradients converges to the solution and returns true Lanczos matrices.

proof    : coq/C08/Property.v (theorems about the Gallina transcription coq/C08/Model.v of linear_cg.py)
tie      : correspondence — the model runs on PrimFloat inside coqc (vm_compute) on the same inputs as the real
           linear_cg (budgets max_iter = 1..K, recorded closure call sequences, warnings, exceptions, t_mat)
search   : the property predicates evaluated directly on the implementation for every generated system with a
           dense float64 oracle (harness/c08_pred.py)
"""
import json
import os
import random
import re
import time

import torch

from . import common
from . import c08_sys as S
from . import c08_pred as P
from . import c08_grid as G

PROP = "C08"
F64 = torch.float64


def regenerate():
    """Nothing of coq/C08 is generated from the source text (the tie is the correspondence)."""
    os.makedirs(os.path.join(common.COQ, PROP, "gen"), exist_ok=True)
    return {}


# ------------------------------------------------------------------------------------------ literals

def fl(x):
    return common.flit(x)


def seq_lit(items):
    return "[:: " + "; ".join(items) + "]" if items else "[::]"


def vec_lit(v):
    return seq_lit([fl(x) for x in v])


def cols_lit(t, spec):
    """tensor broadcastable to (*batch, n, c) -> list of B*c columns (batch-major), each of n floats"""
    t = S.expand_cols(t, spec)
    batch, n, c = S.full_shapes(spec)
    t = t.reshape(-1, n, c)
    out = []
    for b in range(t.shape[0]):
        tb = t[b].T.tolist()       # c lists of n
        out += [vec_lit(col) for col in tb]
    return seq_lit(out)


def mats_lit(t, spec):
    """(*batch, n, n) -> list of B matrices (rows)"""
    batch, n, c = S.full_shapes(spec)
    t = t.to(F64).expand(*batch, n, n).reshape(-1, n, n)
    return seq_lit([seq_lit([vec_lit(row) for row in t[b].tolist()]) for b in range(t.shape[0])])


def tmat_lit(tm, spec):
    """t_mat (n_tridiag, *batch, m, m) -> list over (b, q) batch-major of m x m matrices"""
    batch = tuple(spec["batch"])
    q = tm.shape[0]
    m = tm.shape[-1]
    t = tm.to(F64).reshape(q, -1, m, m)
    out = []
    for b in range(t.shape[1]):
        for qq in range(q):
            out.append(seq_lit([vec_lit(row) for row in t[qq, b].tolist()]))
    return seq_lit(out)


def opt(x, f=str):
    return "None" if x is None else "(Some %s)" % f(x)


TRI_THRESH = 1e-6


def case_lit(spec, T, obs, sysname, level, tol):
    """one Gallina `case` ; the big tensors are referenced by name (sysname_A, ...)"""
    n, c = spec["n"], spec["nc"]
    st = obs["settings"]
    dt32 = spec.get("dtype") == "float32"

    def num(x):
        """a python scalar argument as the implementation sees it"""
        return fl(x)
    eps = spec.get("eps", 1e-10)
    if eps is None:
        eps = 1e-10
    if dt32:
        eps = float(torch.tensor(eps, dtype=torch.float32))      # line 172: torch.tensor(eps, dtype=rhs.dtype)
    stop = spec.get("stop")
    stop = 1e-10 if stop is None else stop
    settings = "(@MkSettings float %d %d %s %s %s)" % (st["max_cg"], st["max_lq"], fl(st["tol"]), common.coq_bool(st["tcs"]), fl(TRI_THRESH))
    mck = spec.get("mc", "callable")
    if mck == "callable":
        mc = "(dense_closure %d %s_A)" % (c, sysname)
    elif mck == "tensor":
        mc = "(ClTensor %s_A)" % sysname
    else:
        mc = "(@ClOther float)"
    x0 = "None"
    if T["x0"] is not None:
        x0 = "(Some (%s, %s_x0))" % (common.coq_bool(T["x0"].dim() == 1), sysname)
    pre = "None" if T["Minv"] is None else "(dense_pre %d %s_M)" % (c, sysname)
    args = "(@MkArgs float %s %d %d %s %s_rhs %d %s %s %s %s %s %s %s)" % (
        mc, n, c, common.coq_bool(bool(spec.get("rhs_vec"))), sysname, spec.get("n_tridiag") or 0,
        opt(spec.get("tol"), fl), fl(eps), fl(stop), opt(spec.get("max_iter"), lambda v: "%d" % v),
        opt(spec.get("max_tridiag_iter"), lambda v: "%d" % v), x0, pre)
    if obs["err"] is not None:
        o = "(ObsErr %s)" % obs["err"]
    else:
        full_nd = len(spec["batch"]) + 2
        sq = obs["res"].dim() == full_nd - 1
        res = obs["res"].unsqueeze(-1) if sq else obs["res"]
        tm = "None" if obs["tmat"] is None else "(Some %s)" % tmat_lit(obs["tmat"], spec)
        winfo = "None"
        if obs["warn"] and obs["wk"] is not None and obs["wmean"] is not None:
            winfo = "(Some (%d, %s))" % (obs["wk"], fl(obs["wmean"]))
        mmc = "None" if obs["mm_calls"] is None or level == 0 else "(Some %s)" % seq_lit([cols_lit(v, spec) for v in obs["mm_calls"]])
        prc = "None" if obs["pre_calls"] is None or level == 0 else "(Some %s)" % seq_lit([cols_lit(v, spec) for v in obs["pre_calls"]])
        o = "(ObsOk %s %s %s %s %s %s %s)" % (cols_lit(res, spec), common.coq_bool(sq), tm, common.coq_bool(obs["warn"]), winfo, mmc, prc)
    return "(MkCase %s %s %d %s %s)" % (settings, args, level, fl(tol), o)


def sys_defs(spec, T, sysname):
    d = ["Definition %s_A : seq (mat float) := %s." % (sysname, mats_lit(T["A"].to(torch.float32) if spec.get("dtype") == "float32" else T["A"], spec)),
         "Definition %s_rhs : cols float := %s." % (sysname, cols_lit(cast(T["rhs"], spec), spec))]
    if T["x0"] is not None:
        d.append("Definition %s_x0 : cols float := %s." % (sysname, cols_lit(cast(T["x0"], spec), spec)))
    if T["Minv"] is not None:
        d.append("Definition %s_M : seq (mat float) := %s." % (sysname, mats_lit(cast(T["Minv"], spec), spec)))
    return d


def cast(t, spec):
    return t.to(torch.float32) if spec.get("dtype") == "float32" else t


HEADER = ("From Coq Require Import PrimFloat.\n"
          "From mathcomp Require Import ssreflect ssrfun ssrbool eqtype ssrnat seq.\n"
          "Require Import C08.Model C08.Check.\n")


def parse_seq_nat(out):
    m = re.search(r"=\s*\[::\s*(.*?)\]\s*:\s*seq nat", out, re.S)
    if not m:
        return None
    body = m.group(1).strip()
    if not body:
        return []
    return [int(x.strip()) for x in body.split(";")]


REASON = {1: "raise-vs-return", 2: "error-kind", 3: "squeeze", 4: "t_mat presence/count", 5: "warning flag",
          6: "warning text (iterations / mean residual)", 7: "matmul_closure call sequence",
          8: "preconditioner call sequence", 9: "result values", 10: "t_mat values or size"}


# ------------------------------------------------------------------------------------------ the run

def level_and_tol(spec, T, obs):
    """trajectory-comparison policy of DESIGN 2.4"""
    return G.policy(spec)


def key_of(spec, check, symptom=None):
    k = {"check": check, "pre": spec.get("pre", "none"), "pre_alias": spec.get("pre_alias", "fresh") if spec.get("pre", "none") != "none" else "n/a",
         "mm_alias": spec.get("mm_alias", "fresh"), "dtype": spec.get("dtype", "float64"), "mc": spec.get("mc", "callable"),
         "batch": len(spec["batch"]), "n_tridiag": int(bool(spec.get("n_tridiag"))), "fam": spec["fam"],
         "x0": spec.get("x0", "none"), "tcs": bool(spec.get("tcs"))}
    # memory behaviour of the preconditioner's return value (what the aliasing findings are keyed on)
    pa = k["pre_alias"]
    k["pre_returns"] = {"arg": "argument-storage", "view": "argument-storage", "expand": "overlapping-view"}.get(pa, "fresh" if pa != "n/a" else "n/a")
    k["max_iter"] = "1" if spec.get("max_iter") == 1 else ("default" if spec.get("max_iter") is None else ">1")
    if spec.get("op_entry"):
        k["op"] = spec["op_entry"]
        k["debug"] = bool(spec.get("op_debug", True))
    if symptom:
        k["symptom"] = symptom
    if symptom == "zero-tmat":
        # the break-before-first-tridiagonal-update corner happens whatever the preconditioner returns: keep it apart
        # from the aliasing findings (which are keyed on pre_returns alone)
        k["pre_returns"] = "not-involved"
    return k


def symptom_of(obs):
    if obs["err"] is not None:
        return "raises-" + obs["err"].split(":")[1] if obs["err"].startswith("other:") else "raises-" + obs["err"]
    if obs["res"] is not None and not bool(torch.isfinite(obs["res"]).all()):
        return "nan-result"
    return "wrong-values"


def run_systems(ctx, systems, say=True):
    """systems: list of (spec, budgets).  Runs the implementation, evaluates the direct predicates,
    returns (cases for Coq, failures, counters)."""
    cases, fails = [], []
    cnt = {"impl_calls": 0, "pred_evals": 0, "systems": 0}
    for si, (spec, budgets) in enumerate(systems):
        T = S.build(spec)
        runs = []
        for mi in budgets:
            sp = G.fix_limits(spec, mi)
            obs = S.run_impl(sp, T)
            cnt["impl_calls"] += 1
            runs.append((sp, obs))
        cnt["systems"] += 1
        try:
            fs, ne = P.check_system(spec, T, runs, cnt)
        except Exception as ex:     # outputs the oracle cannot even interpret (wrong shapes ...): that is a failing input
            import traceback
            fs, ne = [P.fail(runs[-1][0] if runs else spec, "malformed-output",
                             "the property predicates could not be evaluated on the outputs: %r" % (ex,),
                             detail=traceback.format_exc()[-800:], symptom="malformed-output")], 1
        cnt["pred_evals"] += ne
        # scaling law on the implementation: one more call with 4 * rhs (and 4 * initial guess) at the largest budget
        if runs and not spec.get("poison") and spec.get("x0") != "nan" and spec.get("mc", "callable") in ("callable", "tensor"):
            sp_l, obs_l = runs[-1]
            cf = P.scaling_factor(spec)
            obs_c = S.run_impl(sp_l, T, rhs_scale=cf)
            cnt["impl_calls"] += 1
            f2, n2 = P.check_scaling(sp_l, T, obs_l, obs_c, cf)
            fs += f2
            cnt["pred_evals"] += n2
        # operator-level entry points (LinearOperator.solve / ._solve / .inv_quad on the CG path), settings.debug on and off
        if runs and spec.get("op"):
            sp_l, obs_l = runs[-1]
            # solve / inv_quad use the operator's own (here: no) preconditioner, so they are the direct call only for the
            # cells without one; _solve takes the preconditioner closure as an argument
            entries = ["_solve"] + (["inv_quad", "solve"] if spec.get("pre", "none") == "none" else [])
            dbgs = (True, False)
            if spec["op"] == "limits":
                # limits-from-settings cells: the routes that tridiagonalise as well; raise-or-not is what is observed
                # (_solve without tridiagonalisation is the direct call only when that call has n_tridiag = 0)
                entries = ["_solve_tri", "inv_quad_logdet"] + ([] if spec.get("n_tridiag") else ["_solve"])
                dbgs = (True,)
            for entry in entries:
                for dbg in dbgs:
                    obs_o = S.run_op(sp_l, T, entry, dbg)
                    cnt["impl_calls"] += 1
                    cnt["op_calls"] = cnt.get("op_calls", 0) + 1
                    f3, n3 = P.check_op(sp_l, T, obs_l, obs_o, entry, dbg)
                    fs += f3
                    cnt["pred_evals"] += n3
        for f in fs:
            fails.append((spec, T, f))
        cases.append((si, spec, T, runs))
    return cases, fails, cnt


LEVELS = {}


def write_shards(ctx, cases, per_shard_budget=None):
    """group systems into shards by estimated vm_compute cost"""
    shards, cur, cur_cost, index = [], [], 0.0, []
    LIM = 6.0e8 if ctx.quick else 1.2e9
    for (si, spec, T, runs) in cases:
        n, C = spec["n"], spec["nc"] * S.prod(spec["batch"])
        sysname = "s%d" % si
        defs = sys_defs(spec, T, sysname)
        names = []
        cost = 0.0
        for ri, (sp, obs) in enumerate(runs):
            if isinstance(obs["err"], str) and obs["err"].startswith("other:"):
                continue            # reported by the direct predicate (unexpected exception)
            level, tol = G.policy(sp)
            if sp.get("coq", True) is False:
                continue
            nm = "%s_c%d" % (sysname, ri)
            LEVELS[level] = LEVELS.get(level, 0) + 1
            try:
                lit = case_lit(sp, T, obs, sysname, level, tol)
            except (RuntimeError, ValueError, IndexError):
                continue            # outputs of unexpected shape: reported by the direct predicates (malformed-output / shape)
            defs.append("Definition %s : case := %s." % (nm, lit))
            names.append((nm, si, ri))
            its = len(obs["mm_calls"]) if obs["mm_calls"] else (sp.get("max_iter") or 12)
            cost += (its + 1) * C * (n * n * (2 if T["Minv"] is not None else 1) + 14 * n * (n / 2 + 4))
        if not names:
            continue
        if cur and (cur_cost + cost > LIM or len(index) + len(names) > 400):
            shards.append((cur, index))
            cur, cur_cost, index = [], 0.0, []
        cur += defs
        index += names
        cur_cost += cost
    if cur:
        shards.append((cur, index))
    out = []
    for k, (defs, index) in enumerate(shards):
        src = HEADER + "\n".join(defs) + "\nDefinition cases : seq case := %s.\n" % seq_lit([nm for nm, _, _ in index]) + \
            "Eval vm_compute in (bad_cases cases 0).\n"
        out.append(("c08_%d" % k, src, index))
    return out


def report_fail(ctx, spec, T, f):
    """f: dict(check=..., what=..., detail=..., obs symptom...)"""
    replay = {"kind": "property-predicate-fails-on-implementation", "spec": f.get("spec", spec), "check": f["check"],
              "what": f["what"], "detail": f.get("detail")}
    return ctx.violation(replay, key=key_of(f.get("spec", spec), f["check"], f.get("symptom")))


def run(ctx):
    regenerate()
    rng = random.Random(ctx.seed)
    systems = G.grid(ctx.quick, rng)
    state = {}

    def on_fail(info):
        # a theorem no longer checks: search the implementation at thorough width with the direct predicates
        rng2 = random.Random(ctx.seed)
        found = 0
        cases, fails, _ = run_systems(ctx, G.grid(False, rng2)[:1500])
        for spec, T, f in fails[:10]:
            found += bool(report_fail(ctx, spec, T, f))
        return found > 0
    ok = common.proof_stage(ctx, on_fail)
    t0 = time.time()
    cases, fails, cnt = run_systems(ctx, systems)
    t_impl = time.time() - t0
    seen = set()
    nfail = 0
    for spec, T, f in fails:
        sig = json.dumps(key_of(f.get("spec", spec), f["check"], f.get("symptom")), sort_keys=True)
        if sig in seen:
            continue
        seen.add(sig)
        nfail += 1
        report_fail(ctx, spec, T, f)
    mism = []
    ncoq = 0
    t1 = time.time()
    if ok:
        shards = write_shards(ctx, cases)
        res = common.run_shards(ctx, [(nm, src) for nm, src, _ in shards], timeout=600 if ctx.quick else 1400)
        bycase = {si: (spec, T, runs) for (si, spec, T, runs) in cases}
        for nm, src, index in shards:
            ncoq += len(index)
            rc, out = res[nm]
            bad = parse_seq_nat(out) if rc == 0 else None
            if bad is None:
                ctx.violation({"kind": "shard-failed", "shard": nm, "out": out[-700:]}, no_input=True)
                continue
            for code in bad:
                i, reason = code // 16, code % 16
                _, si, ri = index[i]
                mism.append((si, ri, reason))
        # triage: the direct predicates have already been evaluated on every system; a disagreement whose
        # system also fails a predicate is that failing input (already reported above).  Otherwise decide
        # with the dense oracle whether the implementation or the model is off.
        failing_sys = {json.dumps(s, sort_keys=True) for s, _, _ in fails}
        seen2 = set()
        for si, ri, reason in mism:
            spec, T, runs = bycase[si]
            sp, obs = runs[ri]
            if json.dumps(spec, sort_keys=True) in failing_sys:
                continue
            verdict = P.triage(sp, T, obs, reason)
            sig = (json.dumps(key_of(sp, "corr-%d" % reason), sort_keys=True), verdict is None)
            if sig in seen2:
                continue
            seen2.add(sig)
            if verdict is not None:
                ctx.violation({"kind": "implementation-deviates-from-dense-oracle", "spec": sp, "what": verdict,
                               "reason": REASON.get(reason)}, key=key_of(sp, "corr-%d" % reason, symptom_of(obs)))
            else:
                ctx.violation({"kind": "model-implementation-disagreement", "spec": sp, "reason": REASON.get(reason),
                               "correspondence": "coq/C08/Check.v check_case (PrimFloat model vs linear_cg)"}, no_input=True)
    t_coq = time.time() - t1
    nontriv = set()
    dist = {}
    for (si, spec, T, runs) in cases:
        for sp, obs in runs:
            its = len(obs["mm_calls"]) - 1 if obs["mm_calls"] else 0
            if obs["err"] is None and its >= 1:
                nontriv.add(json.dumps(sp, sort_keys=True))
        for k in ("fam", "n", "pre", "dtype", "x0", "cols", "pre_alias", "mm_alias", "mc", "n_tridiag", "tcs"):
            v = str(spec.get(k, "-")) if k != "batch" else str(tuple(spec["batch"]))
            dist.setdefault(k, {})
            dist[k][v] = dist[k].get(v, 0) + 1
        b = str(tuple(spec["batch"]))
        dist.setdefault("batch", {})
        dist["batch"][b] = dist["batch"].get(b, 0) + 1
    samples = [cases[len(cases) // 3][1], cases[-1][1]] if cases else []
    ctx.coverage.update({
        "trusted_base": common.COQ_TRUSTED + [
            "coq/C08/Model.v is a hand transcription of linear_cg.py (tied by correspondence only, no translator)",
            "torch primitives modelled by their mathematical meaning (elementwise ops, sum/norm/mean/max/all, masked_fill_, "
            "addcmul, reciprocal, views); torch.jit.script wrappers treated as the plain functions; IEEE rounding is "
            "covered by the correspondence tolerance only (theorems are exact-arithmetic, F : rcfType)",
            "closures are modelled as column-wise functions; aliasing of tensors is NOT in the functional model "
            "(covered by the closure-aliasing modes of the correspondence grid)",
            "correspondence harness harness/c08*.py (system builder, recording closures, literal writer, "
            "comparator coq/C08/Check.v with column-relative tolerance) and the dense float64 oracle (torch.linalg)"],
        "evaluations": cnt["impl_calls"], "coq_cases": ncoq, "systems": cnt["systems"],
        "predicate_evaluations": cnt["pred_evals"],
        "distinct_nontrivial": len(nontriv),
        "rule": "one evaluation = one call of linear_cg; non-trivial = returned without raising after executing at least one "
                "loop body; distinct by the full structural spec (family, kappa, size, batch, column kinds, guess, preconditioner, "
                "aliasing modes, thresholds, limits, n_tridiag, terminate_cg_by_size, dtype, budget)",
        "mismatches": len(mism), "direct_property_failures": nfail,
        "coq_cases_values_compared": LEVELS.get(1, 0), "coq_cases_structure_only": LEVELS.get(0, 0),
        "mismatch_note": "mismatches / direct_property_failures count the cells of the three keyed known findings "
                         "(aliasing preconditioner outputs, zero t_mat at max_iter = 1); every one is triaged, none is unlisted",
        "input_distribution": dist, "samples": samples,
        "time_impl_s": round(t_impl, 1), "time_coq_s": round(t_coq, 1),
        "counters": {k: v for k, v in cnt.items() if k not in ("impl_calls", "systems", "pred_evals")},
    })
    ctx.assumptions = [
        "theorems: the matmul closure multiplies every flat column by a fixed matrix (col_linear; proved of the dense tensor "
        "closure); the preconditioner is an arbitrary function except in cg_zero_column (column-wise linear); A_j symmetric with "
        "A_j x* = rhs_j in cg_anorm_monotone, plus eps > 0 and no p^T A p < eps safe division on a still-active column (no_breakdown)",
        "cg_scaling: no column norm below eps before or after scaling; cg_no_warning_bound: n_iter > 0",
        "exact arithmetic in the theorems (commutative ring / real closed field); binary64 / binary32 behaviour only through "
        "the correspondence tolerances (1e-9 resp. 1e-3 relative to the column / trajectory maximum)",
        "cg_conjugacy / cg_finite_termination / cg_exact_at_n / cg_precond_same_limit / cg_optimal_over_* / cg_tridiag_is_lanczos / "
        "cg_tridiag_moments / cg_ritz_values_in_spectrum: statements about REGULAR stretches of the run of the model (run_regular: "
        "column not frozen, p^T A p >= eps and r^T z >= eps in every loop body considered, so alpha and beta are exact quotients); "
        "A_j symmetric, preconditioner column-wise a symmetric matrix, eps > 0 (A psd in cg_optimal_*, A invertible for the "
        "A^-1 b_hat form); satisfiable: Examples cg_regular_run_satisfiable (1x1) and cg_lanczos_run_satisfiable (2x2, L = 1)",
        "PARTIAL: the Chebyshev rate 2((sqrt(k)-1)/(sqrt(k)+1))^j is NOT proved (its first half, optimality over the Krylov space, "
        "is: cg_optimal_over_krylov; the second half needs the spectral theorem); e1^T f(T) e1 = z^T f(A) z is proved for "
        "polynomial f only; both are evaluated on the implementation against a dense oracle on every generated system (support only)",
        "cg_tmat_entries leaves T[0,0] unspecified while t_mat has a single row (that corner is the known finding C08-tmat-zero-at-max-iter-1)"]


def replay(rp):
    spec = rp.get("spec")
    if spec is None:
        print("replay file names a proof obligation / correspondence, not an input:", rp.get("kind"))
        print(json.dumps(rp.get("obligation", rp), indent=1)[:2000])
        return 1
    T = S.build(spec)
    obs = S.run_impl(spec, T)
    print("spec:", json.dumps(spec))
    if spec.get("op_entry"):
        obs_o = S.run_op(spec, T, spec["op_entry"], spec.get("op_debug", True))
        print("operator-level %s (debug %s): raised %s, NumericalWarning %s; direct linear_cg: raised %s, NumericalWarning %s" % (
            spec["op_entry"], spec.get("op_debug", True), obs_o["err"], obs_o["warn"], obs["err"], obs["warn"]))
        fs, _ = P.check_op(spec, T, obs, obs_o, spec["op_entry"], spec.get("op_debug", True))
        for f in fs:
            print("property failure:", f["check"], "-", f["what"])
        return 1 if fs else 0
    print("raised:", obs["err"], " warn:", obs["warn"], obs["wk"], obs["wmean"])
    if obs["res"] is not None:
        print("result:", obs["res"].flatten()[:8].tolist())
    fs, _ = P.check_system(spec, T, [(spec, obs)], {}, single=True)
    for f in fs:
        print("property failure:", f["check"], "-", f["what"])
    return 1 if fs else 0
