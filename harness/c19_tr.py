"""C19 translator: /repo source (AST only, nothing is imported)  ->  coq/C19/gen/Guards.v

Two parts, both fail-closed (anything outside the recognised subset raises Untranslatable; the check then reports
the obligation as broken and searches the implementation for a failing input):

 A. FUNCTIONS.  utils/broadcasting.py::_matmul_broadcast_shape and the `isinstance(idx, int)` branch of
    utils/getitem.py::_compute_getitem_size are translated statement by statement into Gallina terms over the
    combinators of coq/C19/Model.v (py_idx, py_slice_to, bind, lift, try_catch, torch_broadcast, py_range_idx).
    Python subset: tuple/simple assignment, if/elif/else, raise, return, try/except-raise, ==/!=, len(), x[c], x[:c],
    x[c:], torch.Size([..]), torch.broadcast_shapes(a, b), shape + shape, range(n)[i], settings.debug.on().

 C. OPERATOR-OPERAND OVERRIDES.  The branches of the class-level __add__ / _mul_matrix / add_diagonal / mul overrides that
    take an OPERATOR second operand and decide by themselves whether the shapes fit (ConstantDiag + ConstantDiag,
    ConstantDiag * ConstantDiag, Diag + Diag through Diag.add_diagonal, Dense + Dense, Zero + x, Zero * x) are translated
    into Gallina functions of the two operator shapes (every tensor / operator expression is denoted by its shape;
    attributes by the class invariants of ATTR_MODEL, whose defining `_size` / `_diag` / constructor sources are
    template-checked).  FAST PATHS: every path of a binary entry point that returns `self` or the operand unchanged is
    listed with the guards passed before it and the operand classes tested positively around it.

 B. GUARD TABLE.  For every class in linear_operator/operators/*.py and every public entry point, the method that
    runs is resolved through the MRO (C3 on the AST's base lists) and its body is abstractly interpreted:
    which recognised guards have been passed on every path when a `return` is reached, and how the path ends
    (XCompute: reaches torch / a private method / a constructor;  XSelf e: returns self.<e>(...);  `super().<same>()`
    is inlined with the guards collected so far).  Paths ending in `raise` are dropped.
"""
import ast
import os
import re


class Untranslatable(Exception):
    pass


# ------------------------------------------------------------------------------------------------ part A

class FnTr:
    """statement-by-statement translation of a small Python function body into a Gallina term of type res T"""

    def __init__(self, types, ret_unit=False):
        self.types = dict(types)        # name -> 'shape' | 'nat' | 'Z' | 'bool'
        self.n = 0
        self.ret_unit = ret_unit

    def fresh(self):
        self.n += 1
        return "t%d" % (self.n - 1)

    # -- expressions: returns (binds, term, type); binds = [(var, effectful_term)]
    def const_int(self, e):
        if isinstance(e, ast.Constant) and isinstance(e.value, int) and not isinstance(e.value, bool):
            return e.value
        if isinstance(e, ast.UnaryOp) and isinstance(e.op, ast.USub) and isinstance(e.operand, ast.Constant) \
                and isinstance(e.operand.value, int):
            return -e.operand.value
        return None

    @staticmethod
    def zlit(k):
        return "(%d)%%Z" % k

    def expr(self, e):
        if isinstance(e, ast.Name):
            if e.id not in self.types:
                raise Untranslatable("unknown name %s" % e.id)
            return [], e.id, self.types[e.id]
        k = self.const_int(e)
        if k is not None:
            if k < 0:
                raise Untranslatable("negative literal outside an index")
            return [], str(k), "nat"
        if isinstance(e, ast.Subscript):
            # range(size)[idx]
            if isinstance(e.value, ast.Call) and isinstance(e.value.func, ast.Name) and e.value.func.id == "range" \
                    and len(e.value.args) == 1 and not e.value.keywords:
                b1, t1, ty1 = self.expr(e.value.args[0])
                b2, t2, ty2 = self.expr(e.slice)
                if ty1 != "nat" or ty2 != "Z":
                    raise Untranslatable("range(n)[i] with unexpected types")
                v = self.fresh()
                return b1 + b2 + [(v, "py_range_idx %s %s" % (t1, t2))], v, "Z"
            b, t, ty = self.expr(e.value)
            if ty != "shape":
                raise Untranslatable("subscript of a non-shape")
            sl = e.slice
            if isinstance(sl, ast.Slice):
                if sl.step is not None:
                    raise Untranslatable("slice step")
                if sl.lower is None and sl.upper is not None:
                    k = self.const_int(sl.upper)
                    if k is None:
                        raise Untranslatable("non-constant slice bound")
                    return b, "(py_slice_to %s %s)" % (t, self.zlit(k)), "shape"
                if sl.upper is None and sl.lower is not None:
                    k = self.const_int(sl.lower)
                    if k is None:
                        raise Untranslatable("non-constant slice bound")
                    return b, "(py_slice_from %s %s)" % (t, self.zlit(k)), "shape"
                raise Untranslatable("unsupported slice form")
            k = self.const_int(sl)
            if k is None:
                raise Untranslatable("non-constant index")
            v = self.fresh()
            return b + [(v, "py_idx %s %s" % (t, self.zlit(k)))], v, "nat"
        if isinstance(e, ast.Call):
            f = e.func
            if isinstance(f, ast.Name) and f.id == "len" and len(e.args) == 1:
                b, t, ty = self.expr(e.args[0])
                if ty != "shape":
                    raise Untranslatable("len of a non-shape")
                return b, "(length %s)" % t, "nat"
            dotted = dotted_name(f)
            if dotted == "torch.Size" and len(e.args) == 1 and isinstance(e.args[0], (ast.List, ast.Tuple)):
                bs, ts = [], []
                for x in e.args[0].elts:
                    b, t, ty = self.expr(x)
                    if ty != "nat":
                        raise Untranslatable("torch.Size of non-dimensions")
                    bs += b
                    ts.append(t)
                return bs, "[%s]" % "; ".join(ts), "shape"
            if dotted == "torch.broadcast_shapes" and len(e.args) == 2 and not e.keywords:
                b1, t1, ty1 = self.expr(e.args[0])
                b2, t2, ty2 = self.expr(e.args[1])
                if ty1 != "shape" or ty2 != "shape":
                    raise Untranslatable("broadcast_shapes of non-shapes")
                v = self.fresh()
                return b1 + b2 + [(v, "lift (torch_broadcast %s %s)" % (t1, t2))], v, "shape"
            if dotted == "settings.debug.on" and not e.args:
                if self.types.get("debug") != "bool":
                    raise Untranslatable("settings.debug.on() outside a debug-parameterised function")
                return [], "debug", "bool"
            raise Untranslatable("call %s" % (dotted or ast.dump(f)[:40]))
        if isinstance(e, ast.BinOp) and isinstance(e.op, ast.Add):
            b1, t1, ty1 = self.expr(e.left)
            b2, t2, ty2 = self.expr(e.right)
            if ty1 == ty2 == "shape":
                return b1 + b2, "(%s ++ %s)" % (t1, t2), "shape"
            raise Untranslatable("+ on non-shapes")
        if isinstance(e, ast.Compare) and len(e.ops) == 1 and isinstance(e.ops[0], (ast.Eq, ast.NotEq)):
            b1, t1, ty1 = self.expr(e.left)
            b2, t2, ty2 = self.expr(e.comparators[0])
            if ty1 == ty2 == "nat":
                c = "(%s =? %s)" % (t1, t2)
            else:
                raise Untranslatable("comparison of %s and %s" % (ty1, ty2))
            if isinstance(e.ops[0], ast.NotEq):
                c = "negb %s" % c
            return b1 + b2, c, "bool"
        raise Untranslatable("expression %s" % ast.dump(e)[:60])

    @staticmethod
    def wrap(binds, body):
        for v, t in reversed(binds):
            body = "bind (%s) (fun %s =>\n%s)" % (t, v, body)
        return body

    # -- statements with continuation k (a Gallina term, or None when falling off the end is impossible)
    def stmts(self, ss, k):
        if not ss:
            if k is None:
                raise Untranslatable("control reaches the end without return")
            return k
        s, rest = ss[0], ss[1:]
        if isinstance(s, ast.Expr) and isinstance(s.value, ast.Constant) and isinstance(s.value.value, str):
            return self.stmts(rest, k)
        if isinstance(s, ast.Raise):
            return "Raise"
        if isinstance(s, ast.Return):
            if s.value is None:
                raise Untranslatable("bare return")
            b, t, ty = self.expr(s.value)
            return self.wrap(b, "Ok %s" % t)
        if isinstance(s, ast.Expr):
            b, t, ty = self.expr(s.value)          # evaluated for its exceptions only
            return self.wrap(b, self.stmts(rest, k))
        if isinstance(s, ast.Assign) and len(s.targets) == 1:
            tg = s.targets[0]
            if isinstance(tg, ast.Name):
                b, t, ty = self.expr(s.value)
                self.types[tg.id] = ty
                return self.wrap(b, "let %s := %s in\n%s" % (tg.id, t, self.stmts(rest, k)))
            if isinstance(tg, ast.Tuple) and isinstance(s.value, ast.Tuple) and len(tg.elts) == len(s.value.elts) \
                    and all(isinstance(x, ast.Name) for x in tg.elts):
                binds, lets = [], []
                for x, v in zip(tg.elts, s.value.elts):
                    b, t, ty = self.expr(v)         # right-hand sides are evaluated left to right, then bound
                    binds += b
                    lets.append((x.id, t, ty))
                for n_, t, ty in lets:
                    self.types[n_] = ty
                body = self.stmts(rest, k)
                for n_, t, ty in reversed(lets):
                    body = "let %s := %s in\n%s" % (n_, t, body)
                return self.wrap(binds, body)
            raise Untranslatable("assignment form")
        if isinstance(s, ast.If) and isinstance(s.test, ast.BoolOp) and len(s.test.values) >= 2:
            # short-circuit semantics:  if A and B: X else: Y  ==  if A: (if B: X else: Y) else: Y   (dually for or)
            a, b = s.test.values[0], s.test.values[1:]
            b = b[0] if len(b) == 1 else ast.BoolOp(op=s.test.op, values=b)
            if isinstance(s.test.op, ast.And):
                inner = ast.If(test=b, body=s.body, orelse=s.orelse)
                return self.stmts([ast.If(test=a, body=[inner], orelse=s.orelse)] + rest, k)
            inner = ast.If(test=b, body=s.body, orelse=s.orelse)
            return self.stmts([ast.If(test=a, body=s.body, orelse=[inner])] + rest, k)
        if isinstance(s, ast.If):
            kk = self.stmts(rest, k) if (rest or k is not None) else None
            saved = dict(self.types)
            try:
                b, t, ty = self.expr(s.test)
            except Untranslatable:
                b = t = None
            self.types = dict(saved)
            th = self.stmts(s.body, kk)
            self.types = dict(saved)
            el = self.stmts(s.orelse, kk) if s.orelse else kk
            self.types = dict(saved)
            if el is None:
                raise Untranslatable("if without else at the end of a function")
            if t is None:
                # a test outside the subset is only tolerated when it cannot matter: both branches raise
                if th == "Raise" and el == "Raise":
                    return "Raise"
                raise Untranslatable("test %s" % ast.dump(s.test)[:60])
            if ty != "bool":
                raise Untranslatable("non-boolean test")
            return self.wrap(b, "if %s then\n%s\nelse\n%s" % (t, th, el))
        if isinstance(s, ast.Try) and not s.orelse and not s.finalbody and s.handlers:
            for h in s.handlers:
                if not (len(h.body) == 1 and isinstance(h.body[0], ast.Raise)):
                    raise Untranslatable("except handler that does not raise")
            unit_before = self.ret_unit
            body = self.stmts(s.body, "Ok tt")
            return "bind (try_catch (%s) Raise) (fun _ =>\n%s)" % (body, self.stmts(rest, k))
        raise Untranslatable("statement %s" % type(s).__name__)


def dotted_name(f):
    parts = []
    while isinstance(f, ast.Attribute):
        parts.append(f.attr)
        f = f.value
    if isinstance(f, ast.Name):
        parts.append(f.id)
        return ".".join(reversed(parts))
    return None


def find_func(tree, name):
    for n in tree.body:
        if isinstance(n, ast.FunctionDef) and n.name == name:
            return n
    raise Untranslatable("function %s not found" % name)


def translate_matmul_broadcast_shape(repo):
    src = open(os.path.join(repo, "linear_operator/utils/broadcasting.py")).read()
    fn = find_func(ast.parse(src), "_matmul_broadcast_shape")
    params = [a.arg for a in fn.args.args]
    if params[:2] != ["shape_a", "shape_b"]:
        raise Untranslatable("_matmul_broadcast_shape signature %s" % params)
    tr = FnTr({"shape_a": "shape", "shape_b": "shape"})
    body = tr.stmts(fn.body, None)
    return ("Definition gen_matmul_broadcast_shape (shape_a shape_b : shape) : res shape :=\n%s.\n" % body)


def translate_getitem_int_branch(repo):
    src = open(os.path.join(repo, "linear_operator/utils/getitem.py")).read()
    fn = find_func(ast.parse(src), "_compute_getitem_size")
    loops = [s for s in fn.body if isinstance(s, ast.For)]
    if len(loops) != 1:
        raise Untranslatable("_compute_getitem_size: expected one for loop")
    lp = loops[0]
    # for i, (size, idx) in enumerate(zip(obj.shape, indices)):
    ok = (isinstance(lp.target, ast.Tuple) and len(lp.target.elts) == 2 and isinstance(lp.target.elts[1], ast.Tuple)
          and [getattr(x, "id", None) for x in lp.target.elts[1].elts] == ["size", "idx"]
          and ast.unparse(lp.iter) == "enumerate(zip(obj.shape, indices))")
    if not ok:
        raise Untranslatable("_compute_getitem_size: loop header changed: %s" % ast.unparse(lp.target))
    # the if / elif chain over the index kinds
    node = lp.body[0] if len(lp.body) == 1 else None
    branch = None
    kinds = []
    while isinstance(node, ast.If):
        t = ast.unparse(node.test)
        kinds.append(t)
        if t == "isinstance(idx, int)":
            branch = node.body
        node = node.orelse[0] if len(node.orelse) == 1 else None
    if branch is None:
        raise Untranslatable("_compute_getitem_size: no isinstance(idx, int) branch (%s)" % kinds)
    # before the loop: the rank check  if obj.dim() != len(indices): raise
    pre = [s for s in fn.body if isinstance(s, ast.If) and ast.unparse(s.test) == "obj.dim() != len(indices)"
           and len(s.body) == 1 and isinstance(s.body[0], ast.Raise)]
    tr = FnTr({"size": "nat", "idx": "Z", "debug": "bool"}, ret_unit=True)
    body = tr.stmts(branch, "Ok tt")
    code = "Definition gen_getitem_int_check (debug : bool) (size : nat) (idx : Z) : res unit :=\n%s.\n" % body
    code += "Definition gen_getitem_rank_check : bool := %s.\n" % ("true" if pre else "false")
    return code


TORCH_DTYPES = {"bool": "DBool", "uint8": "DUInt8", "int8": "DInt8", "int16": "DInt16", "short": "DInt16",
                "int32": "DInt32", "int": "DInt32", "int64": "DInt64", "long": "DInt64"}


class IdxTr(FnTr):
    """FnTr + the expressions of the tensor-index range check: idx.numel(), idx.dtype ==/!= torch.<dtype>,
    idx.max().item() / idx.min().item() compared with size / -size.  `idx` is denoted by (dt, vals)."""

    def expr(self, e):
        src = ast.unparse(e)
        if src == "idx.numel()":
            return [], "negb (length vals =? 0)", "bool"          # truth value of a python int
        if src == "idx.max().item()":
            return [], "(zmax vals)", "Z"
        if src == "idx.min().item()":
            return [], "(zmin vals)", "Z"
        if src == "size":
            return [], "size", "nat"
        if src == "-size":
            return [], "(- Z.of_nat size)%Z", "Z"
        if isinstance(e, ast.Compare) and len(e.ops) == 1 and ast.unparse(e.left) == "idx.dtype":
            nm = dotted_name(e.comparators[0])
            if nm is None or not nm.startswith("torch.") or nm[6:] not in TORCH_DTYPES:
                raise Untranslatable("dtype comparison with %s" % ast.unparse(e.comparators[0]))
            c = "idtype_eqb dt %s" % TORCH_DTYPES[nm[6:]]
            if isinstance(e.ops[0], ast.Eq):
                return [], c, "bool"
            if isinstance(e.ops[0], ast.NotEq):
                return [], "negb (%s)" % c, "bool"
            raise Untranslatable("dtype comparison operator")
        if isinstance(e, ast.Compare) and len(e.ops) == 1 and isinstance(e.ops[0], (ast.GtE, ast.Gt, ast.Lt, ast.LtE)):
            b1, t1, ty1 = self.expr(e.left)
            b2, t2, ty2 = self.expr(e.comparators[0])

            def z(t, ty):
                if ty == "Z":
                    return t
                if ty == "nat":
                    return "Z.of_nat %s" % t
                raise Untranslatable("ordering comparison of %s" % ty)
            l, r = z(t1, ty1), z(t2, ty2)
            op = e.ops[0]
            c = {ast.GtE: "(%s <=? %s)%%Z" % (r, l), ast.Gt: "(%s <? %s)%%Z" % (r, l),
                 ast.Lt: "(%s <? %s)%%Z" % (l, r), ast.LtE: "(%s <=? %s)%%Z" % (l, r)}[type(op)]
            return b1 + b2, c, "bool"
        return FnTr.expr(self, e)


def only_raises(stmts_):
    """every path through the statements ends in `raise` (nested ifs allowed)"""
    if not stmts_:
        return False
    last = stmts_[-1]
    if isinstance(last, ast.Raise):
        return True
    if isinstance(last, ast.If) and last.orelse:
        return only_raises(last.body) and only_raises(last.orelse)
    return False


def translate_getitem_tensor_check(repo):
    """the range check at the top of the `torch.is_tensor(idx)` branch of _compute_getitem_size: the leading `if`
    statements of that branch whose bodies can only raise (conditions: settings.debug, idx.numel(), the DTYPE condition,
    the comparison of idx.max() / idx.min() with size)"""
    src = open(os.path.join(repo, "linear_operator/utils/getitem.py")).read()
    fn = find_func(ast.parse(src), "_compute_getitem_size")
    lp = [s for s in fn.body if isinstance(s, ast.For)][0]
    node = lp.body[0] if len(lp.body) == 1 else None
    branch = None
    while isinstance(node, ast.If):
        if ast.unparse(node.test) == "torch.is_tensor(idx)":
            branch = node.body
        node = node.orelse[0] if len(node.orelse) == 1 else None
    if branch is None:
        raise Untranslatable("_compute_getitem_size: no torch.is_tensor(idx) branch")

    def guard_like(st):
        if not isinstance(st, ast.If) or st.orelse:
            return False
        return only_raises(st.body) or (len(st.body) == 1 and guard_like(st.body[0]))
    checks = []
    for st in branch:
        if guard_like(st):
            checks.append(st)
        else:
            break
    # whatever follows must not look at the VALUES of idx (it computes shapes only)
    for st in branch[len(checks):]:
        t = ast.unparse(st)
        if re.search(r"idx\.(max|min|item|dtype|numel)\b", t) or "raise IndexError" in t and "tensor index out of range" in t:
            raise Untranslatable("_compute_getitem_size: a value-dependent statement follows the range check: %s" % t[:60])
    tr = IdxTr({"debug": "bool"}, ret_unit=True)
    body = tr.stmts(checks, "Ok tt") if checks else "Ok tt"
    return ("Definition gen_getitem_tensor_check (debug : bool) (dt : idtype) (size : nat) (vals : list Z) : res unit :=\n%s.\n"
            % body)


# ------------------------------------------------------------------------------------------------ part B

ENTRY_METHOD = {
    "matmul": "E_matmul", "rmatmul": "E_rmatmul", "solve": "E_solve", "inv_quad": "E_inv_quad",
    "inv_quad_logdet": "E_inv_quad_logdet", "__add__": "E_add", "__sub__": "E_sub", "mul": "E_mul",
    "add_diagonal": "E_add_diagonal", "expand": "E_expand", "__getitem__": "E_getitem", "logdet": "E_logdet",
    "diagonalization": "E_diagonalization", "root_decomposition": "E_root_decomposition",
    "root_inv_decomposition": "E_root_inv_decomposition", "cholesky": "E_cholesky",
}
# thin wrappers that must exist on the base class only and delegate verbatim
WRAPPERS = {"__matmul__": "self.matmul(other)", "__rmatmul__": "self.rmatmul(other)", "__mul__": "self.mul(other)",
            "__rmul__": "self.mul(other)", "__radd__": "self + other"}
EXTERNAL_BASES = {"object", "ABC"}


class ClassInfo:
    def __init__(self, name, bases, methods, attrs, module):
        self.name, self.bases, self.methods, self.attrs, self.module = name, bases, methods, attrs, module


def load_classes(repo):
    d = os.path.join(repo, "linear_operator/operators")
    classes = {}
    for f in sorted(os.listdir(d)):
        if not f.endswith(".py") or f == "__init__.py":
            continue
        tree = ast.parse(open(os.path.join(d, f)).read())
        for n in tree.body:
            if not isinstance(n, ast.ClassDef):
                continue
            bases = []
            for b in n.bases:
                nm = dotted_name(b)
                if nm is None:
                    raise Untranslatable("class %s: base expression %s" % (n.name, ast.dump(b)[:40]))
                bases.append(nm.split(".")[-1])
            methods = {m.name: m for m in n.body if isinstance(m, ast.FunctionDef)}
            attrs = {}
            for m in n.body:
                if isinstance(m, ast.Assign) and len(m.targets) == 1 and isinstance(m.targets[0], ast.Name):
                    attrs[m.targets[0].id] = m.value
            if n.name in classes:
                raise Untranslatable("duplicate class %s" % n.name)
            classes[n.name] = ClassInfo(n.name, bases, methods, attrs, f)
    return classes


def c3(classes, name, memo):
    if name in memo:
        return memo[name]
    if name in EXTERNAL_BASES or name.endswith("Meta"):
        return [name]
    if name not in classes:
        raise Untranslatable("unknown base class %s" % name)
    seqs = [list(c3(classes, b, memo)) for b in classes[name].bases] + [list(classes[name].bases)]
    res = [name]
    while any(seqs):
        seqs = [s for s in seqs if s]
        for s in seqs:
            h = s[0]
            if not any(h in t[1:] for t in seqs):
                break
        else:
            raise Untranslatable("inconsistent MRO for %s" % name)
        res.append(h)
        for s in seqs:
            if s and s[0] == h:
                del s[0]
    memo[name] = res
    return res


def is_lo_class(classes, name, memo):
    try:
        return "LinearOperator" in c3(classes, name, memo)
    except Untranslatable:
        raise


def always_raises(body):
    return bool(body) and isinstance(body[-1], ast.Raise)


def is_self_attr(e, attr):
    return isinstance(e, ast.Attribute) and e.attr == attr and isinstance(e.value, ast.Name) and e.value.id == "self"


def shape_of_param(e, params):
    return isinstance(e, ast.Attribute) and e.attr == "shape" and isinstance(e.value, ast.Name) and e.value.id in params


def guard_of_call(call, params):
    """G_mm / G_bc when `call` is the recognised shape check on (self.shape, <param>.shape)"""
    if not isinstance(call, ast.Call):
        return None
    nm = dotted_name(call.func)
    if nm is None:
        return None
    if nm.split(".")[-1] == "_matmul_broadcast_shape" and len(call.args) >= 2 and is_self_attr(call.args[0], "shape") \
            and shape_of_param(call.args[1], params):
        return "G_mm"
    if nm == "torch.broadcast_shapes" and len(call.args) == 2 and not call.keywords and is_self_attr(call.args[0], "shape") \
            and shape_of_param(call.args[1], params):
        return "G_bc"
    return None


def guard_of_test(test):
    """guard established on the fall-through path of   if <test>: ... raise"""
    t = ast.unparse(test)
    if t == "not self.is_square":
        return "G_sq"
    if t in ("self.size(-1) != self.size(-2)", "self.size(-2) != self.size(-1)",
             "self.shape[-1] != self.shape[-2]", "self.shape[-2] != self.shape[-1]"):
        return "G_sq"
    t = re.sub(r"\s+", " ", t)
    return 'G_partial "%s"' % t.replace('"', "'")[:60]


def stmt_guards(s, params):
    """guards established by a simple statement (call evaluated for its exception)"""
    out = []
    val = None
    if isinstance(s, ast.Expr):
        val = s.value
    elif isinstance(s, ast.Assign):
        val = s.value
    if val is not None:
        g = guard_of_call(val, params)
        if g:
            out.append(g)
    return out


def classify_return(value, method_name):
    """('super',) | ('self', entry) | ('compute',)"""
    if value is None:
        return ("compute",)
    for n in ast.walk(value):
        if isinstance(n, ast.Call) and isinstance(n.func, ast.Attribute):
            f = n.func
            # super().<same method>(...)  /  super(Cls, self).<same method>(...)
            if isinstance(f.value, ast.Call) and isinstance(f.value.func, ast.Name) and f.value.func.id == "super":
                if f.attr == method_name:
                    return ("super",)
    # the returned value is (or contains at its head) a call of another entry point on self
    v = value
    if isinstance(v, ast.Tuple) and v.elts:
        v = v.elts[0]
    # strip trailing .mT / .mT chains (rmatmul)
    while isinstance(v, ast.Attribute) and v.attr in ("mT",):
        v = v.value
    if isinstance(v, ast.Call) and isinstance(v.func, ast.Attribute) and v.func.attr in ENTRY_METHOD:
        recv = v.func.value
        if isinstance(recv, ast.Name) and recv.id == "self":
            return ("self", ENTRY_METHOD[v.func.attr])
        if is_self_attr(recv, "mT"):
            return ("self", ENTRY_METHOD[v.func.attr])
    if isinstance(v, ast.BinOp) and isinstance(v.left, ast.Name) and v.left.id == "self":
        if isinstance(v.op, ast.Add):
            return ("self", "E_add")
        if isinstance(v.op, ast.MatMult):
            return ("self", "E_matmul")
    return ("compute",)


def operand_kind_of_test(test, operand):
    """'tensor' | 'nontensor' | None for   isinstance(<operand>, T)  /  torch.is_tensor(<operand>)"""
    if operand is None or not isinstance(test, ast.Call):
        return None
    nm = dotted_name(test.func)
    if nm == "torch.is_tensor" and len(test.args) == 1 and isinstance(test.args[0], ast.Name) and test.args[0].id == operand:
        return "tensor"
    if nm == "isinstance" and len(test.args) == 2 and isinstance(test.args[0], ast.Name) and test.args[0].id == operand:
        t = test.args[1]
        names = [dotted_name(x) for x in (t.elts if isinstance(t, ast.Tuple) else [t])]
        if any(n is None for n in names):
            return None
        if all(n in ("Tensor", "torch.Tensor") for n in names):
            return "tensor"
        if all(n.endswith("LinearOperator") or n in ("numbers.Number", "float", "int") for n in names):
            return "nontensor"
    return None


def meet(cond, k):
    """refine the operand-kind condition of a path; None = infeasible"""
    if k is None or cond == k:
        return cond
    if cond == "any":
        return k
    return None


def returned_unchanged(value, operand):
    """'self' / 'operand' when the returned expression is the receiver / the operand parameter itself"""
    if isinstance(value, ast.Name):
        if value.id == "self":
            return "self"
        if operand is not None and value.id == operand:
            return "operand"
    return None


def positive_isinstance(test, operand):
    """class names K of a test  isinstance(<operand>, K) / isinstance(<operand>, (K1, K2))  (else None)"""
    if operand is None or not isinstance(test, ast.Call) or dotted_name(test.func) != "isinstance" or len(test.args) != 2:
        return None
    if not (isinstance(test.args[0], ast.Name) and test.args[0].id == operand):
        return None
    t = test.args[1]
    names = [dotted_name(x) for x in (t.elts if isinstance(t, ast.Tuple) else [t])]
    if any(n is None for n in names):
        return None
    return "|".join(n.split(".")[-1] for n in names)


def scalar_only_test(test, operand):
    """the branch is taken only by operands that are neither tensors nor operators (python numbers have no shape):
    isinstance(<operand>, numbers.Number / int / float) [and ...]   or   not (torch.is_tensor(<operand>) or isinstance(<operand>, LinearOperator))"""
    if operand is None:
        return False
    if isinstance(test, ast.BoolOp) and isinstance(test.op, ast.And):
        return any(scalar_only_test(x, operand) for x in test.values)
    pk = positive_isinstance(test, operand)
    if pk is not None and all(n in ("Number", "int", "float") for n in pk.split("|")):
        return True
    if isinstance(test, ast.UnaryOp) and isinstance(test.op, ast.Not) and isinstance(test.operand, ast.BoolOp) \
            and isinstance(test.operand.op, ast.Or):
        txt = sorted(ast.unparse(x) for x in test.operand.values)
        return txt == sorted(["torch.is_tensor(%s)" % operand, "isinstance(%s, LinearOperator)" % operand])
    return False


def flow(stmts, states, params, mname, exits, operand=None, fast=None, stack=()):
    """abstract interpretation: states = set of (frozenset of guards established so far, operand-kind condition);
    returns the states falling through; appends (guards, kind, cond) to exits at every return"""
    for s in stmts:
        if not states:
            return states
        if isinstance(s, ast.Return):
            kind = classify_return(s.value, mname)
            for g, c in states:
                exits.add((g, kind, c))
            ru = returned_unchanged(s.value, operand)
            if fast is not None and ru is not None and "#scalar" not in stack:
                for g, c in states:
                    fast.add((g, ru, tuple(stack)))
            return set()
        if isinstance(s, ast.Raise):
            return set()
        if isinstance(s, ast.If):
            pk = positive_isinstance(s.test, operand)
            then_stack = stack + (("#scalar",) if scalar_only_test(s.test, operand) else ((pk,) if pk else ()))
            ok_ = operand_kind_of_test(s.test, operand)
            if ok_ is None and scalar_only_test(s.test, operand):
                ok_ = "nontensor"          # taken only by python numbers: infeasible for a tensor operand
            if ok_ is not None:
                st_then = {(g, meet(c, ok_)) for g, c in states}
                st_then = {x for x in st_then if x[1] is not None}
                if ok_ == "tensor":
                    st_else = {(g, meet(c, "nontensor")) for g, c in states}
                    st_else = {x for x in st_else if x[1] is not None}
                else:
                    st_else = set(states)      # not one of these non-tensor kinds: could still be anything
            else:
                st_then, st_else = set(states), set(states)
            if always_raises(s.body) and not any(isinstance(n, ast.Return) for b in s.body for n in ast.walk(b)):
                # conditional raise: acts as a guard on the other branch
                g = guard_of_test(s.test)
                if s.orelse:
                    st_else = flow(s.orelse, st_else, params, mname, exits, operand, fast, stack)
                states = {(frozenset(x | {g}), c) for x, c in st_else}
                continue
            st1 = flow(s.body, st_then, params, mname, exits, operand, fast, then_stack)
            st2 = flow(s.orelse, st_else, params, mname, exits, operand, fast, stack) if s.orelse else st_else
            states = st1 | st2
            continue
        if isinstance(s, ast.Try):
            handlers_raise = all(always_raises(h.body) for h in s.handlers)
            st = flow(s.body, set(states), params, mname, exits, operand, fast, stack)
            if handlers_raise:
                states = st
            else:
                # a handler that swallows the exception: guards inside the try are void on the handler path
                sth = set()
                for h in s.handlers:
                    sth |= flow(h.body, set(states), params, mname, exits, operand, fast, stack)
                states = st | sth
            if s.finalbody:
                states = flow(s.finalbody, states, params, mname, exits, operand, fast, stack)
            continue
        if isinstance(s, (ast.For, ast.While)):
            st_body = flow(s.body, set(states), params, mname, exits, operand, fast, stack)
            states = states | st_body
            if s.orelse:
                states = flow(s.orelse, states, params, mname, exits, operand, fast, stack)
            continue
        if isinstance(s, ast.With):
            states = flow(s.body, states, params, mname, exits, operand, fast, stack)
            continue
        gs = stmt_guards(s, params)
        if gs:
            states = {(frozenset(x | set(gs)), c) for x, c in states}
    return states


def method_exits(fn, fast=None):
    pos = [a.arg for a in fn.args.args if a.arg != "self"]
    params = pos + [a.arg for a in fn.args.kwonlyargs]
    if fn.args.vararg:
        params.append(fn.args.vararg.arg)
    operand = pos[0] if pos else None
    exits = set()
    st = flow(fn.body, {(frozenset(), "any")}, set(params), fn.name, exits, operand, fast)
    for g, c in st:                                   # falls off the end: returns None
        exits.add((g, ("compute",), c))
    return exits


def resolve(classes, mro, mname, start=0):
    for i in range(start, len(mro)):
        c = mro[i]
        if c in classes and mname in classes[c].methods:
            return i
    return None


def rows_for(classes, memo):
    rows = []
    raw_cache = {}
    for cname in sorted(classes):
        if not is_lo_class(classes, cname, memo):
            continue
        mro = c3(classes, cname, memo)
        for mname, ent in ENTRY_METHOD.items():
            i = resolve(classes, mro, mname)
            if i is None:
                raise Untranslatable("%s has no %s" % (cname, mname))

            def exits_from(i, depth=0):
                if depth > 8:
                    raise Untranslatable("super() chain too deep")
                d = mro[i]
                key = (d, mname)
                if key not in raw_cache:
                    raw_cache[key] = method_exits(classes[d].methods[mname])
                out = set()
                for g, kind, cond in raw_cache[key]:
                    if kind == ("super",):
                        j = resolve(classes, mro, mname, i + 1)
                        if j is None:
                            out.add((g, ("compute",), cond))
                        else:
                            for g2, k2, c2 in exits_from(j, depth + 1):
                                c = meet(cond, c2) if c2 != "any" else cond
                                if c is not None:
                                    out.add((frozenset(g | g2), k2, c))
                    else:
                        out.add((g, kind, cond))
                return out
            ex = exits_from(i)
            rows.append((cname, ent, mro[i], sorted((sorted(g), k, c) for g, k, c in ex)))
    return rows


def check_wrappers(classes):
    for w, body in WRAPPERS.items():
        owners = [c for c in classes if w in classes[c].methods]
        if owners != ["LinearOperator"]:
            raise Untranslatable("%s defined outside the base class: %s" % (w, owners))
        fn = classes["LinearOperator"].methods[w]
        ss = [s for s in fn.body if not (isinstance(s, ast.Expr) and isinstance(s.value, ast.Constant))]
        if not (len(ss) == 1 and isinstance(ss[0], ast.Return) and ast.unparse(ss[0].value) == body):
            raise Untranslatable("%s is no longer `return %s`" % (w, body))


def ctor_rows(classes, memo):
    """(class, class defining _check_args, __init__ reaches LinearOperator.__init__, _check_size)"""
    base_init = classes["LinearOperator"].methods["__init__"]
    t = ast.unparse(base_init)
    if not re.search(r"if settings\.debug\.on\(\):\s+err = self\._check_args\(\*args, \*\*kwargs\)\s+if err is not None:\s+raise ValueError\(err\)", t):
        raise Untranslatable("LinearOperator.__init__ no longer runs _check_args under settings.debug")
    out = []
    for cname in sorted(classes):
        if not is_lo_class(classes, cname, memo):
            continue
        mro = c3(classes, cname, memo)
        i = resolve(classes, mro, "_check_args")
        j = resolve(classes, mro, "__init__")
        init = classes[mro[j]].methods["__init__"]
        reaches = mro[j] == "LinearOperator" or any(
            isinstance(n, ast.Call) and isinstance(n.func, ast.Attribute) and n.func.attr == "__init__"
            for n in ast.walk(init))
        cs = True
        for c in mro:
            if c in classes and "_check_size" in classes[c].attrs:
                v = classes[c].attrs["_check_size"]
                cs = bool(getattr(v, "value", True))
                break
        out.append((cname, mro[i], reaches, cs))
    return out


def getitem_tail_check(classes):
    """__getitem__ ends with the size check under settings.debug and _check_size (template, fail-closed)"""
    fn = classes["LinearOperator"].methods["__getitem__"]
    owners = [c for c in classes if "__getitem__" in classes[c].methods]
    if owners != ["LinearOperator"]:
        raise Untranslatable("__getitem__ overridden in %s" % owners)
    t = ast.unparse(fn)
    if not re.search(r"if settings\.debug\.on\(\) and self\.__class__\._check_size:\s+expected_shape = _compute_getitem_size\(self, index\)", t):
        raise Untranslatable("__getitem__ no longer checks the result size with _compute_getitem_size under settings.debug")
    return True


# ------------------------------------------------------------------------------------------------ part C

# class invariants: attribute -> (type, denotation in terms of the operator's shape S).  They restate the `_size` of the
# class (template-checked below) and are compared with the implementation on every grid case.
ATTR_MODEL = {
    "DiagLinearOperator": {"_diag": ("tensor", "(py_slice_to %s (-1)%%Z)")},
    "ConstantDiagLinearOperator": {"diag_values": ("tensor", "(py_slice_to %s (-2)%%Z ++ [1])"),
                                   "diag_shape": ("natres", "py_idx %s (-1)%%Z"),
                                   "_diag": ("tensor", "(py_slice_to %s (-1)%%Z)")},
    "DenseLinearOperator": {"tensor": ("tensor", "%s")},
}
SIZE_TEMPLATES = {
    ("DiagLinearOperator", "_size"): "return torch.Size([*self._diag.shape, *self._diag.shape[-1:]])",
    ("ConstantDiagLinearOperator", "_size"): "return torch.Size([*self.diag_values.shape[:-1], self.diag_shape, self.diag_shape])",
    ("ConstantDiagLinearOperator", "_diag"): "return self.diag_values.expand(*self.diag_values.shape[:-1], self.diag_shape)",
    ("DenseLinearOperator", "_size"): "return self.tensor.size()",
    ("ZeroLinearOperator", "_size"): "return torch.Size(self.sizes)",
}


def body_without_doc(fn):
    return [x for x in fn.body if not (isinstance(x, ast.Expr) and isinstance(x.value, ast.Constant))]


def check_size_templates(classes):
    for (c, m), want in SIZE_TEMPLATES.items():
        if c not in classes or m not in classes[c].methods:
            raise Untranslatable("%s.%s not found" % (c, m))
        got = "\n".join(ast.unparse(x) for x in body_without_doc(classes[c].methods[m]))
        if got != want:
            raise Untranslatable("%s.%s is no longer `%s` (class invariant of the operator-operand model)" % (c, m, want))
    t = ast.unparse(classes["ConstantDiagLinearOperator"].methods["__init__"])
    if not re.search(r"if settings\.debug\.on\(\):\s+if not \(diag_values\.dim\(\) and diag_values\.size\(-1\) == 1\):\s+raise ValueError", t):
        raise Untranslatable("ConstantDiagLinearOperator.__init__ no longer checks the trailing singleton of diag_values")
    t = ast.unparse(classes["ZeroLinearOperator"].methods["__init__"])
    if "self.sizes = list(sizes)" not in t:
        raise Untranslatable("ZeroLinearOperator.__init__ no longer stores sizes")


class OpTr(FnTr):
    """FnTr + operator / tensor expressions, each denoted by its SHAPE.  self has shape `a`; the operand has shape `b`."""

    def __init__(self, classes, memo, cls, operand, operand_cls, extra=None):
        FnTr.__init__(self, {})
        self.classes, self.memo, self.cls, self.operand, self.operand_cls = classes, memo, cls, operand, operand_cls
        self.types = dict(extra or {})       # name -> (type, term)   for tensor / op / shape valued locals
        self.vals = {}

    def attr_model(self, owner_cls, attr):
        for c in c3(self.classes, owner_cls, self.memo):
            if c in ATTR_MODEL and attr in ATTR_MODEL[c]:
                return ATTR_MODEL[c][attr]
        return None

    def ctor(self, name, args, kwargs, starred):
        """shape of Constructor(args): (binds, term)"""
        if name == "ConstantDiagLinearOperator":
            allargs = list(args) + ([kwargs["diag_shape"]] if "diag_shape" in kwargs else [])
            if len(allargs) != 2 or starred:
                raise Untranslatable("ConstantDiagLinearOperator(...) call form")
            b1, t1, ty1 = self.expr(allargs[0])
            b2, t2, ty2 = self.expr(allargs[1])
            if ty1 != "tensor" or ty2 != "nat":
                raise Untranslatable("ConstantDiagLinearOperator(%s, %s)" % (ty1, ty2))
            v, w = self.fresh(), self.fresh()
            # constructor check under settings.debug: diag_values.dim() and diag_values.size(-1) == 1
            return (b1 + b2 + [(v, "py_idx %s (-1)%%Z" % t1),
                               (w, "if %s =? 1 then Ok (py_slice_to %s (-1)%%Z ++ [%s; %s]) else Raise" % (v, t1, t2, t2))], w)
        if name == "DiagLinearOperator":
            if len(args) != 1 or kwargs or starred:
                raise Untranslatable("DiagLinearOperator(...) call form")
            b1, t1, ty1 = self.expr(args[0])
            if ty1 != "tensor":
                raise Untranslatable("DiagLinearOperator(%s)" % ty1)
            v = self.fresh()
            return b1 + [(v, "py_idx %s (-1)%%Z" % t1)], "(%s ++ [%s])" % (t1, v)
        if name == "DenseLinearOperator":
            if len(args) != 1 or kwargs or starred:
                raise Untranslatable("DenseLinearOperator(...) call form")
            b1, t1, ty1 = self.expr(args[0])
            if ty1 != "tensor":
                raise Untranslatable("DenseLinearOperator(%s)" % ty1)
            return b1, t1
        if name == "ZeroLinearOperator":
            if len(args) != 1 or not starred or set(kwargs) - {"dtype", "device"}:
                raise Untranslatable("ZeroLinearOperator(...) call form")
            b1, t1, ty1 = self.expr(args[0])
            if ty1 != "shape":
                raise Untranslatable("ZeroLinearOperator(*%s)" % ty1)
            return b1, t1
        raise Untranslatable("constructor %s" % name)

    def expr(self, e):
        # names bound to tensor / operator / shape values
        if isinstance(e, ast.Name):
            if e.id == "self":
                return [], "a", "op"
            if e.id == self.operand:
                return [], "b", self.operand_cls and "op" or "tensor"
            if e.id in self.vals:
                ty, t = self.vals[e.id]
                return [], t, ty
            raise Untranslatable("unknown name %s" % e.id)
        if isinstance(e, ast.UnaryOp) and isinstance(e.op, ast.Not):
            b, t, ty = self.expr(e.operand)
            if ty != "bool":
                raise Untranslatable("not of a non-boolean")
            return b, "negb (%s)" % t, "bool"
        if isinstance(e, ast.Attribute):
            if e.attr == "shape":
                b, t, ty = self.expr(e.value)
                if ty not in ("op", "tensor"):
                    raise Untranslatable(".shape of %s" % ty)
                return b, t, "shape"
            b, t, ty = self.expr(e.value)
            if ty != "op":
                raise Untranslatable("attribute %s of %s" % (e.attr, ty))
            owner = self.cls if (isinstance(e.value, ast.Name) and e.value.id == "self") else \
                (self.operand_cls if (isinstance(e.value, ast.Name) and e.value.id == self.operand) else None)
            am = self.attr_model(owner, e.attr) if owner else None
            if am is None:
                raise Untranslatable("attribute %s.%s has no class invariant" % (owner, e.attr))
            aty, tmpl = am
            if aty == "natres":
                v = self.fresh()
                return b + [(v, tmpl % t)], v, "nat"
            return b, tmpl % t, aty
        if isinstance(e, ast.BinOp) and isinstance(e.op, (ast.Add, ast.Mult)):
            b1, t1, ty1 = self.expr(e.left)
            b2, t2, ty2 = self.expr(e.right)
            if ty1 == ty2 == "tensor":
                v = self.fresh()
                return b1 + b2 + [(v, "lift (torch_broadcast %s %s)" % (t1, t2))], v, "tensor"
            if ty1 == ty2 == "shape" and isinstance(e.op, ast.Add):
                return b1 + b2, "(%s ++ %s)" % (t1, t2), "shape"
            raise Untranslatable("binary operator on %s, %s" % (ty1, ty2))
        if isinstance(e, ast.Call):
            f = e.func
            kwargs = {k.arg: k.value for k in e.keywords if k.arg}
            starred = any(isinstance(x, ast.Starred) for x in e.args)
            args = [x.value if isinstance(x, ast.Starred) else x for x in e.args]
            # x.expand(shape)
            if isinstance(f, ast.Attribute) and f.attr == "expand" and len(args) == 1 and not kwargs and not starred:
                b1, t1, ty1 = self.expr(f.value)
                b2, t2, ty2 = self.expr(args[0])
                if ty1 != "tensor" or ty2 != "shape":
                    raise Untranslatable("expand of %s to %s" % (ty1, ty2))
                v = self.fresh()
                return b1 + b2 + [(v, "lift (torch_expand %s (zs_of %s))" % (t1, t2))], v, "tensor"
            # self.add_diagonal(tensor)
            if isinstance(f, ast.Attribute) and isinstance(f.value, ast.Name) and f.value.id == "self" and f.attr == "add_diagonal" \
                    and len(args) == 1 and not kwargs and not starred:
                b1, t1, ty1 = self.expr(args[0])
                if ty1 != "tensor":
                    raise Untranslatable("add_diagonal(%s)" % ty1)
                v = self.fresh()
                return b1 + [(v, "gen_diag_add_diagonal a %s" % t1)], v, "op"
            # self.__class__(...)  -> the constructor of the defining class
            if isinstance(f, ast.Attribute) and f.attr == "__class__" and isinstance(f.value, ast.Name) and f.value.id == "self":
                b, t = self.ctor(self.cls, args, kwargs, starred)
                return b, t, "op"
            dotted = dotted_name(f)
            if dotted == "torch.broadcast_shapes" and len(args) == 2 and not kwargs and not starred:
                b1, t1, ty1 = self.expr(args[0])
                b2, t2, ty2 = self.expr(args[1])
                if ty1 != "shape" or ty2 != "shape":
                    raise Untranslatable("broadcast_shapes of non-shapes")
                v = self.fresh()
                return b1 + b2 + [(v, "lift (torch_broadcast %s %s)" % (t1, t2))], v, "shape"
            if dotted is not None and dotted.endswith("LinearOperator") and "." not in dotted:
                b, t = self.ctor(dotted, args, kwargs, starred)
                return b, t, "op"
            raise Untranslatable("call %s" % (dotted or ast.dump(f)[:40]))
        if isinstance(e, ast.Subscript):
            b, t, ty = self.expr(e.value)
            if ty != "shape":
                raise Untranslatable("subscript of a non-shape")
            k = self.const_int(e.slice)
            if k is None:
                raise Untranslatable("non-constant index")
            v = self.fresh()
            return b + [(v, "py_idx %s %s" % (t, self.zlit(k)))], v, "nat"
        if isinstance(e, ast.Compare) and len(e.ops) == 1 and isinstance(e.ops[0], (ast.Eq, ast.NotEq)):
            b1, t1, ty1 = self.expr(e.left)
            b2, t2, ty2 = self.expr(e.comparators[0])
            if not (ty1 == ty2 == "nat"):
                raise Untranslatable("comparison of %s and %s" % (ty1, ty2))
            c = "(%s =? %s)" % (t1, t2)
            if isinstance(e.ops[0], ast.NotEq):
                c = "negb %s" % c
            return b1 + b2, c, "bool"
        raise Untranslatable("expression %s" % ast.dump(e)[:60])

    def static_bool(self, t):
        """value of an operand-KIND test when the operand is known to be an operator of class operand_cls (else None):
        torch.is_tensor(operand) is False; isinstance(operand, K) is True when operand_cls is K or a subclass of it and
        False when the two classes are unrelated (undecided when K is a proper subclass of operand_cls)"""
        if self.operand_cls is None:
            return None
        if isinstance(t, ast.UnaryOp) and isinstance(t.op, ast.Not):
            v = self.static_bool(t.operand)
            return None if v is None else (not v)
        if isinstance(t, ast.BoolOp):
            vs = [self.static_bool(x) for x in t.values]
            if isinstance(t.op, ast.Or):
                return True if any(v is True for v in vs) else (False if all(v is False for v in vs) else None)
            return False if any(v is False for v in vs) else (True if all(v is True for v in vs) else None)
        if isinstance(t, ast.Call):
            nm = dotted_name(t.func)
            if nm == "torch.is_tensor" and len(t.args) == 1 and isinstance(t.args[0], ast.Name) and t.args[0].id == self.operand:
                return False
            if nm == "isinstance" and len(t.args) == 2 and isinstance(t.args[0], ast.Name) and t.args[0].id == self.operand:
                ks = t.args[1].elts if isinstance(t.args[1], ast.Tuple) else [t.args[1]]
                names = [dotted_name(x) for x in ks]
                if any(n is None for n in names):
                    return None
                names = [n.split(".")[-1] for n in names]
                mro = c3(self.classes, self.operand_cls, self.memo)
                if any(n in mro for n in names):
                    return True
                if all(n in ("Tensor", "Number", "int", "float") or
                       (n in self.classes and self.operand_cls not in c3(self.classes, n, self.memo)) for n in names):
                    return False
        return None

    def stmts(self, ss, k):
        # an operand-kind test that is decided for an operator operand: only the branch taken is translated
        if ss and isinstance(ss[0], ast.If):
            v = self.static_bool(ss[0].test)
            if v is not None:
                return self.stmts((ss[0].body if v else ss[0].orelse) + ss[1:], k)
        # local assignment of tensor / shape / operator values: keep the denotation (no Gallina `let` needed for terms)
        if ss and isinstance(ss[0], ast.Assign) and len(ss[0].targets) == 1 and isinstance(ss[0].targets[0], ast.Name):
            b, t, ty = self.expr(ss[0].value)
            self.vals[ss[0].targets[0].id] = (ty, t)
            return self.wrap(b, self.stmts(ss[1:], k))
        if ss and isinstance(ss[0], ast.Return) and ss[0].value is not None:
            b, t, ty = self.expr(ss[0].value)
            if ty != "op":
                raise Untranslatable("returns a %s, not an operator" % ty)
            return self.wrap(b, "Ok %s" % t)
        return FnTr.stmts(self, ss, k)


def isinstance_branch(fn, operand, cls_name):
    """body of the top-level  `if isinstance(<operand>, <cls_name>):`  statement of fn"""
    for st in body_without_doc(fn):
        if isinstance(st, ast.If) and ast.unparse(st.test) == "isinstance(%s, %s)" % (operand, cls_name):
            return st.body
    raise Untranslatable("%s: no `if isinstance(%s, %s)` branch" % (fn.name, operand, cls_name))


def inheritors_keep_ctor(classes, memo, cls, method):
    """classes inheriting cls.<method> (which calls self.__class__(...)) must keep cls's constructor"""
    for c in classes:
        if c == cls or not is_lo_class(classes, c, memo):
            continue
        mro = c3(classes, c, memo)
        if cls in mro:
            i = resolve(classes, mro, method)
            if i is not None and mro[i] == cls and "__init__" in classes[c].methods:
                raise Untranslatable("%s inherits %s.%s (self.__class__(...)) with its own constructor" % (c, cls, method))


def translate_operator_overrides(classes, memo):
    check_size_templates(classes)
    out = []

    def need(c, m):
        if c not in classes or m not in classes[c].methods:
            raise Untranslatable("%s.%s not found" % (c, m))
        return classes[c].methods[m]

    def operand_of(fn):
        pos = [a.arg for a in fn.args.args if a.arg != "self"]
        if not pos:
            raise Untranslatable("%s has no operand" % fn.name)
        return pos[0]

    # DiagLinearOperator.add_diagonal(diag: Tensor)            (must come first: Diag.__add__ calls it)
    fn = need("DiagLinearOperator", "add_diagonal")
    for c in classes:      # every diagonal class runs THIS add_diagonal
        if is_lo_class(classes, c, memo) and "DiagLinearOperator" in c3(classes, c, memo):
            mro = c3(classes, c, memo)
            if mro[resolve(classes, mro, "add_diagonal")] != "DiagLinearOperator":
                raise Untranslatable("%s overrides add_diagonal" % c)
    tr = OpTr(classes, memo, "DiagLinearOperator", operand_of(fn), None)
    out.append("Definition gen_diag_add_diagonal (a b : shape) : res shape :=\n%s.\n" % tr.stmts(body_without_doc(fn), None))

    # DiagLinearOperator.__add__, DiagLinearOperator operand
    fn = need("DiagLinearOperator", "__add__")
    tr = OpTr(classes, memo, "DiagLinearOperator", operand_of(fn), "DiagLinearOperator")
    out.append("Definition gen_diag_add (a b : shape) : res shape :=\n%s.\n"
               % tr.stmts(isinstance_branch(fn, operand_of(fn), "DiagLinearOperator"), None))

    # ConstantDiagLinearOperator.__add__, ConstantDiagLinearOperator operand
    fn = need("ConstantDiagLinearOperator", "__add__")
    tr = OpTr(classes, memo, "ConstantDiagLinearOperator", operand_of(fn), "ConstantDiagLinearOperator")
    out.append("Definition gen_constdiag_add (a b : shape) : res shape :=\n%s.\n"
               % tr.stmts(isinstance_branch(fn, operand_of(fn), "ConstantDiagLinearOperator"), None))

    # ConstantDiagLinearOperator._mul_matrix, ConstantDiagLinearOperator operand
    fn = need("ConstantDiagLinearOperator", "_mul_matrix")
    inheritors_keep_ctor(classes, memo, "ConstantDiagLinearOperator", "_mul_matrix")
    tr = OpTr(classes, memo, "ConstantDiagLinearOperator", operand_of(fn), "ConstantDiagLinearOperator")
    out.append("Definition gen_constdiag_mul_matrix (a b : shape) : res shape :=\n%s.\n"
               % tr.stmts(isinstance_branch(fn, operand_of(fn), "ConstantDiagLinearOperator"), None))

    # DenseLinearOperator.__add__, DenseLinearOperator operand
    fn = need("DenseLinearOperator", "__add__")
    tr = OpTr(classes, memo, "DenseLinearOperator", operand_of(fn), "DenseLinearOperator")
    out.append("Definition gen_dense_add (a b : shape) : res shape :=\n%s.\n"
               % tr.stmts(isinstance_branch(fn, operand_of(fn), "DenseLinearOperator"), None))

    # ZeroLinearOperator.mul, any operator operand  (ZeroLinearOperator.__add__ = `return other` is a pinned defect with a
    # proposed repair: hand transcription Model.pinned_zero_add, tied by the correspondence only)
    fn = need("ZeroLinearOperator", "mul")
    inheritors_keep_ctor(classes, memo, "ZeroLinearOperator", "mul")
    tr = OpTr(classes, memo, "ZeroLinearOperator", operand_of(fn), "LinearOperator")
    out.append("Definition gen_zero_mul (a b : shape) : res shape :=\n%s.\n" % tr.stmts(body_without_doc(fn), None))
    return "\n".join(out)


def helper_guards(repo):
    """every function / method of operators/*.py (other than the public entry points of the guard table) that calls
    _matmul_broadcast_shape on its own: `file::Class.method` / `file::function`.  These are the shape checks of the
    `_matmul` / `_t_matmul` closures that the generic solvers (LinearOperator._solve -> linear_cg(self._matmul, rhs)) reach
    WITHOUT passing the public matmul guard."""
    d = os.path.join(repo, "linear_operator/operators")
    out = []
    for f in sorted(os.listdir(d)):
        if not f.endswith(".py"):
            continue
        tree = ast.parse(open(os.path.join(d, f)).read())

        def calls_guard(fn):
            for n in ast.walk(fn):
                if isinstance(n, ast.Call):
                    nm = dotted_name(n.func)
                    if nm is not None and nm.split(".")[-1] == "_matmul_broadcast_shape":
                        return True
            return False
        for n in tree.body:
            if isinstance(n, ast.FunctionDef) and calls_guard(n):
                out.append("%s::%s" % (f, n.name))
            if isinstance(n, ast.ClassDef):
                for m in n.body:
                    if isinstance(m, ast.FunctionDef) and m.name not in ENTRY_METHOD and calls_guard(m):
                        out.append("%s::%s.%s" % (f, n.name, m.name))
    return out


FAST_ENTRIES = ("matmul", "rmatmul", "__add__", "__sub__", "mul", "add_diagonal")


def fast_paths(classes, memo):
    """(defining class, entry, 'self'|'operand', operand classes tested positively around the return, guards passed)"""
    out = []
    for cname in sorted(classes):
        if not is_lo_class(classes, cname, memo):
            continue
        for mname in FAST_ENTRIES:
            if mname not in classes[cname].methods:
                continue
            fn = classes[cname].methods[mname]
            fast = set()
            method_exits(fn, fast)
            for g, kind, stack in sorted(fast, key=lambda x: (x[1], x[2], sorted(x[0]))):
                out.append((cname, ENTRY_METHOD[mname], kind, list(stack), sorted(g)))
    return out


COND = {"any": "OAny", "tensor": "OTensor", "nontensor": "ONonTensor"}


def coq_str(s):
    return '"%s"%%string' % s


def kind_lit(k):
    if k[0] == "compute":
        return "XCompute"
    if k[0] == "self":
        return "(XSelf %s)" % k[1]
    raise Untranslatable("unresolved exit kind %s" % (k,))


def translate(repo):
    """returns (coq_source, meta)"""
    classes = load_classes(repo)
    memo = {}
    if "LinearOperator" not in classes:
        raise Untranslatable("class LinearOperator not found")
    check_wrappers(classes)
    getitem_tail_check(classes)
    rows = rows_for(classes, memo)
    ctors = ctor_rows(classes, memo)
    out = ["(* GENERATED by harness/c19_tr.py from %s — do not edit *)" % "linear_operator/{utils/broadcasting.py,utils/getitem.py,operators/*.py}",
           "From Coq Require Import String.", "From Coq Require Import List ZArith Bool Arith.", "Import ListNotations.",
           "Require Import C19.Model.", "Open Scope nat_scope.", "",
           translate_matmul_broadcast_shape(repo), translate_getitem_int_branch(repo),
           translate_getitem_tensor_check(repo), "",
           "(* operator-operand overrides: every tensor / operator expression is denoted by its shape; a = self.shape, b = operand shape *)",
           translate_operator_overrides(classes, memo), ""]
    lines = []
    for c, e, d, ex in rows:
        xs = "; ".join("X [%s] %s %s" % ("; ".join(g), kind_lit(k), COND[c]) for g, k, c in ex)
        lines.append("  R %s %s %s [%s]" % (coq_str(c), e, coq_str(d), xs))
    out.append("Definition table : list row := [\n%s\n]." % ";\n".join(lines))
    out.append("")
    cl = ["  (%s, %s, %s, %s)" % (coq_str(c), coq_str(d), "true" if r else "false", "true" if cs else "false")
          for c, d, r, cs in ctors]
    out.append("(* class, class whose _check_args runs, __init__ reaches LinearOperator.__init__, _check_size *)")
    out.append("Definition ctor_table : list (string * string * bool * bool) := [\n%s\n]." % ";\n".join(cl))
    out.append("")
    fps = fast_paths(classes, memo)
    fl = ["  FP %s %s %s [%s] [%s]" % (coq_str(d), ent, "RetSelf" if kind == "self" else "RetOperand",
                                        "; ".join(coq_str(x) for x in st), "; ".join(g))
          for d, ent, kind, st, g in fps]
    out.append("(* FAST PATHS: paths of the binary entry points that return self / the operand unchanged: defining class, entry,")
    out.append("   what is returned, operand classes tested positively around the return, guards passed before it *)")
    out.append("Definition fastpaths : list fastpath := [\n%s\n]." % ";\n".join(fl))
    out.append("")
    hg = helper_guards(repo)
    out.append("(* helpers and private methods (not the public entry points) that call _matmul_broadcast_shape themselves *)")
    out.append("Definition helper_guards : list string := [\n%s\n]." % ";\n".join("  " + coq_str(x) for x in hg))
    out.append("")
    mro_lines = ["  (%s, [%s])" % (coq_str(c), "; ".join(coq_str(x) for x in c3(classes, c, memo) if x in classes))
                 for c in sorted(classes) if is_lo_class(classes, c, memo)]
    out.append("(* method resolution order (C3 on the AST) of every operator class *)")
    out.append("Definition mro_table : list (string * list string) := [\n%s\n]." % ";\n".join(mro_lines))
    out.append("")
    meta = {"classes": sorted({r[0] for r in rows}), "fastpaths": [list(x) for x in fps], "helper_guards": hg,
            "rows": [{"cls": c, "entry": e, "def": d, "exits": [[g, list(k), c] for g, k, c in ex]} for c, e, d, ex in rows],
            "ctors": [list(x) for x in ctors]}
    return "\n".join(out) + "\n", meta


if __name__ == "__main__":
    import sys
    code, meta = translate(sys.argv[1] if len(sys.argv) > 1 else "/repo")
    print(code)
