"""C04 — operator specifications with float data.

A spec is a dict {"cls": <label>, ...tensors / child specs...}.  For every spec:

  build(spec)        the real LinearOperator, through the public constructors
  dense(spec)        the dense (batched) matrix the constructor arguments DENOTE, assembled with plain
                     torch from the leaves — never through the operator's own code (independent oracle)
  batch(spec)        the operator's batch shape
  opd_lit(spec, bb, idx)   Gallina literal (C04.Model.opd float) of batch member `idx` of the operator
                     broadcast to batch shape `bb`
  label(spec)        structural key (class names down the tree)

All tensors are float64.  Randomness comes from the random.Random instance handed in by the caller."""
import itertools
import math

import torch

from . import common

F64 = torch.float64


# ----------------------------------------------------------------------------------------- data
def _randn(rng, *shape):
    n = int(math.prod(shape)) if shape else 1
    return torch.tensor([rng.gauss(0.0, 1.0) for _ in range(n)], dtype=F64).reshape(*shape)


def orth(rng, n):
    q, r = torch.linalg.qr(_randn(rng, n, n))
    return q * torch.sign(torch.diagonal(r)).unsqueeze(0)


def spectrum(n, kappa, rng):
    """log-spaced eigenvalues in [1, kappa], jittered, then scaled by a random factor in [0.5, 2]"""
    if n == 1:
        return torch.tensor([rng.uniform(0.5, 2.0) * math.sqrt(kappa)], dtype=F64)
    ev = [kappa ** (i / (n - 1)) for i in range(n)]
    ev = [e * (1.0 if i in (0, n - 1) else rng.uniform(0.9, 1.1)) for i, e in enumerate(ev)]
    s = rng.uniform(0.5, 2.0)
    return torch.tensor(ev, dtype=F64) * s


def spd(rng, n, kappa, batch=()):
    """SPD matrices Q diag(ev) Q^T with condition number ~ kappa (exactly symmetric)"""
    out = []
    for _ in range(int(math.prod(batch)) if batch else 1):
        q = orth(rng, n)
        a = (q * spectrum(n, kappa, rng)) @ q.T
        out.append((a + a.T) / 2)
    return torch.stack(out).reshape(*batch, n, n)


# members of one batch that differ in conditioning (the factorisation of a batch is ONE call: psd_safe_cholesky's jitter
# loop runs for the whole batch as soon as one member fails)
PROFILE_KAPPA = {"ok": 1e2, "small": 1e6, "small7": 1e7}       # PD members: eigenvalues log-spaced in [1/kappa, 1]
PROFILE_SING = {"sing1": -1e-9, "sing2": -5e-8}                # numerically singular members: smallest eigenvalue (the plain
#   factorisation fails; it succeeds after the first (1e-8) resp. the second (1e-7) jitter step - robustly, the margins
#   are >= 5e-9, far above rounding)


def spd_tag(rng, n, tag):
    q = orth(rng, n)
    if tag in PROFILE_KAPPA:
        k = PROFILE_KAPPA[tag]
        ev = [k ** (-(n - 1 - i) / (n - 1)) for i in range(n)]
    else:
        ev = [1e3 ** (-(n - 1 - i) / (n - 1)) for i in range(n)]
        ev[0] = PROFILE_SING[tag]
    ev = [e * (1.0 if i in (0, n - 1) else rng.uniform(0.9, 1.1)) for i, e in enumerate(ev)]
    a = (q * torch.tensor(ev, dtype=F64)) @ q.T
    return (a + a.T) / 2


def spd_profile(rng, n, profile):
    return torch.stack([spd_tag(rng, n, t) for t in profile])


def posvec(rng, n, lo, hi, batch=()):
    m = int(math.prod(batch)) if batch else 1
    return torch.tensor([math.exp(rng.uniform(math.log(lo), math.log(hi))) for _ in range(m * n)], dtype=F64).reshape(*batch, n)


def tri(rng, n, upper, kappa, batch=()):
    """triangular factor: the Cholesky factor of an SPD matrix of condition kappa, with random signs on the
    diagonal directions removed (plain Cholesky factor) plus a strictly-triangular perturbation"""
    a = spd(rng, n, kappa, batch)
    l = torch.linalg.cholesky(a)
    return l.mT.contiguous() if upper else l


# ----------------------------------------------------------------------------------------- specs
def label(e):
    c = e["cls"]
    kids = []
    if "ops" in e:
        kids += [label(x) for x in e["ops"]]
    for k in ("base", "kron"):
        if isinstance(e.get(k), dict):
            kids.append(label(e[k]))
    tag = c
    if c in ("Chol", "Tri", "CholInverse", "CholDiag", "TriRepeat", "CholOf", "FactorTri", "CholRw"):
        tag += "[upper]" if e["upper"] else "[lower]"
    if c == "CholRw":
        tag += "[%s]" % e["rw"]
    if c == "Derived":
        tag += "[%s after %s]" % (e["derive"], e["query"])
    if c == "Compose":
        return "Compose[%s]" % e["recipe"]
    if c == "KronAddedDiag":
        tag += "[%s]" % e["dk"]
    return tag + ("(" + ",".join(kids) + ")" if kids else "")


def build(e):
    import linear_operator.operators as O
    c = e["cls"]
    if c == "Dense":
        return O.DenseLinearOperator(e["t"].clone())
    if c == "Sum":
        return O.SumLinearOperator(*[build(x) for x in e["ops"]])
    if c == "SumKron":
        return O.SumKroneckerLinearOperator(*[build(x) for x in e["ops"]])
    if c == "ConstantMul":
        return O.ConstantMulLinearOperator(build(e["base"]), e["c"].clone())
    if c == "Toeplitz":
        return O.ToeplitzLinearOperator(e["col"].clone())
    if c == "Root":
        return O.RootLinearOperator(e["root"].clone())
    if c == "AddedDiag":
        return O.AddedDiagLinearOperator(build(e["base"]), O.DiagLinearOperator(e["d"].clone()))
    if c == "Diag":
        return O.DiagLinearOperator(e["d"].clone())
    if c == "ConstantDiag":
        return O.ConstantDiagLinearOperator(e["c"].clone(), diag_shape=e["n"])
    if c == "Identity":
        return O.IdentityLinearOperator(e["n"], batch_shape=torch.Size(e.get("batch", ())), dtype=e.get("dtype", F64))
    if c == "Chol":
        return O.CholLinearOperator(O.TriangularLinearOperator(e["t"].clone(), upper=e["upper"]), upper=e["upper"])
    if c == "CholInverse":
        return O.CholLinearOperator(O.TriangularLinearOperator(e["t"].clone(), upper=e["upper"]), upper=e["upper"]).inverse()
    if c == "CholDiag":
        return O.CholLinearOperator(O.DiagLinearOperator(e["d"].clone()), upper=e["upper"])
    if c == "Tri":
        return O.TriangularLinearOperator(e["t"].clone(), upper=e["upper"])
    if c == "TriPlusDiag":
        return O.TriangularLinearOperator(e["t"].clone(), upper=e["upper"]) + O.DiagLinearOperator(e["d"].clone())
    if c == "TriRepeat":
        return O.TriangularLinearOperator(
            O.BatchRepeatLinearOperator(O.DenseLinearOperator(e["t"].clone()), batch_repeat=torch.Size(e["rep"])), upper=e["upper"])
    if c == "Kron":
        return O.KroneckerProductLinearOperator(*[build(x) for x in e["ops"]])
    if c == "KronAddedDiag":
        kron = O.KroneckerProductLinearOperator(*[build(x) for x in e["ops"]])
        if e["dk"] == "const":
            dg = O.ConstantDiagLinearOperator(e["c"].clone(), diag_shape=kron.shape[-1])
        elif e["dk"] == "kconst":
            # Kronecker-structured diagonal, every factor a ConstantDiagLinearOperator
            dg = O.KroneckerProductDiagLinearOperator(
                *[O.ConstantDiagLinearOperator(dv[..., :1].clone(), diag_shape=dv.shape[-1]) for dv in e["dfs"]])
        elif e["dk"] == "kdiag":
            dg = O.KroneckerProductDiagLinearOperator(*[O.DiagLinearOperator(dv.clone()) for dv in e["dfs"]])
        else:
            dg = O.DiagLinearOperator(e["d"].clone())
        return O.KroneckerProductAddedDiagLinearOperator(kron, dg)
    if c == "LowRankRootAddedDiag":
        return O.LowRankRootAddedDiagLinearOperator(O.LowRankRootLinearOperator(e["root"].clone()), O.DiagLinearOperator(e["d"].clone()))
    if c == "BlockDiag":
        return O.BlockDiagLinearOperator(build(e["base"]))
    if c == "BlockInterleaved":
        return O.BlockInterleavedLinearOperator(build(e["base"]))
    if c == "BatchRepeat":
        return O.BatchRepeatLinearOperator(build(e["base"]), batch_repeat=torch.Size(e["rep"]))
    if c == "Permutation":
        return O.PermutationLinearOperator(e["perm"].clone())
    if c == "CholOf":
        # a solve routed through a factor operator: the Cholesky factor of ANY PD operator in the requested orientation,
        # wrapped as the library wraps it
        return O.CholLinearOperator(build(e["base"]).cholesky(upper=e["upper"]), upper=e["upper"])
    if c == "FactorTri":
        # the factor operator itself (a triangular system)
        return build(e["base"]).cholesky(upper=e["upper"])
    if c == "CholRw":
        # a Cholesky-factor operator that went through a PUBLIC rewrite: the triangular factor then wraps non-dense data
        tri_op = O.TriangularLinearOperator(e["t"].clone(), upper=e["upper"])
        if e["rw"] == "mul":
            return O.CholLinearOperator(tri_op, upper=e["upper"]) * e["c"].clone()
        if e["rw"] == "adddiag":
            return O.CholLinearOperator(tri_op + O.DiagLinearOperator(e["d"].clone()), upper=e["upper"])
        if e["rw"] == "add_diagonal":
            return O.CholLinearOperator(tri_op.add_diagonal(e["d"].clone()), upper=e["upper"])
        raise ValueError(e["rw"])
    if c == "Derived":
        return derive(build(e["base"]), e)
    if c == "KronDiag":
        return O.KroneckerProductDiagLinearOperator(*[O.DiagLinearOperator(dv.clone()) for dv in e["dfs"]])
    if c == "Compose":
        return compose_eval(e["expr"], e["parts"], build, False)
    raise ValueError(c)


def compose_eval(x, parts, leaf, is_dense):
    """evaluate a composition expression: on operators through the PUBLIC arithmetic (+, *, add_jitter, add_diagonal; whatever class the
    dispatch returns), or on dense matrices (the oracle)"""
    k = x[0]
    if k == "op":
        return leaf(parts[x[1]])
    a = compose_eval(x[1], parts, leaf, is_dense)
    if k == "add":
        return a + compose_eval(x[2], parts, leaf, is_dense)
    if k == "mul":
        return a * x[2]
    n = a.shape[-1]
    if k == "jitter":
        return a + x[2] * torch.eye(n, dtype=F64) if is_dense else a.add_jitter(x[2])
    if k == "add_diagonal":
        dv = parts[x[2]]["d"]
        return a + torch.diag_embed(dv) if is_dense else a.add_diagonal(dv.clone())
    raise ValueError(k)


def derive(op, e):
    """a public derivation of an operator (the ones that may carry caches over from the parent)"""
    import linear_operator.operators as O
    k = e["derive"]
    if k == "adddiag":
        return op + O.DiagLinearOperator(e["d"].clone())
    if k == "add_diagonal":
        return op.add_diagonal(e["d"].clone())
    if k == "jitter":
        return op.add_jitter(1e-2)
    if k == "mul":
        return op * e["c"].clone()
    if k == "expand":
        return op.expand(3, *op.shape)
    if k == "getitem":
        return op[0]
    if k == "mT":
        return op.mT
    raise ValueError(k)


def derive_dense(a, e):
    k = e["derive"]
    if k in ("adddiag", "add_diagonal"):
        return a + torch.diag_embed(e["d"])
    if k == "jitter":
        return a + 1e-2 * torch.eye(a.shape[-1], dtype=F64)
    if k == "mul":
        return a * e["c"]
    if k == "expand":
        return a.expand(3, *a.shape).clone()
    if k == "getitem":
        return a[0].clone()
    if k == "mT":
        return a.mT.clone()
    raise ValueError(k)


def bkron(a, b):
    bs = torch.broadcast_shapes(a.shape[:-2], b.shape[:-2])
    a = a.expand(*bs, *a.shape[-2:])
    b = b.expand(*bs, *b.shape[-2:])
    r = torch.einsum("...ij,...kl->...ikjl", a, b)
    return r.reshape(*bs, a.shape[-2] * b.shape[-2], a.shape[-1] * b.shape[-1])


def dense(e):
    c = e["cls"]
    if c == "Dense":
        return e["t"].clone()
    if c in ("Sum", "SumKron"):
        r = None
        for x in e["ops"]:
            r = dense(x) if r is None else r + dense(x)
        return r
    if c == "ConstantMul":
        return dense(e["base"]) * e["c"][..., None, None]
    if c == "Toeplitz":
        col = e["col"]
        n = col.shape[-1]
        idx = (torch.arange(n)[:, None] - torch.arange(n)[None, :]).abs()
        return col[..., idx]
    if c == "Root":
        return e["root"] @ e["root"].mT
    if c == "AddedDiag":
        return dense(e["base"]) + torch.diag_embed(e["d"])
    if c == "Diag":
        return torch.diag_embed(e["d"])
    if c == "ConstantDiag":
        return torch.diag_embed(e["c"].expand(*e["c"].shape[:-1], e["n"]))
    if c == "Identity":
        return torch.eye(e["n"], dtype=F64).expand(*e.get("batch", ()), e["n"], e["n"]).clone()
    if c == "Chol":
        t = e["t"]
        return t.mT @ t if e["upper"] else t @ t.mT
    if c == "CholInverse":
        t = e["t"]
        return torch.linalg.inv(t.mT @ t if e["upper"] else t @ t.mT)
    if c == "CholDiag":
        return torch.diag_embed(e["d"] * e["d"])
    if c == "Tri":
        return e["t"].clone()
    if c == "TriPlusDiag":
        return e["t"] + torch.diag_embed(e["d"])
    if c == "TriRepeat":
        return e["t"].expand(*e["rep"], *e["t"].shape[-2:]).clone()
    if c == "Kron":
        r = None
        for x in e["ops"]:
            r = dense(x) if r is None else bkron(r, dense(x))
        return r
    if c == "KronAddedDiag":
        k = dense({"cls": "Kron", "ops": e["ops"]})
        n = k.shape[-1]
        return k + torch.diag_embed(kad_diag(e, n))
    if c == "LowRankRootAddedDiag":
        return e["root"] @ e["root"].mT + torch.diag_embed(e["d"])
    if c in ("BlockDiag", "BlockInterleaved"):
        base = dense(e["base"])                    # (..., k, m, m)
        k, m = base.shape[-3], base.shape[-1]
        out = torch.zeros(*base.shape[:-3], k * m, k * m, dtype=F64)
        for i in range(k):
            if c == "BlockDiag":
                out[..., i * m:(i + 1) * m, i * m:(i + 1) * m] = base[..., i, :, :]
            else:
                out[..., i::k, i::k] = base[..., i, :, :]
        return out
    if c == "BatchRepeat":
        base = dense(e["base"])
        rep = list(e["rep"])
        pad = len(rep) + 2 - base.dim()
        if pad > 0:
            base = base.reshape(*([1] * pad), *base.shape)
        return base.repeat(*([1] * (base.dim() - 2 - len(rep))), *rep, 1, 1)
    if c == "Permutation":
        p = e["perm"]
        return torch.eye(p.shape[-1], dtype=F64)[p]
    if c == "CholOf":
        return dense(e["base"])                 # R^T R = L L^T = A: the operator denotes A itself
    if c == "FactorTri":
        l = torch.linalg.cholesky(dense(e["base"]))      # the unique factor with a positive diagonal (plain torch)
        return l.mT.contiguous() if e["upper"] else l
    if c == "CholRw":
        f = chol_rw_factor(e)
        return f.mT @ f if e["upper"] else f @ f.mT
    if c == "Derived":
        return derive_dense(dense(e["base"]), e)
    if c == "KronDiag":
        return torch.diag_embed(kad_diag({"dk": "kdiag", "dfs": e["dfs"]}, None))
    if c == "Compose":
        return compose_eval(e["expr"], e["parts"], dense, True)
    raise ValueError(c)


def chol_rw_factor(e):
    """the triangular factor the rewritten operator denotes (plain torch)"""
    if e["rw"] == "mul":
        return e["t"] * e["c"].sqrt()
    return e["t"] + torch.diag_embed(e["d"])


def kad_diag(e, n):
    """the diagonal a KronAddedDiag spec adds (plain torch)"""
    if e["dk"] == "const":
        return e["c"].expand(*e["c"].shape[:-1], n)
    if e["dk"] in ("kconst", "kdiag"):
        r = None
        for dv in e["dfs"]:
            r = dv if r is None else (r.unsqueeze(-1) * dv.unsqueeze(-2)).reshape(*r.shape[:-1], -1)
        return r
    return e["d"]


def batch(e):
    return list(dense(e).shape[:-2])


def size(e):
    return int(dense(e).shape[-1])


def cast_spec(e, dtype):
    """copy of a spec with every floating tensor cast to dtype"""
    if torch.is_tensor(e):
        return e.to(dtype) if e.is_floating_point() else e
    if isinstance(e, dict):
        return {k: cast_spec(v, dtype) for k, v in e.items()}
    if isinstance(e, list):
        return [cast_spec(v, dtype) for v in e]
    return e


# ----------------------------------------------------------------------------------------- literals
def flit(x):
    return common.flit(x)


def vec_lit(v):
    return "[:: " + "; ".join(flit(x) for x in v.reshape(-1).tolist()) + "]" if v.numel() else "[::]"


def mat_lit(m):
    return "[:: " + "; ".join(vec_lit(r) for r in m) + "]" if m.shape[0] else "[::]"


def cols_lit(x):
    """(n, c) tensor -> list of columns"""
    return mat_lit(x.mT)


def nat_list(xs):
    return "[:: " + "; ".join("%d%%N" % int(x) for x in xs) + "]" if len(xs) else "[::]"


def member(t, bb, idx, nd=2):
    """member idx (tuple into batch shape bb) of tensor t (its last nd dims are the payload) broadcast to bb"""
    tt = t.expand(*bb, *t.shape[-nd:]) if nd else t.expand(*bb)
    return tt[tuple(idx)] if len(bb) else tt


def spec_lit(e, bb, idx):
    """cells of a known finding: the operator as specified (None elsewhere)"""
    if e["cls"] == "TriPlusDiag":
        m = member(dense(e), bb, idx)
        return "(Some (DTriDense %s %d%%N %s))" % (common.coq_bool(e["upper"]), m.shape[-1], mat_lit(m))
    return "None"


def opd_lit(e, bb, idx):
    c = e["cls"]
    if c == "SumKron":
        # kron A_i + kron C_i with the eigh oracle of R_i^T A_i R_i, R_i = the inverse root of C_i computed the way
        # root_inv_decomposition(method="cholesky") does ((L^-1)^T by a triangular solve against the identity; size 1: 1/sqrt)
        k1, k2 = e["ops"]
        eig = []
        for a_s, c_s in zip(k1["ops"], k2["ops"]):
            a = member(dense(a_s), bb, idx)
            cm = member(dense(c_s), bb, idx)
            m = cm.shape[-1]
            if m == 1:
                r = 1.0 / cm.sqrt()
            else:
                r = torch.linalg.solve_triangular(torch.linalg.cholesky(cm), torch.eye(m, dtype=F64), upper=False).mT
            w, q = torch.linalg.eigh((r.mT @ a) @ r)
            eig.append("(%d%%N, %s, %s)" % (m, mat_lit(q), vec_lit(w)))
        return "(DSumKron [:: %s] [:: %s] [:: %s])" % (
            "; ".join(opd_lit(x, bb, idx) for x in k1["ops"]), "; ".join(opd_lit(x, bb, idx) for x in k2["ops"]), "; ".join(eig))
    if c in ("Dense", "Sum", "ConstantMul", "Toeplitz", "Root"):
        m = member(dense(e), bb, idx)
        return "(DGeneric %d%%N %s)" % (m.shape[-1], mat_lit(m))
    if c == "AddedDiag":
        m = member(dense(e), bb, idx)
        return "(DAddedDiag %d%%N %s)" % (m.shape[-1], mat_lit(m))
    if c == "Diag":
        d = member(e["d"], bb, idx, 1)
        return "(DDiag %d%%N %s)" % (d.shape[-1], vec_lit(d))
    if c == "ConstantDiag":
        d = member(e["c"].expand(*e["c"].shape[:-1], e["n"]), bb, idx, 1)
        return "(DDiag %d%%N %s)" % (d.shape[-1], vec_lit(d))
    if c == "Identity":
        return "(DIdentity float %d%%N)" % e["n"]
    if c == "Chol":
        t = member(e["t"], bb, idx)
        return "(DChol %s %d%%N %s)" % (common.coq_bool(e["upper"]), t.shape[-1], mat_lit(t))
    if c == "CholInverse":
        # the object inverse() returns is described as it is: a CholLinearOperator with its stored factor and
        # flag (pinned tree: L^-1, same triangle as the root, labelled with the opposite flag), or any other class
        import linear_operator.operators as O
        op = build(e)
        if isinstance(op, O.CholLinearOperator):
            t = member(op.root.to_dense().detach(), bb, idx)
            return "(DChol %s %d%%N %s)" % (common.coq_bool(bool(op.upper)), t.shape[-1], mat_lit(t))
        m = member(dense(e), bb, idx)
        return "(DGeneric %d%%N %s)" % (m.shape[-1], mat_lit(m))
    if c == "CholDiag":
        t = member(torch.diag_embed(e["d"]), bb, idx)
        return "(DChol %s %d%%N %s)" % (common.coq_bool(e["upper"]), t.shape[-1], mat_lit(t))
    if c == "Tri":
        t = member(e["t"], bb, idx)
        return "(DTriDense %s %d%%N %s)" % (common.coq_bool(e["upper"]), t.shape[-1], mat_lit(t))
    if c == "TriRepeat":
        t = member(dense(e), bb, idx)
        return "(DTriDense %s %d%%N %s)" % (common.coq_bool(e["upper"]), t.shape[-1], mat_lit(t))
    if c == "TriPlusDiag":
        m = member(dense(e), bb, idx)
        return "(DTriOver %s (DAddedDiag %d%%N %s))" % (common.coq_bool(e["upper"]), m.shape[-1], mat_lit(m))
    if c == "Kron":
        return "(DKron [:: %s])" % "; ".join(opd_lit(x, bb, idx) for x in e["ops"])
    if c == "KronAddedDiag" and e["dk"] in ("kconst", "kdiag"):
        eig, dvs = [], []
        for x, dv in zip(e["ops"], e["dfs"]):
            kf = member(dense(x), bb, idx)
            dm = member(dv, bb, idx, 1)
            if e["dk"] == "kdiag":
                r = dm.sqrt().reciprocal()
                kf = (r.unsqueeze(-1) * kf) * r.unsqueeze(-2)        # D^-1/2 K D^-1/2 as the library forms it
            w, q = torch.linalg.eigh(kf)
            eig.append("(%d%%N, %s, %s)" % (kf.shape[-1], mat_lit(q), vec_lit(w)))
            dvs.append(vec_lit(dm))
        return "(DKronAddedKronDiag %s [:: %s] [:: %s] [:: %s])" % (
            common.coq_bool(e["dk"] == "kconst"), "; ".join(opd_lit(x, bb, idx) for x in e["ops"]), "; ".join(dvs), "; ".join(eig))
    if c == "KronAddedDiag":
        k = dense({"cls": "Kron", "ops": e["ops"]})
        n = k.shape[-1]
        dg = e["c"].expand(*e["c"].shape[:-1], n) if e["dk"] == "const" else e["d"]
        d = member(dg, bb, idx, 1)
        eig = []
        if e["dk"] == "const":
            for x in e["ops"]:
                kf = member(dense(x), bb, idx)
                w, q = torch.linalg.eigh(kf)
                eig.append("(%d%%N, %s, %s)" % (kf.shape[-1], mat_lit(q), vec_lit(w)))
        return "(DKronAddedDiag [:: %s] %s %s %s)" % (
            "; ".join(opd_lit(x, bb, idx) for x in e["ops"]), "DConst" if e["dk"] == "const" else "DGeneral",
            vec_lit(d), "[:: " + "; ".join(eig) + "]" if eig else "[::]")
    if c == "LowRankRootAddedDiag":
        u = member(e["root"], bb, idx)
        d = member(e["d"], bb, idx, 1)
        return "(DLowRankRootAddedDiag %d%%N %d%%N %s %s)" % (u.shape[-2], u.shape[-1], mat_lit(u), vec_lit(d))
    if c in ("BlockDiag", "BlockInterleaved"):
        base = e["base"]
        bd = dense(base)                                # (..., k, m, m)
        k = bd.shape[-3]
        blocks = []
        for b in range(k):
            blocks.append(opd_lit(base, list(bb) + [k], tuple(idx) + (b,)))
        return "(%s %d%%N [:: %s])" % ("DBlockDiag" if c == "BlockDiag" else "DBlockInterleaved", k, "; ".join(blocks))
    if c == "BatchRepeat":
        base = e["base"]
        bbase = batch(base)
        # member idx of the repeated operator = member (idx mod base batch) of the base
        pad = [1] * (len(bb) - len(bbase)) + bbase
        bidx = tuple(i % s for i, s in zip(idx, pad))[len(bb) - len(bbase):]
        return "(DBatchRepeat %s)" % opd_lit(base, bbase, bidx)
    if c == "Permutation":
        p = member(e["perm"], bb, idx, 1)
        return "(DPerm float %s)" % nat_list(p.tolist())
    if c == "CholOf":
        return "(DCholOf %s %s)" % (common.coq_bool(e["upper"]), opd_lit(e["base"], bb, idx))
    if c == "CholRw":
        # specified behaviour: a Cholesky-factor operator over the rewritten factor (the library reaches the fall-back of
        # TriangularLinearOperator._cholesky_solve: two substitutions = the model's chol_solve)
        t = member(chol_rw_factor(e), bb, idx)
        return "(DChol %s %d%%N %s)" % (common.coq_bool(e["upper"]), t.shape[-1], mat_lit(t))
    if c == "FactorTri":
        # specified behaviour: substitution with the Cholesky factor of the dense matrix (computed by plain torch)
        t = member(dense(e), bb, idx)
        return "(DTriDense %s %d%%N %s)" % (common.coq_bool(e["upper"]), t.shape[-1], mat_lit(t))
    raise ValueError(c)


# ----------------------------------------------------------------------------------------- generators
def gen(rng, cls, n, kappa, obatch=(), **kw):
    """a PD (or triangular / permutation) operator spec of class `cls`, size n (composites: see below)"""
    ob = list(obatch)
    prof = kw.get("profile")
    if prof is not None:
        # a batch (len(profile),) whose members differ in conditioning
        assert ob == [len(prof)] and n >= 2
        if cls == "Dense":
            return {"cls": "Dense", "t": spd_profile(rng, n, prof)}
        if cls == "Sum":
            p_ = spd_profile(rng, n, prof)
            s_ = _randn(rng, *ob, n, n) * 0.01
            s_ = (s_ + s_.mT) / 2
            return {"cls": "Sum", "ops": [{"cls": "Dense", "t": p_ / 2 + s_}, {"cls": "Dense", "t": p_ / 2 - s_}]}
        if cls == "ConstantMul":
            return {"cls": "ConstantMul", "base": {"cls": "Dense", "t": spd_profile(rng, n, prof)}, "c": torch.ones(ob, dtype=F64)}
        if cls == "Kron":
            sizes = kw["sizes"]
            return {"cls": "Kron", "ops": [{"cls": "Dense", "t": spd_profile(rng, sizes[0], prof)}]
                    + [{"cls": "Dense", "t": spd(rng, m, 10.0, ob)} for m in sizes[1:]]}
        if cls in ("BlockDiag", "BlockInterleaved"):
            k = kw["blocks"]
            t = torch.stack([torch.stack([spd_tag(rng, n, tg if b == 0 else "ok") for b in range(k)]) for tg in prof])
            return {"cls": cls, "base": {"cls": "Dense", "t": t}}
        if cls in ("CholOf", "FactorTri"):
            return {"cls": cls, "base": gen(rng, kw["base"], n, kappa, ob, profile=prof, **kw.get("base_kw", {})), "upper": kw["upper"]}
        raise ValueError("no profile generator for " + cls)
    if cls == "Dense":
        return {"cls": "Dense", "t": spd(rng, n, kappa, ob)}
    if cls == "Sum":
        return {"cls": "Sum", "ops": [{"cls": "Dense", "t": spd(rng, n, kappa, ob)}, {"cls": "Dense", "t": spd(rng, n, max(1.0, kappa / 10), ob)}]}
    if cls == "SumKron":
        sizes = kw["sizes"]
        return {"cls": "SumKron", "ops": [gen(rng, "Kron", n, kappa, ob, sizes=sizes, fcls=kw.get("fcls1")),
                                          gen(rng, "Kron", n, max(1.0, kappa / 10), ob, sizes=sizes, fcls=kw.get("fcls2"))]}
    if cls == "ConstantMul":
        return {"cls": "ConstantMul", "base": {"cls": "Dense", "t": spd(rng, n, kappa, ob)}, "c": posvec(rng, 1, 0.5, 3.0, ob).reshape(ob)}
    if cls == "Toeplitz":
        # symmetric Toeplitz, strictly diagonally dominant => PD; kappa controls the dominance
        col = _randn(rng, *ob, n) * 0.5
        dom = col[..., 1:].abs().sum(-1) * 2
        col[..., 0] = dom * (1.0 + 2.0 / max(kappa, 1.0)) + 1e-3 + (1.0 if n == 1 else 0.0)
        return {"cls": "Toeplitz", "col": col}
    if cls == "Root":
        return {"cls": "Root", "root": tri(rng, n, False, kappa, ob)}
    if cls == "AddedDiag":
        return {"cls": "AddedDiag", "base": {"cls": "Dense", "t": spd(rng, n, kappa, ob)}, "d": posvec(rng, n, 0.5, 2.0, ob)}
    if cls == "Diag":
        return {"cls": "Diag", "d": posvec(rng, n, 1.0, max(kappa, 1.0001), ob)}
    if cls == "ConstantDiag":
        return {"cls": "ConstantDiag", "c": posvec(rng, 1, 0.5, 3.0, ob), "n": n}
    if cls == "Identity":
        return {"cls": "Identity", "n": n, "batch": tuple(ob)}
    if cls in ("Chol", "CholInverse", "Tri"):
        up = kw["upper"]
        return {"cls": cls, "t": tri(rng, n, up, kappa, ob), "upper": up}
    if cls == "TriRepeat":
        return {"cls": cls, "t": tri(rng, n, kw["upper"], kappa, ()), "upper": kw["upper"], "rep": tuple(kw["rep"])}
    if cls == "CholDiag":
        return {"cls": cls, "d": posvec(rng, n, 1.0, max(math.sqrt(kappa), 1.0001), ob), "upper": kw["upper"]}
    if cls == "TriPlusDiag":
        up = kw["upper"]
        return {"cls": cls, "t": tri(rng, n, up, kappa, ob), "upper": up, "d": posvec(rng, n, 0.5, 2.0, ob)}
    if cls == "Kron":
        sizes = kw["sizes"]
        kk = kappa ** (1.0 / len(sizes))
        fcls = kw.get("fcls") or ["Dense"] * len(sizes)
        return {"cls": "Kron", "ops": [gen(rng, fc, m, kk, ob, **kw.get("fkw", {})) for fc, m in zip(fcls, sizes)]}
    if cls == "KronAddedDiag":
        sizes = kw["sizes"]
        kk = kappa ** (1.0 / len(sizes))
        fcls = kw.get("fcls") or ["Dense"] * len(sizes)
        ops = [gen(rng, fc, m, kk, ob) for fc, m in zip(fcls, sizes)]
        nn = int(math.prod(sizes))
        if kw["dk"] == "const":
            return {"cls": cls, "ops": ops, "dk": "const", "c": posvec(rng, 1, 0.3, 2.0, ob)}
        if kw["dk"] == "kconst":
            return {"cls": cls, "ops": ops, "dk": "kconst",
                    "dfs": [posvec(rng, 1, 0.5, 2.0, ob).expand(*ob, m).contiguous() for m in sizes]}
        if kw["dk"] == "kdiag":
            return {"cls": cls, "ops": ops, "dk": "kdiag", "dfs": [posvec(rng, m, 0.5, 2.0, ob) for m in sizes]}
        return {"cls": cls, "ops": ops, "dk": "general", "d": posvec(rng, nn, 0.3, 2.0, ob)}
    if cls == "LowRankRootAddedDiag":
        k = kw["rank"]
        return {"cls": cls, "root": _randn(rng, *ob, n, k) * math.sqrt(kappa) / 2, "d": posvec(rng, n, 0.5, 2.0, ob)}
    if cls in ("BlockDiag", "BlockInterleaved"):
        k = kw["blocks"]
        return {"cls": cls, "base": gen(rng, kw.get("base", "Dense"), n, kappa, ob + [k], **kw.get("base_kw", {}))}
    if cls == "BatchRepeat":
        return {"cls": cls, "base": gen(rng, "Dense", n, kappa, kw.get("base_batch", ())), "rep": tuple(kw["rep"])}
    if cls in ("CholOf", "FactorTri"):
        return {"cls": cls, "base": gen(rng, kw["base"], n, kappa, ob, **kw.get("base_kw", {})), "upper": kw["upper"]}
    if cls == "CholRw":
        up = kw["upper"]
        return {"cls": cls, "t": tri(rng, n, up, kappa, ob), "upper": up, "rw": kw["rw"],
                "c": torch.tensor(rng.uniform(0.5, 3.0), dtype=F64), "d": posvec(rng, n, 0.5, 2.0, ob)}
    if cls == "KronDiag":
        return {"cls": cls, "dfs": [posvec(rng, m, 0.5, 2.0, ob) for m in kw["sizes"]]}
    if cls == "Compose":
        parts = [gen(rng, pc, pn, kappa, ob, **pkw) for pc, pkw, pn in kw["parts"]]
        return {"cls": cls, "recipe": kw["recipe"], "expr": kw["expr"], "parts": parts}
    if cls == "Derived":
        base = gen(rng, kw["base"], n, kappa, ob, **kw.get("base_kw", {}))
        nn = size(base)
        return {"cls": cls, "base": base, "derive": kw["derive"], "query": kw["query"],
                "d": posvec(rng, nn, 0.5, 2.0, ob), "c": torch.tensor(rng.uniform(0.5, 3.0), dtype=F64)}
    if cls == "Permutation":
        perms = []
        for _ in range(int(math.prod(ob)) if ob else 1):
            p = list(range(n))
            rng.shuffle(p)
            perms.append(p)
        return {"cls": cls, "perm": torch.tensor(perms, dtype=torch.long).reshape(*ob, n)}
    raise ValueError(cls)
