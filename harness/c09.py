"""C09 — Lanczos returns an orthonormal basis and the projected tridiagonal.

tie      : correspondence: the Gallina transcription coq/C09/Model.v of lanczos_tridiag (and of the root /
           diagonalisation post-processing) is executed by vm_compute on PrimFloat (binary64; binary32 by
           rounding every operation) on the same matrices / start vectors the real implementation is run on;
           Q, T, shapes, the final iteration count and raised errors are diffed (coq/C09/Check.v).
           The literals of lanczos.py (1e-6, range(10), tol=1e-5) are re-read from the source on every run
           (coq/C09/gen/Consts.v).
search   : the property's predicates (||Q^T Q - I||, ||Q^T A Q - T||, support of A Q - Q T, residual at an
           early exit, symmetry / band structure of T, shapes) evaluated directly on what the implementation
           returned, for every generated case (plain torch, dense float64).
"""
import ast
import json
import os
import random
import time

from . import common, c09_grid, c09_sys as S

PROP = "C09"
DEFAULTS = {"brk": 1e-6, "n_extra": 10, "tol": 1e-5}


# ------------------------------------------------------------------------------------------------
# constants of the source -> gen/Consts.v

def read_consts():
    """(constants, notes): the three literals of lanczos_tridiag, read from the source with ast; a literal that
    cannot be located keeps its pinned value (the correspondence then decides) and is listed in notes."""
    vals, notes = dict(DEFAULTS), []
    path = os.path.join(common.REPO, "linear_operator", "utils", "lanczos.py")
    try:
        tree = ast.parse(open(path).read())
        fn = [f for f in ast.walk(tree) if isinstance(f, ast.FunctionDef) and f.name == "lanczos_tridiag"][0]
    except Exception as ex:  # noqa
        return vals, ["lanczos_tridiag not found: %r" % (ex,)]
    found = set()
    # default of the argument tol
    names = [a.arg for a in fn.args.args]
    defs = fn.args.defaults
    off = len(names) - len(defs)
    if "tol" in names and names.index("tol") >= off:
        d = defs[names.index("tol") - off]
        if isinstance(d, ast.Constant) and isinstance(d.value, (int, float)):
            vals["tol"] = float(d.value)
            found.add("tol")
    for node in ast.walk(fn):
        # for _ in range(10):
        if isinstance(node, ast.For) and isinstance(node.iter, ast.Call) and getattr(node.iter.func, "id", None) == "range" \
                and len(node.iter.args) == 1 and isinstance(node.iter.args[0], ast.Constant) \
                and isinstance(node.target, ast.Name) and node.target.id == "_":
            vals["n_extra"] = int(node.iter.args[0].value)
            found.add("n_extra")
        # beta_curr.abs() > 1e-6
        if isinstance(node, ast.Compare) and len(node.ops) == 1 and isinstance(node.ops[0], ast.Gt) \
                and isinstance(node.comparators[0], ast.Constant) and isinstance(node.left, ast.Call) \
                and isinstance(node.left.func, ast.Attribute) and node.left.func.attr == "abs" \
                and getattr(node.left.func.value, "id", "") == "beta_curr":
            vals["brk"] = float(node.comparators[0].value)
            found.add("brk")
    for k in DEFAULTS:
        if k not in found:
            notes.append("literal %s not located in the source; pinned value %r used" % (k, DEFAULTS[k]))
    return vals, notes


def read_inner_abs(notes):
    """is the extra-pass test of lanczos_tridiag `inner_products.abs() > tol` (repaired) or `inner_products > tol` (pinned)?
    read with ast; an unrecognised form keeps the repaired one and is listed in notes (the correspondence then decides)"""
    path = os.path.join(common.REPO, "linear_operator", "utils", "lanczos.py")
    try:
        tree = ast.parse(open(path).read())
        fn = [f for f in ast.walk(tree) if isinstance(f, ast.FunctionDef) and f.name == "lanczos_tridiag"][0]
        for node in ast.walk(fn):
            if isinstance(node, ast.Compare) and len(node.ops) == 1 and isinstance(node.ops[0], ast.Gt) \
                    and getattr(node.comparators[0], "id", None) == "tol":
                left = node.left
                if isinstance(left, ast.Name) and left.id == "inner_products":
                    return False
                if isinstance(left, ast.Call) and isinstance(left.func, ast.Attribute) and left.func.attr == "abs" \
                        and getattr(left.func.value, "id", None) == "inner_products" and not left.args:
                    return True
    except Exception:  # noqa
        pass
    notes.append("the test `inner_products[.abs()] > tol` was not located in lanczos_tridiag; the model uses the .abs() form")
    return True


def regenerate():
    gen = os.path.join(common.COQ, PROP, "gen")
    os.makedirs(gen, exist_ok=True)
    vals, notes = read_consts()
    from . import c09_post
    form = c09_post.probe_diag_jitter_form()
    vals["diag_jitter_form"] = form
    if form == "unknown":
        notes.append("Diagonalization.forward adds neither jitter*min(diag T) to every entry nor to the diagonal of T; "
                     "the as-written form (every entry) is kept in the model, the correspondence will report the difference")
    var = c09_post.probe_variants()
    var["inner_abs"] = read_inner_abs(notes)
    vals["variants"] = var
    code = ("(* GENERATED by harness/c09.py from linear_operator/utils/lanczos.py (literals, form of the extra-pass test) and\n"
            "   by probing the tree under test (form of the Diagonalization jitter; which of the repaired / pinned versions of\n"
            "   the first Lanczos step and of the shape bookkeeping of the consumers it contains) - do not edit *)\n"
            "From Coq Require Import PrimFloat.\n"
            "Definition brk_lit : float := %s.\n"
            "Definition n_extra_lit : nat := %d.\n"
            "Definition default_tol_lit : float := %s.\n"
            "Definition diag_jitter_all_entries_lit : bool := %s.\n"
            "Definition first_guard_lit : bool := %s.\n"
            "Definition inner_abs_lit : bool := %s.\n"
            "Definition root_shape_fixed_lit : bool := %s.\n"
            "Definition diag_shape_fixed_lit : bool := %s.\n"
            "Definition post_shape_fixed_lit : bool := %s.\n"
            % (common.flit(vals["brk"]), vals["n_extra"], common.flit(vals["tol"]), common.coq_bool(form != "diag"),
               common.coq_bool(var["first_guard"]), common.coq_bool(var["inner_abs"]), common.coq_bool(var["root_shape_fixed"]),
               common.coq_bool(var["diag_shape_fixed"]), common.coq_bool(var["post_shape_fixed"])))
    p = os.path.join(gen, "Consts.v")
    if not os.path.exists(p) or open(p).read() != code:
        open(p, "w").write(code)
    return vals, notes


# ------------------------------------------------------------------------------------------------
# running one cell on the implementation and judging it with the property's predicates

def torch_dtype(name):
    import torch
    return {"f64": torch.float64, "f32": torch.float32}[name]


EPS = {"f64": 2.220446049250313e-16, "f32": 1.1920928955078125e-07}


def expected_shapes(c, m):
    lead = [] if c["nvec"] == 1 else [c["nvec"]]
    return lead + list(c["batch"]) + [c["n"], m], lead + list(c["batch"]) + [m, m]


def judge(c, d, obs, consts):
    """returns (failures, info).  failures: list of dicts {fail, ...}; info: structural facts about the run.
    The tolerances: a run is REGULAR when every retained off-diagonal entry of T is >= 1e-3 * max|A| (no
    (near-)breakdown): orthogonality / projection errors must then be at rounding level, 100 * eps * max(n, 8).
    Otherwise the code itself only promises inner products <= tol (the extra-pass test) and the first
    step has no re-orthogonalisation at all (error ~ eps * ||A|| / beta_0): 3 * tol + 20 * eps * sqrt(n) * max|A| / beta_0."""
    import torch
    n, nvec = c["n"], c["nvec"]
    num_iter = min(c["max_iter"], n)
    eps = EPS[c["dtype"]]
    tol = DEFAULTS["tol"] if c["tol"] is None else c["tol"]
    brk = DEFAULTS["brk"]        # the SPECIFIED threshold (the model follows the source's literal; the predicate does not)
    info = {"num_iter": num_iter, "cell": "regular"}
    # cells that are defective BY CONSTRUCTION of the input (so that a repaired tree is classified the same way):
    # budget 1, and Krylov dimension 1 (multiple of the identity / first start vector an eigenvector)
    if num_iter < 2:
        info["cell"] = "num_iter<2"
    elif c["fam"] == "scalar" or c.get("start") == "eigvec" or c.get("eig_at") \
            or (isinstance(c["fam"], (list, tuple)) and "scalar" in c["fam"]):
        info["cell"] = "beta0_breakdown"
    ncol = S.prod(c["batch"]) * nvec          # number of columns that share the two global reductions
    fails = []
    if obs[0] == "err":
        info["raised"] = obs[1]
        fails.append({"fail": "raises", "error": "%s: %s" % (obs[1], obs[2])})
        return fails, info
    q, t = obs[1], obs[2]
    m = int(t.shape[-1])
    info["m"] = m
    info["early_exit"] = m < num_iter
    qs, ts = expected_shapes(c, m)
    if list(q.shape) != qs or list(t.shape) != ts or not (1 <= m <= max(num_iter, 1)):
        fails.append({"fail": "shape", "q_shape": list(q.shape), "t_shape": list(t.shape), "expected": [qs, ts]})
        return fails, info
    if q.dtype != torch_dtype(c["dtype"]) or t.dtype != torch_dtype(c["dtype"]):
        fails.append({"fail": "dtype", "q": str(q.dtype), "t": str(t.dtype)})
    A = d["A"].to(torch_dtype(c["dtype"]))
    pr, _ = S.predicates(A, q, t, nvec)
    AA, qq, tt, _ = S.lead_view(A, q, t, nvec)
    worst = {}
    for p in pr:
        T = tt[p["j"], p["b"]]
        betas = torch.diagonal(T, offset=1)
        an = p["anorm"]
        bmin = float(betas.min()) if m > 1 else an
        b0 = float(betas[0]) if m > 1 else an
        rest_min = float(betas[1:].min()) if m > 2 else an
        # a beta at the rounding-noise level of its own computation (a residual ~ eps ||A|| that should be 0) is a
        # breakdown as well, whichever side of the absolute threshold 1e-6 the noise happens to fall on (float32!)
        thr = max(brk, 64 * eps * max(n, 8) * an)
        p["thr"] = thr
        if info["cell"] != "num_iter<2":
            if not (b0 > thr):                       # includes NaN
                info["cell"] = "beta0_breakdown"
            elif not (rest_min > thr) and info["cell"] == "regular" and (ncol > 1 or rest_min > brk):
                # a retained beta below the threshold is only possible when ANOTHER column kept the loop going
                # (with a single column the break of line 147 trims it: such a run stays "regular" and is compared
                # with the model, iteration count included)
                info["cell"] = "partial_breakdown"
        regular = (bmin == bmin) and bmin >= 1e-3 * an
        if regular:
            tl = 100 * eps * max(n, 8)
        else:
            # only the FIRST step lacks re-orthogonalisation: its cancellation error is ~ eps * ||A|| / beta_0
            tl = min(3 * tol + 20 * eps * (n ** 0.5) * an / max(b0 if b0 == b0 else 0.0, 1e-300), 1e-3)
        p["tier"] = "regular" if regular else "loose"
        p["tol_used"] = tl
        if p["nan"]:
            fails.append({"fail": "nan", "j": p["j"], "b": p["b"]})
            continue
        if m > 1 and float(betas.min()) < 0:
            fails.append({"fail": "negative-beta", "j": p["j"], "b": p["b"], "value": float(betas.min())})
        for k, fac in (("orth", 1.0), ("proj", 4.0), ("supp", 4.0)):
            worst[k + "_" + p["tier"]] = max(worst.get(k + "_" + p["tier"], 0.0), p[k] / (fac * tl))
            if p[k] > fac * tl:
                fails.append({"fail": k, "j": p["j"], "b": p["b"], "value": p[k], "tolerance": fac * tl, "tier": p["tier"]})
        if p["sym"] != 0.0:
            fails.append({"fail": "sym", "j": p["j"], "b": p["b"], "value": p["sym"]})
        if p["band"] != 0.0:
            fails.append({"fail": "band", "j": p["j"], "b": p["b"], "value": p["band"]})
        if m < num_iter:
            # early exit: every column's residual beta_k q_{k+1} is below the breakdown threshold
            lim = brk * 1.001 + 100 * eps * n * an
            worst["exit"] = max(worst.get("exit", 0.0), p["last"] / lim)
            if p["last"] > lim:
                fails.append({"fail": "early-exit-residual", "j": p["j"], "b": p["b"], "value": p["last"], "tolerance": lim})
    if info["cell"] in ("beta0_breakdown", "partial_breakdown"):
        # Inside the known defective cells the vectors computed BEFORE the first breakdown of a column are
        # produced exactly as in a regular run (theorem C09_breakdown_prefix): orthonormality / projection /
        # three-term relation of that prefix are demanded at the normal tolerance, under their own fail kinds
        # (the known-finding keys only cover the numerical garbage after the breakdown).
        for p in pr:
            Q, T, M = qq[p["j"], p["b"]], tt[p["j"], p["b"]], AA[p["b"]]
            betas = torch.diagonal(T, offset=1)
            w = m
            for i in range(m - 1):
                if not (float(betas[i]) > p["thr"]):
                    w = i + 1
                    break
            pp = S.prefix_predicates(M, Q, T, w)
            an = p["anorm"]
            pb = [float(x) for x in betas[: w - 1]]
            b0 = pb[0] if pb else an
            if all(x >= 1e-3 * an for x in pb):
                tl = 100 * eps * max(n, 8)
            else:
                tl = min(3 * tol + 20 * eps * (n ** 0.5) * an / max(b0, 1e-300), 1e-3)
            if pp["nan"]:
                fails.append({"fail": "prefix-nan", "j": p["j"], "b": p["b"], "prefix": w})
                continue
            if w == m and not p["nan"]:
                # a member that did not break down itself: it is owed its full decomposition, whatever the other members
                # of the batch do -- an exit before the budget must leave ITS residual below the threshold
                info.setdefault("member_ok", []).append([p["j"], p["b"]])
                lim = brk * 1.001 + 100 * eps * n * an
                if m < num_iter and p["last"] > lim:
                    fails.append({"fail": "member-truncated-after-first-step" if m == 1 else "member-early-exit-residual",
                                  "j": p["j"], "b": p["b"], "m": m, "budget": num_iter, "value": p["last"], "tolerance": lim})
            for k, fac in (("orth", 1.0), ("proj", 4.0), ("supp", 4.0)):
                worst["prefix_" + k] = max(worst.get("prefix_" + k, 0.0), pp[k] / (fac * tl))
                if pp[k] > fac * tl:
                    fails.append({"fail": "prefix-" + k, "j": p["j"], "b": p["b"], "prefix": w, "value": pp[k],
                                  "tolerance": fac * tl})
            # every stored Lanczos vector is the result of a division by its own norm (line 121 or 140), breakdown
            # or not: unit length up to rounding (NaN columns belong to the known findings)
            cn = (Q * Q).sum(0)
            fin = torch.isfinite(cn)
            if bool(fin.any()):
                dev = float((cn[fin] - 1.0).abs().max())
                lim = 100 * eps * max(n, 8)
                worst["column_norm"] = max(worst.get("column_norm", 0.0), dev / lim)
                if dev > lim:
                    fails.append({"fail": "column-norm", "j": p["j"], "b": p["b"], "value": dev, "tolerance": lim})
        # report a failure that is not covered by the known-finding keys first
        rank = {"member-truncated-after-first-step": 0, "member-early-exit-residual": 2}
        fails.sort(key=lambda f: rank.get(f["fail"], 1 if (f["fail"].startswith("prefix-") or f["fail"] == "column-norm") else 3))
    info["worst"] = worst
    info["preds"] = [{k: p[k] for k in ("j", "b", "orth", "proj", "supp", "last", "tier")} for p in pr[:4]]
    return fails, info


NUMERICAL_FAILS = ("nan", "orth", "proj", "supp", "early-exit-residual", "negative-beta")


def key_of(c, info, fail):
    """structural key of a failing case (no seeds, no values).  Inside the defective cells the numerical failure
    kinds are one class (which of them shows up first is rounding noise); every other kind (raises, shape, dtype,
    sym, band, prefix-*) keeps its name, so that the known-finding keys do not hide a different defect."""
    if info["cell"] == "regular":
        return {"api": "lanczos_tridiag", "cell": "regular", "fail": fail, "dtype": c["dtype"]}
    return {"api": "lanczos_tridiag", "cell": info["cell"], "fail": "numerical" if fail in NUMERICAL_FAILS else fail}


KNOWN_CELLS = ("num_iter<2", "beta0_breakdown", "partial_breakdown")


# ------------------------------------------------------------------------------------------------
# Coq case literals

def fmat_lit(M):
    return "[:: " + "; ".join("[:: " + "; ".join(common.flit(x) for x in r) + "]" for r in M.tolist()) + "]"


def seq_lit(items):
    return "[:: " + "; ".join(items) + "]" if items else "[::]"


def nat_seq(xs):
    return seq_lit(["%d" % int(x) for x in xs])


def compare_policy(c, d, obs, info, consts):
    """(cmp, cmp_exit, rtol): how much of the trajectory is compared by value (see design_notes/C09.md).
    float64: all Lanczos vectors at 1e-9 on well-conditioned and exactly degenerate families, the first 6 at
    1e-9 and nothing beyond on decaying spectra; float32 (model on binary32 arithmetic): 1e-3, only up to the
    Krylov dimension and not on spectra beyond float32 resolution.  Nothing by value in the known defective
    cells (rounding noise is not reproducible).  The iteration count is compared when no retained / exit beta is
    within 1% of the threshold and the exit beta is not rounding noise of the same order as the threshold."""
    fam = c["fam"] if isinstance(c["fam"], str) else "mixed"
    if obs[0] == "err":
        return 0, True, 1e-9
    if info["cell"] != "regular":
        return 0, False, 1e-9
    ds = [x for x in d["d"] if x is not None]
    dmin = min(ds) if len(ds) == len(d["d"]) else None
    tolarg = c["tol"]
    f32 = c["dtype"] == "f32"
    n = c["n"]
    # value comparison
    if f32:
        rtol = 1e-3
        if fam in ("wide", "rbf", "mixed") or c.get("scale", 1.0) != 1.0 and fam.startswith("rank"):
            cmp_ = 0
        elif dmin is not None and dmin < n:
            cmp_ = min(6, dmin)
        else:
            cmp_ = 6 if fam == "geometric" else 1000
    else:
        rtol = 1e-9
        if fam in ("geometric", "wide", "rbf"):
            cmp_ = 6
        elif fam == "mixed":
            cmp_ = min(ds) if ds else 2
        elif dmin is not None and dmin < n:
            # long exactly-degenerate runs (many equispaced eigenvalues) have ill-determined late vectors
            cmp_ = min(dmin, 16)
        else:
            cmp_ = 1000
    if f32:
        # binary32: the summation-order difference between the model and torch is amplified from vector to vector;
        # beyond the first 8 vectors it exceeds 1e-3 on batches (measured on the thorough grid)
        cmp_ = min(cmp_, 8)
    # exit comparison
    cmp_exit = True
    if f32 and (info["early_exit"] or (dmin is not None and dmin < info["num_iter"]) or fam in ("wide", "rbf", "geometric")):
        cmp_exit = False
    if fam == "mixed" or (dmin is not None and 16 <= dmin < n):
        cmp_exit = False
    if info.get("beta_margin_bad"):
        cmp_exit = False
    if tolarg is not None and tolarg < 1e-6:
        cmp_exit = cmp_exit and not f32
    return cmp_, cmp_exit, rtol


def member_policy(c, d, obs, info):
    """member-wise value comparison in a mixed cell (some member of the batch / some start vector broke down): per leading
    index (start vector j, batch member b; j-major) the number of Lanczos vectors compared with the model -- the usual
    policy of the member's own family for the members that did not break down themselves (a member's vectors depend on its
    own (A, q_0) only: theorem C09_member_independence), 0 for the others.  [] = not a mixed cell (one policy for all).
    float64 only (binary32 noise makes the global extra-pass decisions differ between model and torch)."""
    if obs[0] != "ok" or info.get("cell") not in ("beta0_breakdown", "partial_breakdown") or c["dtype"] != "f64":
        return []
    ok = info.get("member_ok") or []
    if not ok:
        return []
    B = S.prod(c["batch"])
    out = []
    for j in range(c["nvec"]):
        for b in range(B):
            if [j, b] not in ok:
                out.append(0)
                continue
            f = c["fam"][b % len(c["fam"])] if isinstance(c["fam"], (list, tuple)) else c["fam"]
            db = d["d"][b] if b < len(d["d"]) else None
            if f in ("uniform", "kappa10", "intgram"):
                out.append(1000)
            elif f in ("geometric", "wide", "rbf") or db is None:
                out.append(6)
            else:
                out.append(min(db, 16))
    return out


def beta_margin_bad(c, d, obs, consts):
    """True when a decision `|beta| > 1e-6` of the run is fragile: a retained beta, or the (recomputed) beta at an
    early exit, lies within 1% of the threshold, or the exit beta is not clearly rounding noise / clearly tiny."""
    import torch
    if obs[0] != "ok":
        return False
    brk = consts["brk"]
    q, t = obs[1], obs[2]
    m = t.shape[-1]
    betas = torch.diagonal(t.to(S.F64), offset=1, dim1=-2, dim2=-1)
    if m > 1 and bool(((betas - brk).abs() < 0.01 * brk).any()):
        return True
    num_iter = min(c["max_iter"], c["n"])
    if m < num_iter:
        A = d["A"].to(torch_dtype(c["dtype"]))
        pr, _ = S.predicates(A, q, t, c["nvec"])
        eps = EPS[c["dtype"]]
        for p in pr:
            # residual norm at exit = the trimmed beta (up to rounding)
            if p["last"] > 0.5 * brk:
                return True
    return False


def case_lit(c, d, obs, info, consts, ov=None):
    """MkCase literal.  ov: overrides for the guard cases {callable, dtype_ok, arg_batch, arg_n, debug} (what the
    call passed as batch_shape / matrix_shape[-1] / dtype, as opposed to what init_vecs has)"""
    import torch
    ov = ov or {}
    n, batch, nvec = c["n"], c["batch"], c["nvec"]
    B = S.prod(batch)
    dt = torch_dtype(c["dtype"])
    Ad = d["A"].to(dt).to(S.F64).reshape(B, n, n)
    randn = "[::]"
    if d["init"] is None:
        init = "None"
        rn = d["randn"].to(S.F64)                     # (n, nvec): what torch.randn returned inside the call
        randn = seq_lit([seq_lit([common.flit(x) for x in rn[:, j].tolist()]) for j in range(rn.shape[1])])
    else:
        if ov.get("onedim") is not None:
            v1 = ov["onedim"].to(dt).to(S.F64)
            init = "(Some (%s, true, [::], %d, %d, %s))" % (common.coq_bool(ov.get("dtype_ok", True)), n, int(v1.numel()),
                                                           seq_lit([seq_lit([common.flit(x) for x in v1.tolist()])]))
        else:
            iv = d["init"].to(dt).to(S.F64).reshape(B, n, nvec)
            cols = [iv[b, :, j] for b in range(B) for j in range(nvec)]
            init = "(Some (%s, false, %s, %d, %d, %s))" % (common.coq_bool(ov.get("dtype_ok", True)), nat_seq(batch), n, nvec,
                                                          seq_lit([seq_lit([common.flit(x) for x in col.tolist()]) for col in cols]))
    if obs[0] == "ok":
        q, t = obs[1], obs[2]
        m = t.shape[-1]
        qq = q.to(S.F64).reshape(-1, n, m)
        tt = t.to(S.F64).reshape(-1, m, m)
        o = "(ObsOk %s %s %s %s)" % (nat_seq(q.shape), nat_seq(t.shape), seq_lit([fmat_lit(x) for x in qq]),
                                     seq_lit([fmat_lit(x) for x in tt]))
    else:
        ek = S.err_kind(obs[1], obs[2])
        o = "ObsErrOther" if ek.startswith("Other:") else "(ObsErr %s)" % ek
    cmp_, cmp_exit, rtol = compare_policy(c, d, obs, info, consts)
    cmpv = member_policy(c, d, obs, info)
    tol = consts["tol"] if c["tol"] is None else c["tol"]
    return ("MkCase %s %s %d %s %d %s %s %d %s %s %s %d %s %s %s %s" % (
        common.coq_bool(c["dtype"] == "f32"), common.coq_bool(ov.get("callable", True)), ov.get("arg_n", n),
        nat_seq(ov.get("arg_batch", batch)), c["max_iter"],
        seq_lit([fmat_lit(Ad[b]) for b in range(B)]), init, nvec, randn, common.flit(tol),
        common.coq_bool(ov.get("debug", True)), cmp_, nat_seq(cmpv), common.coq_bool(cmp_exit),
        common.flit(rtol), o)), (max([cmp_] + cmpv), cmp_exit, rtol)


HEADER = ("From Coq Require Import PrimFloat.\n"
          "From mathcomp Require Import ssreflect ssrfun ssrbool eqtype ssrnat seq.\n"
          "Require Import C09.Model C09.Check.\n")


def parse_seq_nat(out):
    """parse '= [:: 1; 2]' / '= [::]' (ssreflect list notation) printed by Eval vm_compute"""
    import re
    m = re.search(r"=\s*\[::(.*?)\]\s*:\s*seq nat", out, re.S)
    if not m:
        return None
    body = m.group(1).strip()
    return [int(x.strip()) for x in body.split(";")] if body else []


def shard_src(lits):
    return HEADER + "Definition cases : seq case := [::\n %s].\nEval vm_compute in (bad_cases cases 0).\n" % ";\n ".join(lits)


def cost(c):
    n = c["n"]
    m = min(c["max_iter"], n)
    C = S.prod(c["batch"]) * c["nvec"]
    w = C * (n * n * m + n * m * m * (n / 8.0 + 1)) * (6.0 if c["dtype"] == "f32" else 1.0)
    return w + 2000.0


def pack(items, nshards):
    """greedy balance of (index, cost) into shards"""
    bins = [[0.0, []] for _ in range(nshards)]
    for i, w in sorted(items, key=lambda x: -x[1]):
        b = min(bins, key=lambda x: x[0])
        b[0] += w
        b[1].append(i)
    return [sorted(b[1]) for b in bins if b[1]]


# ------------------------------------------------------------------------------------------------

def make_cases(ctx_seed, quick):
    cells = c09_grid.grid(quick)
    rng = random.Random(ctx_seed)
    base = rng.randrange(1 << 30)
    out = []
    for i, c in enumerate(cells):
        c = dict(c)
        c["vseed"] = (base + 7919 * i) % (1 << 31)
        out.append(c)
    return out


def run_cell(c, consts):
    d = S.build(c)
    obs = S.run_impl(d["A"], d["init"], c["max_iter"], torch_dtype(c["dtype"]), tol=c["tol"])
    fails, info = judge(c, d, obs, consts)
    info["beta_margin_bad"] = (not any(f["fail"] == "shape" for f in fails)) and beta_margin_bad(c, d, obs, consts)
    return d, obs, fails, info


def summarize_obs(obs):
    if obs[0] == "err":
        return {"raised": obs[1], "message": obs[2]}
    return {"q_shape": list(obs[1].shape), "t_shape": list(obs[2].shape),
            "T0": obs[2].to(S.F64).reshape(-1, obs[2].shape[-1], obs[2].shape[-1])[0].tolist()[:6]}


def report_property_failure(ctx, c, obs, fails, info):
    f = fails[0]
    key = key_of(c, info, f["fail"])
    return ctx.violation({"kind": "property-predicate-fails-on-implementation", "cell": c, "failures": fails[:6],
                          "info": {k: v for k, v in info.items() if k != "preds"}, "observed": summarize_obs(obs),
                          "expected": "lanczos_tridiag returns (Q, T): Q^T Q = I, T symmetric tridiagonal, Q^T A Q = T, "
                                      "A Q - Q T supported in the last column (|| || <= 1e-6 after an early exit), for every "
                                      "budget 1..n+2"}, key=key)


def search_impl(ctx, consts, quick, cases=None):
    """the property's predicates on the implementation for every cell; returns number of unlisted violations"""
    found = 0
    for c in (cases if cases is not None else make_cases(ctx.seed, quick)):
        d, obs, fails, info = run_cell(c, consts)
        if fails and report_property_failure(ctx, c, obs, fails, info):
            found += 1
    return found


def run_shards3(ctx, shards, timeout):
    """common.run_shards with at most SHARD_JOBS coqc processes at a time (heaviest shards first)"""
    from concurrent.futures import ThreadPoolExecutor
    jobs = int(os.environ.get("VERIF_C09_JOBS", "3"))
    paths = []
    for name, src in shards:
        p = os.path.join(ctx.gen, "cases_%s.v" % name)
        open(p, "w").write(src)
        paths.append((name, p, len(src)))
    paths.sort(key=lambda x: -x[2])

    def one(np):
        return np[0], common.coqc_file(ctx.prop, np[1], timeout=timeout)
    res = {}
    with ThreadPoolExecutor(max_workers=max(1, jobs)) as ex:
        for name, r in ex.map(one, paths):
            res[name] = r
    for name, p, _ in paths:
        for ext in (".vo", ".vok", ".vos", ".glob"):
            try:
                os.remove(p[:-2] + ext)
            except OSError:
                pass
        try:
            os.remove(os.path.join(os.path.dirname(p), "." + os.path.basename(p)[:-2] + ".aux"))
        except OSError:
            pass
    return res


# ------------------------------------------------------------------------------------------------
# guard cases (lines 23-51): the call passes arguments that disagree with init_vecs, or a non-callable closure

GUARD_KINDS = ("notcallable", "dtype", "batch", "matrix", "dtype+batch", "batch+matrix", "dtype+matrix", "debug_off_ok",
               "onedim", "onedim_debug_off", "onedim+dtype", "onedim+batch")


def guard_cells(quick):
    cells = []
    for n in ([3, 5] if quick else [2, 3, 5, 8]):
        for batch in ([], [2]):
            for nvec in (1, 2):
                for kind in GUARD_KINDS:
                    c = c09_grid.cell(n, "uniform", n, batch=batch, nvec=nvec)
                    c["guard"] = kind
                    cells.append(c)
    return cells


def run_guard_cell(c, consts):
    import torch
    from linear_operator import settings
    d = S.build(c)
    kind = c["guard"]
    n, batch = c["n"], list(c["batch"])
    ov = {}
    kw = {}
    if kind == "notcallable":
        kw["closure"] = d["A"]                       # a tensor is not callable
        ov["callable"] = False
    if "dtype" in kind:
        kw["arg_dtype"] = torch.float32              # init_vecs is float64
        ov["dtype_ok"] = False
    if "batch" in kind:
        kw["batch_shape"] = torch.Size(batch + [3])
        ov["arg_batch"] = batch + [3]
    if "matrix" in kind:
        kw["matrix_shape"] = torch.Size([n + 1, n + 1])
        ov["arg_n"] = n + 1
    init = d["init"]
    if kind.startswith("onedim"):
        # a 1-D init_vecs (what root_inv_decomposition passes on for a vector): shape[:-2] is empty, size(-2) raises
        init = d["init"].reshape(-1, n, c["nvec"])[0, :, 0].clone()
        ov["onedim"] = init
    if kind in ("debug_off_ok", "onedim_debug_off"):
        ov["debug"] = False
        with settings.debug(False):
            obs = S.run_impl(d["A"], init, c["max_iter"], torch.float64, **kw)
    else:
        obs = S.run_impl(d["A"], init, c["max_iter"], torch.float64, **kw)
    # the property for these cells: incompatible arguments raise (never mis-compute); compatible ones run
    fails = []
    expect = {"notcallable": "ErrNotCallable", "dtype": "ErrDtype", "batch": "ErrBatchShape", "matrix": "ErrMatrixShape",
              "dtype+batch": "ErrDtype", "batch+matrix": "ErrBatchShape", "dtype+matrix": "ErrDtype",
              "onedim": "ErrIndex" if not batch else "ErrBatchShape", "onedim_debug_off": "ErrIndex",
              "onedim+dtype": "ErrDtype", "onedim+batch": "ErrBatchShape"}.get(kind)
    if expect is None:
        f2, info = judge(c, d, obs, consts)
        fails = f2
    else:
        info = {"cell": "guard", "num_iter": min(c["max_iter"], n)}
        got = S.err_kind(obs[1], obs[2]) if obs[0] == "err" else "returned"
        if got != expect:
            fails.append({"fail": "guard", "expected": expect, "got": got})
    info["beta_margin_bad"] = False
    return d, obs, fails, info, ov


def run(ctx):
    import torch
    from . import c09_post as P
    torch.set_num_threads(1)
    t0 = time.time()
    consts, notes = regenerate()
    for x in notes:
        ctx.say("C09 constants:", x)

    def on_fail(info):
        return search_impl(ctx, consts, quick=False) > 0
    ok = common.proof_stage(ctx, on_fail)
    cases = make_cases(ctx.seed, ctx.quick)
    results = []          # (cell, data, obs, fails, info, overrides)
    n_fail_known, n_direct = 0, 0
    counters = {"raised": 0, "early_exit": 0, "regular": 0, "beta0_breakdown": 0, "partial_breakdown": 0,
                "num_iter<2": 0, "guard": 0, "f32": 0, "batched": 0, "multi_vec": 0, "value_compared": 0,
                "exit_compared": 0, "api_calls": 0, "api_lanczos_runs_random_start": 0, "post_cases": 0, "probe_selections": 0, "shape_cases": 0}
    worst = {}

    def account(c, obs, fails, info):
        nonlocal n_fail_known, n_direct
        counters[info["cell"]] = counters.get(info["cell"], 0) + 1
        counters["raised"] += obs[0] == "err"
        counters["early_exit"] += bool(info.get("early_exit"))
        counters["f32"] += c["dtype"] == "f32"
        counters["batched"] += bool(c["batch"])
        counters["multi_vec"] += c["nvec"] > 1
        for k, v in info.get("worst", {}).items():
            if info["cell"] == "regular" or k.startswith("prefix_") or k == "column_norm":
                worst[k] = max(worst.get(k, 0.0), v)
        if fails:
            if report_property_failure(ctx, c, obs, fails, info):
                n_direct += 1
            else:
                n_fail_known += 1

    for c in cases:
        d, obs, fails, info = run_cell(c, consts)
        results.append((c, d, obs, fails, info, None))
        account(c, obs, fails, info)
    rng = random.Random(ctx.seed + 17)
    gbase = rng.randrange(1 << 30)
    for i, c in enumerate(guard_cells(ctx.quick)):
        c["vseed"] = (gbase + 104729 * i) % (1 << 31)
        d, obs, fails, info, ov = run_guard_cell(c, consts)
        results.append((c, d, obs, fails, info, ov))
        if fails and info["cell"] == "guard":
            if ctx.violation({"kind": "guard-does-not-raise", "cell": c, "failures": fails, "observed": summarize_obs(obs)},
                             key={"api": "lanczos_tridiag", "cell": "guard", "guard": c["guard"]}):
                n_direct += 1
            counters["guard"] += 1
        else:
            account(c, obs, fails, info)
    # operator-level consumers
    api_cells = P.grid(ctx.quick)
    abase = rng.randrange(1 << 30)
    plits, slits, pmeta, hlits = [], [], [], []
    api_worst = {}
    for i, c in enumerate(api_cells):
        c = dict(c)
        c["vseed"] = (abase + 15485863 * i) % (1 << 31)
        d = P.build(c)
        r = P.run_api(c, d)
        counters["api_calls"] += 1
        lcell = "regular"
        member_ok = None
        if r["ok"] and c["api"] != "to_diag" and r["rec"].lanczos:
            kw, q, t = r["rec"].lanczos[-1]
            # the budget of the internal Lanczos run is the user's max_root_decomposition_size (NOT what the call happened
            # to pass on): a run that ends before min(size, n) vectors must be a legitimate early exit
            c2 = c09_grid.cell(c["n"], c["fam"], c["size"], batch=c["batch"],
                               nvec=(c["nvec"] if c["api"] == "root_inv_multi" else 1), dtype=c["dtype"])
            c2["start"] = "api:" + c["api"]
            c2["passed_max_iter"] = kw["max_iter"]
            c2["vseed"] = c["vseed"]
            d2 = {"A": d["A"], "init": d.get("init") if c["api"] == "root_inv_multi" else
                  (d["init"][..., :1] if c["api"] == "root_inv_1d" else None), "d": d.get("d", [None])}
            if d2["init"] is None:
                if not r["rec"].randn:
                    ctx.violation({"kind": "harness", "what": "torch.randn not observed inside lanczos_tridiag", "cell": c}, no_input=True)
                    continue
                d2["randn"] = r["rec"].randn[-1]
                counters["api_lanczos_runs_random_start"] += 1
            obs2 = ("ok", q, t)
            f2, info2 = judge(c2, d2, obs2, consts)
            info2["beta_margin_bad"] = (not any(f["fail"] == "shape" for f in f2)) and beta_margin_bad(c2, d2, obs2, consts)
            lcell = info2["cell"]
            member_ok = info2.get("member_ok")
            if c["fam"] != "indef":
                results.append((c2, d2, obs2, f2, info2, None))
                account(c2, obs2, f2, info2)
            else:
                info2["cell"] = "indefinite"          # outside the property (PSD): model comparison only
                f2 = []
                results.append((c2, d2, obs2, f2, info2, None))
        fa, infa = P.judge_api(c, d, r, lcell, default_jitter=1e-6, member_ok=member_ok)
        for k, v in infa.get("worst", {}).items():
            api_worst[k] = max(api_worst.get(k, 0.0), v)
        if fa:
            key = {"api": c["api"], "cell": lcell, "fail": fa[0]["fail"]}
            if fa[0]["fail"] == "raises":
                key["error"] = fa[0].get("error", "").split(":")[0]
                key["scalar_member"] = bool(isinstance(c["fam"], (list, tuple)) and "scalar" in c["fam"])
            if ctx.violation({"kind": "property-predicate-fails-on-implementation", "cell": c, "failures": fa[:6],
                              "info": {k: v for k, v in infa.items() if k != "worst"},
                              "expected": "R R^T (resp. the diagonalisation) equals the orthogonal compression P A P + jitter P "
                                          "of A onto span Q, = A + jitter I on the full space; the inverse root inverts it on span Q"},
                             key=key):
                n_direct += 1
            else:
                n_fail_known += 1
        pl, sl, hl = P.pcase_lits(c, d, r, common.flit, fmat_lit, seq_lit, common.coq_bool)
        hlits += [(x, c) for x in hl]
        for x in pl:
            plits.append(x)
            pmeta.append(c)
        counters["post_cases"] += len(pl)
        counters["probe_selections"] += len(sl)
        counters["shape_cases"] += len(hl)
        slits += [(x, c) for x in sl]
    # StochasticLQ.to_dense (several functions in ONE call)
    from . import c09_slq as Q
    qlits = []
    qbase = rng.randrange(1 << 30)
    slq_worst = 0.0
    for i, c in enumerate(Q.grid(ctx.quick)):
        c = dict(c)
        c["vseed"] = (qbase + 32452843 * i) % (1 << 31)
        d = Q.build(c)
        r = Q.run(c, d)
        counters["slq_calls"] = counters.get("slq_calls", 0) + 1
        fq, infq = Q.judge(c, d, r)
        slq_worst = max(slq_worst, infq.get("worst", 0.0))
        if fq:
            key = {"api": "slq_to_dense", "fail": fq[0]["fail"], "nfuncs": min(len(c["funcs"]), 2)}
            if ctx.violation({"kind": "property-predicate-fails-on-implementation", "cell": c, "failures": fq[:6], "info": infq,
                              "expected": "StochasticLQ.to_dense returns, for every function f_i of the list, n / P * sum_j q_j^T f_i(A) q_j "
                                          "(exactly when the Krylov space is the whole space, and for polynomials of degree <= 2m - 1)"},
                             key=key):
                n_direct += 1
        ql = Q.lits(c, r, common.flit, fmat_lit, seq_lit)
        qlits += [(x, c) for x in ql]
    counters["slq_cases"] = len(qlits)
    api_worst["slq"] = slq_worst
    # call sequences on one operator object (cached decompositions derived from one another)
    from . import c09_seq as SQ
    sbase = rng.randrange(1 << 30)
    for i, c in enumerate(SQ.grid(ctx.quick)):
        c = dict(c)
        c["vseed"] = (sbase + 49979687 * i) % (1 << 31)
        fs, infs = SQ.run(c, SQ.build(c))
        counters["sequence_cells"] = counters.get("sequence_cells", 0) + 1
        for e in infs["errors"]:
            kk = "seq_" + e["call"]
            api_worst[kk] = max(api_worst.get(kk, 0.0), e["reconstruct"] / ((1e-4 if c["dtype"] == "f64" else 5e-3)
                                                                            * (infs["cond"] if e["call"] == "I" else 1.0)))
        if fs:
            if ctx.violation({"kind": "property-predicate-fails-on-implementation", "cell": c, "failures": fs[:6], "info": infs,
                              "expected": "diagonalization / root_decomposition / root_inv_decomposition of one operator object "
                                          "(Lanczos in force, Krylov space = whole space) reproduce A resp. A^-1 in every order of "
                                          "calls, and results handed out earlier do not change"},
                             key={"api": "sequence", "fail": fs[0]["fail"], "call": fs[0]["call"]}):
                n_direct += 1
    glits = []
    for (gb, gn, givs) in P.guard_grid(ctx.quick):
        raised, note = P.run_root_inv_guard(gb, gn, givs)
        counters["api_guard_cases"] = counters.get("api_guard_cases", 0) + 1
        compatible = (list(givs) == list(gb) + [gn, givs[-1]] and len(givs) == len(gb) + 2) or (not gb and list(givs) == [gn])
        glits.append(("MkGCase %s %d %s %s" % (nat_seq(gb), gn, nat_seq(givs), common.coq_bool(raised)), (gb, gn, givs)))
        if raised == compatible:
            if ctx.violation({"kind": "property-predicate-fails-on-implementation", "cell": {"api": "root_inv_guard", "batch": gb,
                                                                                         "n": gn, "initial_vectors_shape": givs},
                              "failures": [{"fail": "guard", "raised": raised, "compatible": compatible, "note": note}],
                              "expected": "root_inv_decomposition(method='lanczos') raises RuntimeError exactly for initial_vectors whose "
                                          "shape is neither ( *batch, n, k ) nor (n) for an operator without batch dimensions"},
                             key={"api": "root_inv_guard", "fail": "guard", "compatible": compatible}):
                n_direct += 1
    t_impl = time.time() - t0
    # correspondence shards
    mism = []
    n_model_dis = 0
    if ok:
        lits, pol = [], []
        for (c, d, obs, fails, info, ov) in results:
            l, p = case_lit(c, d, obs, info, consts, ov)
            lits.append(l)
            pol.append(p)
            counters["value_compared"] += (p[0] > 0 and obs[0] == "ok")
            counters["exit_compared"] += (p[1] and obs[0] == "ok")
        groups = pack([(i, cost(results[i][0])) for i in range(len(results))], 6)
        shards = [("c09_%d" % gi, shard_src([lits[i] for i in g])) for gi, g in enumerate(groups)]
        PSH = 250
        pgroups = [list(range(i, min(i + PSH, len(plits)))) for i in range(0, len(plits), PSH)]
        for gi, g in enumerate(pgroups):
            shards.append(("c09p_%d" % gi, HEADER + "Definition pcases : seq pcase := [::\n %s].\nEval vm_compute in (bad_pcases pcases 0).\n"
                           % ";\n ".join(plits[i] for i in g)))
        if slits:
            shards.append(("c09s_0", HEADER + "Definition scases : seq scase := [::\n %s].\nEval vm_compute in (bad_scases scases 0).\n"
                           % ";\n ".join(x for x, _ in slits)))
        QSH = 300
        qgroups = [list(range(i, min(i + QSH, len(qlits)))) for i in range(0, len(qlits), QSH)]
        for gi, g in enumerate(qgroups):
            shards.append(("c09q_%d" % gi, HEADER + "Definition qcases : seq qcase := [::\n %s].\nEval vm_compute in (bad_qcases qcases 0).\n"
                           % ";\n ".join(qlits[i][0] for i in g)))
        if glits:
            shards.append(("c09g_0", HEADER + "Definition gcases : seq gcase := [::\n %s].\nEval vm_compute in (bad_gcases gcases 0).\n"
                           % ";\n ".join(x for x, _ in glits)))
        if hlits:
            shards.append(("c09h_0", HEADER + "Definition hcases : seq hcase := [::\n %s].\nEval vm_compute in (bad_hcases hcases 0).\n"
                           % ";\n ".join(x for x, _ in hlits)))
        res = run_shards3(ctx, shards, timeout=1400 if not ctx.quick else 600)

        def bad_of(name):
            rc, out = res[name]
            bad = parse_seq_nat(out) if rc == 0 else None
            if bad is None:
                ctx.violation({"kind": "shard-failed", "shard": name, "out": out[-700:]}, no_input=True)
                return []
            return bad
        for gi, g in enumerate(groups):
            mism += [(g[b // 16], b % 16) for b in bad_of("c09_%d" % gi)]
        reasons = {1: "raise/return differs", 2: "error kind", 3: "iteration count / shapes", 4: "number or size of matrices",
                   5: "Q values", 6: "T values"}
        for (i, code) in mism:
            c, d, obs, fails, info, ov = results[i]
            if fails:
                continue            # already reported (or matched a known finding) through the direct predicate
            n_model_dis += 1
            if n_model_dis <= 5:
                ctx.violation({"kind": "model-implementation-disagreement", "cell": c, "reason": reasons.get(code, code),
                               "policy": pol[i], "observed": summarize_obs(obs), "info": {k: v for k, v in info.items() if k != "preds"},
                               "correspondence": "coq/C09/Check.v check_case (Model.lanczos_tridiag on PrimFloat vs the implementation)"},
                              no_input=True)
        preasons = {1: "jittered matrix handed to eigh", 2: "root", 3: "inverse root", 4: "eigenvalues", 5: "eigenvectors / q_mat"}
        for gi, g in enumerate(pgroups):
            for b in bad_of("c09p_%d" % gi):
                n_model_dis += 1
                mism.append(("p", b))
                if n_model_dis <= 5:
                    ctx.violation({"kind": "model-implementation-disagreement", "cell": pmeta[g[b // 16]],
                                   "reason": preasons.get(b % 16, b % 16),
                                   "correspondence": "coq/C09/Check.v check_pcase (Model.add_jitter / root_post / diag_post vs the implementation)"},
                                  no_input=True)
        if slits:
            for b in bad_of("c09s_0"):
                n_model_dis += 1
                mism.append(("s", b))
                ctx.violation({"kind": "model-implementation-disagreement", "cell": slits[b // 16][1],
                               "reason": {1: "probe residuals", 2: "best probe index"}.get(b % 16, b % 16),
                               "correspondence": "coq/C09/Check.v check_scase (Model.post_residuals / postprocess)"},
                              no_input=True)
        for gi, g in enumerate(qgroups):
            for b in bad_of("c09q_%d" % gi):
                n_model_dis += 1
                mism.append(("q", b))
                if n_model_dis <= 8:
                    ctx.violation({"kind": "model-implementation-disagreement", "cell": qlits[g[b // 16]][1],
                                   "reason": "list returned by StochasticLQ.to_dense",
                                   "correspondence": "coq/C09/Check.v check_qcase (Model.slq_to_dense)"}, no_input=True)
        if glits:
            for b in bad_of("c09g_0"):
                n_model_dis += 1
                mism.append(("g", b))
                gb, gn, givs = glits[b // 16][1]
                ctx.violation({"kind": "model-implementation-disagreement",
                               "cell": {"api": "root_inv_guard", "batch": gb, "n": gn, "initial_vectors_shape": givs},
                               "reason": "root_inv_decomposition raised / did not raise on the shape of initial_vectors",
                               "correspondence": "coq/C09/Check.v check_gcase (Model.root_inv_guard_raises)"}, no_input=True)
        if hlits:
            for b in bad_of("c09h_0"):
                n_model_dis += 1
                mism.append(("h", b))
                ctx.violation({"kind": "model-implementation-disagreement", "cell": hlits[b // 16][1],
                               "reason": "shape of the returned root / inverse root / eigenvectors",
                               "correspondence": "coq/C09/Check.v check_hcase (Model.root_forward_shape / diag_forward_shape / "
                                                 "postprocess_shape)"}, no_input=True)

    def skey(c, info):
        return json.dumps([c["n"], c["batch"], c["nvec"], c["fam"], c["start"], c["max_iter"], c["dtype"], c["tol"],
                           c.get("scale", 1.0), info.get("m"), info["cell"]])
    nontrivial = {skey(c, info) for (c, d, obs, fails, info, ov) in results
                  if obs[0] == "ok" and (info.get("m", 0) >= 3 or info.get("early_exit"))}
    samples = []
    for (c, d, obs, fails, info, ov) in (results[len(cases) // 3], results[len(cases) - 40 if len(cases) > 40 else -1]):
        samples.append({"cell": c, "observed": summarize_obs(obs), "predicates": info.get("preds"), "m": info.get("m")})
    ctx.coverage.update({
        "trusted_base": common.COQ_TRUSTED + [
            "PrimFloat (binary64) evaluation of the model by vm_compute; the binary32 instance rounds every operation to 24 bits "
            "(exponent range not modelled)",
            "torch primitives modelled by their mathematical meaning: elementwise ops, sum / norm (sequential order; torch's "
            "order differs, covered by the tolerance), matmul, torch.linalg.eigh (specified, not implemented: the harness feeds "
            "what torch returned), zeros / copy_ / slicing / permute / squeeze / expand as index maps",
            "correspondence harness harness/c09.py, c09_sys.py, c09_grid.py, c09_post.py, c09_slq.py (wrappers around lanczos_tridiag, "
            "torch.linalg.eigh, torch.randn, _postprocess_lanczos_root_inv_decomp installed in the harness process) and the "
            "comparators coq/C09/Check.v (tolerances: 1e-9 float64, 1e-3 float32, see design_notes/C09.md)",
            "dense float64 oracle (plain torch) for the predicates",
            "exact real arithmetic in the theorems (no rounding-error analysis)"],
        "evaluations": len(results) + counters["post_cases"] + counters["probe_selections"] + counters["shape_cases"] + counters.get("api_guard_cases", 0) + counters.get("slq_cases", 0) + counters.get("sequence_cells", 0),
        "distinct_nontrivial": len(nontrivial),
        "rule": "one evaluation = one call of lanczos_tridiag on a generated (matrix batch, start vectors, budget, dtype, tol) cell "
                "(directly, through a guard case, or inside root_decomposition / root_inv_decomposition / diagonalization), compared "
                "with the model and judged by the predicates, or one post-processing / probe-selection comparison; non-trivial = a "
                "Lanczos run that returned at least 3 Lanczos vectors or exited early; distinct by (n, batch, nvec, family, start kind, "
                "max_iter, dtype, tol, scale, final iteration count, cell)",
        "lanczos_runs": len(results), "cells": counters, "mismatches": len(mism), "direct_property_failures_unlisted": n_direct,
        "cases_in_known_defective_cells_failing": n_fail_known,
        "predicate_worst_ratio_to_tolerance": {k: round(v, 6) for k, v in worst.items()},
        "api_predicate_worst_ratio_to_tolerance": {k: round(v, 6) for k, v in api_worst.items()},
        "source_constants": consts, "source_constant_notes": notes,
        "wall_impl_s": round(t_impl, 1), "samples": samples,
    })
    ctx.assumptions = [
        "matmul_closure acts as a fixed symmetric matrix per batch member (the theorems assume linearity and, for the "
        "projection theorem, symmetry); closures that alias or mutate their argument are outside the model",
        "exact arithmetic in the theorems; in floating point the statements hold up to the tolerances of design_notes/C09.md",
        "no breakdown (the off-diagonal entries of the returned T are non-zero) in the orthonormality / projection theorems",
        "torch.linalg.eigh returns an orthogonal diagonalisation (hypothesis of the root / diagonalisation / SLQ theorems)",
        "linear_op.matmul multiplies by the dense matrix of every batch member (probe selection)",
        "CPU tensors; device checks of the debug branch are not modelled"]


def replay(rp):
    import torch
    from . import c09_post as P
    torch.set_num_threads(1)
    consts, _ = read_consts()
    c = rp.get("cell")
    if not c:
        print("replay file has no cell (broken proof obligation or shard failure):", json.dumps(rp)[:600])
        return 1
    if c.get("api") == "slq":
        from . import c09_slq as Q
        d = Q.build(c)
        r = Q.run(c, d)
        fails, info = Q.judge(c, d, r)
        print("cell:", json.dumps(c))
        if r[0] == "ok":
            print("returned:", json.dumps([x.tolist() for x in r[1]])[:600])
            print("expected:", json.dumps(Q.expected(c, d)[0])[:600])
        print("property failures:" if fails else "property holds on this case", json.dumps(fails[:6]))
        return 1 if fails else 0
    if c.get("api") == "sequence":
        from . import c09_seq as SQ
        fails, info = SQ.run(c, SQ.build(c))
        print("cell:", json.dumps(c))
        print("info:", json.dumps(info)[:1200])
        print("property failures:" if fails else "property holds on this case", json.dumps(fails[:6]))
        return 1 if fails else 0
    if c.get("api") == "root_inv_guard":
        raised, note = P.run_root_inv_guard(c["batch"], c["n"], c["initial_vectors_shape"])
        print("cell:", json.dumps(c), "raised by the argument check:", raised, note)
        return 1
    if "api" in c:
        d = P.build(c)
        r = P.run_api(c, d)
        lcell = "regular"
        if r["ok"] and c["api"] != "to_diag" and r["rec"].lanczos:
            kw, q, t = r["rec"].lanczos[-1]
            c2 = c09_grid.cell(c["n"], c["fam"], c["size"], batch=c["batch"],
                               nvec=(c["nvec"] if c["api"] == "root_inv_multi" else 1), dtype=c["dtype"])
            d2 = {"A": d["A"], "init": None, "d": d.get("d", [None])}
            f2, info2 = judge(c2, d2, ("ok", q, t), consts)
            lcell = info2["cell"]
            print("internal Lanczos run: cell", lcell, "m", info2.get("m"), "failures", json.dumps(f2[:4]))
        fails, info = P.judge_api(c, d, r, lcell)
        print("cell:", json.dumps(c))
        print("info:", json.dumps({k: v for k, v in info.items()}, default=str)[:1200])
        print("property failures:" if fails else "property holds on this case", json.dumps(fails[:6]))
        return 1 if fails else 0
    if "guard" in c:
        d, obs, fails, info, ov = run_guard_cell(c, consts)
    else:
        d, obs, fails, info = run_cell(c, consts)
    print("cell:", json.dumps(c))
    print("observed:", json.dumps(summarize_obs(obs))[:800])
    print("info:", json.dumps({k: v for k, v in info.items()}, default=str)[:1200])
    print("property failures:" if fails else "property holds on this case", json.dumps(fails[:6]))
    return 1 if fails else 0
